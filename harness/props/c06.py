"""C06 -- every failure is a diagnostic: the generator never crashes or hangs.   (PARTIAL: see coq/props/C06.v)

Stage B (correspondence with coq/Cli.v, evaluated by vm_compute):
  handle      random lists of GeneratorError / ParseError / PropertyError / ParameterError (explicit and default levels) x
              fail_on_warning through the real cli.handle_errors (typer.Exit caught): exit code, banner, printed order
  generate    in-process openapi_python_client.generate on valid / rejected / junk documents and the three output-directory
              states: outcome (list of diagnostics by identity and level | uncaught exception at one of the two modelled sites),
              tree changed or not, GeneratorData.errors = schemas.errors ++ parameters.errors
  loops       every execution of _create_schemas / _process_models / build_parameters observed through wrappers on the
              per-item functions: the model loop replaying the recorded outcomes makes the same attempts in the same order,
              stops at the same point, keeps the same errors (identity, order), leaves the same items
  resolve     bodies._resolve_reference on random reference tables (cycles, self loops, dangling, shared simple names) and on
              every call made during generation
  source      --url against a local HTTP server (127.0.0.1, ephemeral port): {no Content-Type, json, yaml, text, json+charset, garbage...}
              x URL path {no extension, .json, .yaml, .yml, .txt, query, trailing slash...} x body {valid JSON, valid YAML, junk, empty}
              x status {200, 404, 500, redirect, closed socket, refused, malformed URL}: the content type handed to the loader and
              the parser that ran = Norm.content_type_of / choose_parser (C17's loader_dispatch model); in-process and through the
              CLI; plus --url with --path, neither, --path to a directory / missing / binary / extension-less file
  cli         the CLI end to end in subprocesses (wall-clock limit): exit status = model's exit code for the diagnostics the
              in-process run returned; no traceback; directory listing unchanged when the document is rejected
Stage C (what no theorem reaches): junk bytes as JSON / YAML, JSON values as documents, non-OpenAPI dicts, single and double
  node mutations of valid documents, all in-process in worker processes with a wall-clock limit.  ANY uncaught exception or
  hang is a failure: KNOWN-FINDING when its exact site (exception type + innermost frame inside openapi_python_client, plus
  the structural input test of the finding) is listed, VIOLATION otherwise (document shrunk by delta debugging first)."""
import json, os, queue, random, shutil, subprocess, sys, tempfile, threading, time
from pathlib import Path
from lib.common import VERIF, REPO, PY, cstr, clist, cbool, run_cases, coq_eval
from gen import mutate, docs as gdocs, schemas as gschemas

WORKER = str(Path(__file__).resolve().parents[1] / "lib" / "c06_worker.py")
LIMIT = 20.0          # wall-clock limit per case (in-process and CLI)

HDR = r"""Require OPC.Norm.
Require Import OPC.Uni OPC.Names OPC.Fs OPC.Retry OPC.gen.GenCli OPC.Cli.
Open Scope N_scope.
Definition ostr_eqb (a b : option str) : bool :=
  match a, b with None, None => true | Some x, Some y => str_eqb x y | _, _ => false end.
(* the loader dispatch of _get_document is the one of Norm.v (C17 loader_dispatch): content type = header up to the first
   semicolon when the header is present, else mimetypes' guess for the URL (runtime oracle); JSON parser iff application/json *)
Definition check_source (hdr guessed observed_ct : option str) (parser_seen : option bool) : bool :=
  let src := Norm.SUrl (Some (Norm.Build_response [] hdr)) guessed in
  ostr_eqb (Norm.content_type_of src) observed_ct
  && match parser_seen with
     | None => true
     | Some is_json => Norm.parser_eqb (Norm.choose_parser (Norm.content_type_of src)) (if is_json then Norm.PJson else Norm.PYaml)
     end.
Fixpoint ln_eqb (a b : list N) : bool :=
  match a, b with [] , [] => true | x :: a', y :: b' => (x =? y) && ln_eqb a' b' | _, _ => false end.
Definition diag_eqb (a b : diag) : bool := level_eqb (d_level a) (d_level b) && (d_id a =? d_id b).
Fixpoint ld_eqb (a b : list diag) : bool :=
  match a, b with [] , [] => true | x :: a', y :: b' => diag_eqb x y && ld_eqb a' b' | _, _ => false end.
Definition olevel_eqb (a b : option level) : bool :=
  match a, b with None, None => true | Some x, Some y => level_eqb x y | _, _ => false end.
Definition W (i : N) := mkDiag LWarning i.
Definition E (i : N) := mkDiag LError i.
Definition check_handle (errs : list diag) (fow : bool) (code : N) (banner : option level) (printed : list N) : bool :=
  let o := handle_errors errs fow in
  (co_exit o =? code) && olevel_eqb (co_banner o) banner && ln_eqb (co_printed o) printed.
Definition seqN (n : nat) : list N := map N.of_nat (seq 0 n).
Definition check_loop (perm outs : list N) (n : nat) (attempts errs : list N) (left : option (list N)) : bool :=
  let r := run_loop (step_replay perm) (outs, 0) (seqN n) in
  negb (lr_exhausted r)
  && ln_eqb (filter (fun i => negb (memN i perm)) (lr_trace r)) attempts
  && match fst (lr_state r) with [] => true | _ => false end
  && ln_eqb (lr_errors r) errs
  && match left with None => true | Some l => ln_eqb (lr_left r) l end
  && Nat.leb (lr_rounds r) (S n).
Definition rres_eqb (a b : rres) : bool :=
  match a, b with
  | ResNone, ResNone => true
  | ResBody x, ResBody y => x =? y
  | ResCircular x, ResCircular y => str_eqb x y
  | ResUnresolved x, ResUnresolved y => str_eqb x y
  | _, _ => false
  end.
Definition check_resolve (tb : rb_table) (b : option rbody) (res : rres) : bool :=
  rres_eqb (resolve_reference tb b) res && negb (rl_exhausted (resolve_run tb b)) && Nat.leb (rl_steps (resolve_run tb b)) (S (length tb)).
(* observed: None = uncaught exception; Some errs = the list generate returned *)
Definition check_gen (sc : scenario) (t0 : tree) (obs : option (list diag)) (unchanged : bool) (gd_errs : option (list diag)) : bool :=
  let r := generate sc t0 in
  match fst r, obs with
  | Crash, None => true
  | Ret errs, Some o => ld_eqb errs o
  | _, _ => false
  end
  && Bool.eqb (Nat.eqb (length (snd r)) (length t0)) unchanged
  && match gd_errs with None => true | Some l => ld_eqb (openapi_errors (sc_data sc)) l end.
Definition nodoc : Fs.doc := Build_doc [] [].
Definition keep : tree := [([[107;101;101;112]], User 0)].
"""


# ------------------------------------------------------------------ worker pool with a wall-clock limit per case
class Worker:
    def __init__(self):
        self.start()

    def start(self):
        env = {**os.environ, "PYTHONPATH": str(REPO), "OPC_REPO": str(REPO), "PYTHONHASHSEED": "0"}
        self.p = subprocess.Popen([PY, WORKER], stdin=subprocess.PIPE, stdout=subprocess.PIPE, stderr=subprocess.PIPE, text=True, env=env, bufsize=1)
        self.q = queue.Queue()
        self.errbuf = []
        threading.Thread(target=self._reader, args=(self.p, self.q), daemon=True).start()
        threading.Thread(target=self._errreader, args=(self.p,), daemon=True).start()

    @staticmethod
    def _reader(p, q):
        for line in p.stdout:
            if line.startswith("@@R@@ "):
                q.put(line[6:])
        q.put(None)

    def _errreader(self, p):
        for line in p.stderr:
            self.errbuf.append(line)
            del self.errbuf[:-40]

    def run(self, case, limit):
        try:
            self.p.stdin.write(json.dumps(case) + "\n")
            self.p.stdin.flush()
        except (BrokenPipeError, OSError):
            self.kill()
            self.start()
            return {"id": case.get("id"), "died": "broken pipe", "stderr": "".join(self.errbuf)[-1500:]}
        try:
            line = self.q.get(timeout=limit)
        except queue.Empty:
            self.kill()
            self.start()
            return {"id": case.get("id"), "hang": True, "limit": limit}
        if line is None:
            rc = self.p.wait()
            err = "".join(self.errbuf)[-1500:]
            self.start()
            return {"id": case.get("id"), "died": rc, "stderr": err}
        return json.loads(line)

    def kill(self):
        try:
            self.p.kill()
            self.p.wait(timeout=5)
        except Exception:
            pass

    def close(self):
        try:
            self.p.stdin.close()
            self.p.wait(timeout=5)
        except Exception:
            self.kill()


def pool_run(cases, jobs=14, limit=LIMIT):
    """returns {id: result}"""
    todo = queue.Queue()
    for c in cases:
        todo.put(c)
    results = {}
    lock = threading.Lock()

    def loop():
        w = Worker()
        try:
            while True:
                try:
                    c = todo.get_nowait()
                except queue.Empty:
                    return
                lim = limit if c["kind"] != "shrink" else c.get("budget", 15) + 40
                r = w.run(c, lim)
                with lock:
                    results[c["id"]] = r
        finally:
            w.close()
    ths = [threading.Thread(target=loop) for _ in range(min(jobs, max(1, len(cases))))]
    for t in ths:
        t.start()
    for t in ths:
        t.join()
    return results


# ------------------------------------------------------------------ known findings: exact exception sites
NUMERIC_SITES = {"parser/properties/int.py:convert_value", "parser/properties/float.py:convert_value"}


def classify_exc(exc, case, res):
    """finding id for an uncaught exception, or None.  exc = [type, innermost site, stack of sites, message]"""
    typ, site, stack = exc[0], exc[1], exc[2]
    obs = res.get("obs") or {}
    if typ == "TypeError" and site == "parser/openapi.py:from_dict" and obs.get("in_ok") is False:
        return "scalar_document_crash"
    if typ == "FileNotFoundError" and site == "__init__.py:build" and case.get("out") == "missing_parent":
        return "missing_parent_dir"
    if typ == "ValueError" and site == "parser/properties/enum_property.py:values_from_list" and "Duplicate key" in exc[3]:
        return "enum_dup_crash"
    if typ in ("OverflowError", "ValueError") and site in NUMERIC_SITES:
        return "merge_default_crash" if any(s.startswith("parser/properties/merge_properties.py:") for s in stack) else "default_nonfinite_crash"
    if typ == "RecursionError" and site == "__init__.py:_load_yaml_or_json" and case.get("suffix") == ".json":
        return "load_depth_crash"
    if typ == "ValueError" and site == "__init__.py:_load_yaml_or_json" and case.get("suffix") != ".json" and exc[3].startswith("Exceeds the limit (4300 digits)"):
        return "yaml_bigint_crash"
    if typ == "ValueError" and site == "parser/properties/schemas.py:parse_reference_path":
        return "ref_urlparse_crash"
    # source_path_oserror (IsADirectoryError / FileNotFoundError @ __init__.py:_get_document) was repaired in /repo 1071adc: no classifier
    # any more, a recurrence is an unlisted crash = VIOLATION; the directory / missing-file --path cases stay as regression inputs
    if typ == "OSError" and site in ("__init__.py:_build_api", "__init__.py:_build_models") and exc[3].startswith("[Errno 36]"):
        return "name_too_long_oserror"
    # const_multipart_crash (UndefinedError 'transform_multipart' @ templates/model.py.jinja) was repaired in /repo 6f2d009: no
    # classifier any more, a recurrence is an unlisted crash = VIOLATION; its witness stays below as a regression input
    return None


def raw_bytes(case):
    if "hex" not in case and "text" not in case:
        return b""
    return bytes.fromhex(case["hex"]) if "hex" in case else case["text"].encode("utf-8", "surrogatepass")


def bracket_depth(b: bytes) -> int:
    d = m = 0
    for ch in b:
        if ch in (0x5B, 0x7B):
            d += 1
            m = max(m, d)
        elif ch in (0x5D, 0x7D):
            d = max(0, d - 1)
    return m


def classify_death(case, res):
    """the interpreter itself died: only the listed SIGSEGV of the YAML loader on extreme nesting is a known finding"""
    if res.get("died") in (-11, 139) and case.get("suffix") != ".json" and bracket_depth(raw_bytes(case)) >= 25000:
        return "yaml_depth_segfault"
    return None


# ------------------------------------------------------------------ Coq term builders
def cN(n):
    return f"{int(n)}"


def cdiag(pair):
    i, l = pair
    return f"({'E' if l == 'E' else 'W'} {int(i)})"


def cdiags(lst):
    return clist([cdiag(p) for p in lst], "diag")


def cNs(lst):
    return clist([cN(x) for x in lst], "N")


def term_handle(case, res):
    errs = clist([f"({'E' if l == 'E' else 'W'} {i})" for i, l in enumerate(res["levels"])], "diag")
    fow = case.get("fow", False)
    banner = "None" if res["banner"] is None else ("(Some LError)" if res["banner"] == "E" else ("(Some LWarning)" if res["banner"] == "W" else "(Some LError)"))
    return f"check_handle {errs} {cbool(fow)} {cN(res['code'])} {banner} {cNs(res['printed'])}"


def term_loop(lp):
    attempts = [c[0] for c in lp["calls"]]
    outs = [c[1] for c in lp["calls"]]
    left = "None" if lp["left"] is None else f"(Some {cNs(lp['left'])})"
    return f"check_loop {cNs(lp['perm'])} {cNs(outs)} {lp['n']} {cNs(attempts)} {cNs(lp['errs'])} {left}"


def crbody(b):
    if b is None:
        return "None"
    if "ref" in b:
        return f"(Some (RRef {cstr(b['ref'])}))"
    return f"(Some (RBody {int(b['body'])}))"


def term_resolve(rv):
    tb = clist([f"({cstr(k)}, {'RRef ' + cstr(v['ref']) if 'ref' in v else 'RBody ' + str(int(v['body']))})" for k, v in rv["table"]], "(str * rbody)")
    r = rv["res"]
    res = {"none": "ResNone", "body": None, "circular": None, "unresolved": None}.get(r[0], "ResNone")
    if r[0] == "body":
        res = f"(ResBody {int(r[1])})"
    elif r[0] == "circular":
        res = f"(ResCircular {cstr(r[1])})"
    elif r[0] == "unresolved":
        res = f"(ResUnresolved {cstr(r[1])})"
    elif r[0] != "none":
        return "false"
    return f"check_resolve {tb} {crbody(rv['start'])} {res}"


MODELLED_SITES = {("TypeError", "parser/openapi.py:from_dict"), ("FileNotFoundError", "__init__.py:build")}


def term_gen(case, res):
    """None when the run ended in an exception the model does not have (those are stage C's business)"""
    o = res.get("obs") or {}
    exc = res.get("exc")
    if exc is not None and (exc[0], exc[1]) not in MODELLED_SITES:
        return None
    if o.get("load") is None:
        return None
    load = f"(Some {o['load_id'][0]})" if o.get("load") else "None"
    val = "None"
    if o.get("validation"):
        val = f"(Some {o['val_id'][0]})"
    elif o.get("validation") is None and not o.get("load"):
        # from_dict did not return: was the document invalid? (decided independently of the crash by the worker)
        if res.get("val_fail"):
            val = "(Some 999)"
        elif exc is None or exc[1] == "parser/openapi.py:from_dict":
            return None
    sch, par, col, hooks = o.get("schema_errs", []), o.get("param_errs", []), o.get("collections", []), o.get("hooks", [])
    data = f"(mkData {cdiags(sch)} {cdiags(par)} {clist([cdiags(c) for c in col], '(list diag)')} nodoc)"
    mode = case.get("out", "fresh")
    final = res["final"]
    exists_id = final[0][0] if (mode == "exists" and not case.get("overwrite") and len(final) == 1 and not o.get("load") and not o.get("validation")) else 424242
    in_ok = o.get("in_ok")
    sc = (f"(mkScenario {load} {cbool(in_ok if in_ok is not None else True)} {val} {data} {cdiags(hooks)} {exists_id} FNone [] "
          f"{cbool(case.get('overwrite', False))} {cbool(mode == 'exists')} {cbool(mode != 'missing_parent')} 1)")
    t0 = "keep" if mode == "exists" else "[]"
    obs = "None" if exc is not None else f"(Some {cdiags(final)})"
    gd = f"(Some {cdiags(o['gd_errs'])})" if "gd_errs" in o else "None"
    return f"check_gen {sc} {t0} {obs} {cbool(res['unchanged'])} {gd}"


# ------------------------------------------------------------------ case generation
def hexcase(cid, label, data: bytes, suffix=".json", **kw):
    return {"kind": "gen", "id": cid, "label": label, "hex": data.hex(), "suffix": suffix, **kw}


def doccase(cid, label, doc, yaml=False, **kw):
    txt = json.dumps(doc, ensure_ascii=False)
    return {"kind": "gen", "id": cid, "label": label, "text": txt, "suffix": ".yaml" if yaml else ".json", "doc": doc, **kw}


def base_documents(rng, n_random):
    bases = [("sink31", mutate.sink_doc("3.1.0")), ("sink30", mutate.sink_doc("3.0.3"))]
    for lab, d in gschemas.atlas_docs():
        if lab in ("models", "triples", "allof"):
            bases.append(("atlas-" + lab, d))
    for lab, d in gdocs.corpus():
        bases.append(("corpus-" + lab, d))
    for i in range(n_random):
        d, _ = gdocs.gen_document(rng)
        bases.append((f"random{i}", d))
    return bases


def handle_cases(rng, n):
    cases = []
    classes = ["GeneratorError", "ParseError", "PropertyError", "ParameterError"]
    # exhaustive small scope first: all level sequences up to length 3 x fow
    small = [[]]
    for ln in (1, 2, 3):
        small += [list(t) for t in __import__("itertools").product(["E", "W"], repeat=ln)]
    for seq in small:
        for fow in (False, True, None):
            c = {"kind": "handle", "errors": [[rng.choice(classes), l, rng.random() < 0.3] for l in seq]}
            if fow is not None:
                c["fow"] = fow
            cases.append(c)
    while len(cases) < n:
        ln = rng.choice([0, 1, 1, 2, 3, 5, 8, 13])
        p_err = rng.choice([0.0, 0.0, 0.1, 0.5, 1.0])
        errs = []
        for _ in range(ln):
            cls = rng.choice(classes)
            level = rng.choice([None, None, "E" if rng.random() < p_err else "W"])   # None: the dataclass default (ERROR for GeneratorError, WARNING for ParseError...)
            errs.append([cls, level, rng.random() < 0.3])
        c = {"kind": "handle", "errors": errs, "as": rng.choice(["list", "tuple"])}
        if rng.random() < 0.85:
            c["fow"] = rng.random() < 0.5
        cases.append(c)
    for i, c in enumerate(cases):
        c["id"] = f"h{i}"
    return cases


def resolve_cases(rng, n_tables, per_case=25):
    tables = []
    names = ["A", "B", "C", "D", "E", "a b", "", "x.y"]
    prefixes = ["#/components/requestBodies/", "#/components/schemas/", "", "other.yaml#/", "#/", "a/b/"]

    def mkref(target):
        return rng.choice(prefixes) + target
    for _ in range(n_tables):
        k = rng.choice([0, 1, 2, 3, 4, 6])
        keys = rng.sample(names, min(k, len(names)))
        table = []
        for key in keys:
            if rng.random() < 0.65:
                tgt = rng.choice(keys + ["Missing"]) if rng.random() < 0.9 else key
                table.append([key, mkref(tgt)])
            else:
                table.append([key, None])
        r = rng.random()
        if r < 0.08:
            start = None
        elif r < 0.16:
            start = {"body": 1}
        else:
            start = {"ref": mkref(rng.choice(keys + ["Missing"]))}
        tables.append([start, table])
    # fixed shapes: long chain, chain into a cycle, two spellings of one target
    chain = [[f"N{i}", f"#/components/requestBodies/N{i + 1}"] for i in range(12)] + [["N12", None]]
    tables.append([{"ref": "#/components/requestBodies/N0"}, chain])
    tables.append([{"ref": "#/x/N0"}, chain[:-1] + [["N12", "#/y/N5"]]])
    tables.append([{"ref": "#/x/A"}, [["A", "#/y/A"]]])
    tables.append([{"ref": "#/x/A"}, [["A", "#/x/A"]]])
    tables.append([{"ref": "A/"}, [["", "#/x/A"], ["A", None]]])
    cases = []
    for i in range(0, len(tables), per_case):
        cases.append({"kind": "resolve", "id": f"r{i // per_case}", "tables": tables[i:i + per_case]})
    return cases


def body_ref_docs():
    """documents whose operations use requestBody reference chains (exercise _resolve_reference inside generate)"""
    rb = lambda n: {"$ref": f"#/components/requestBodies/{n}"}
    body = {"content": {"application/json": {"schema": {"type": "string"}}}}
    op = lambda ref: {"requestBody": ref, "responses": {"200": {"description": "ok"}}}
    mk = lambda table, starts: {"openapi": "3.1.0", "info": {"title": "t", "version": "1"}, "components": {"requestBodies": table},
                                "paths": {f"/p{i}": {"post": op(s)} for i, s in enumerate(starts)}}
    return [
        ("bodyref-chain", mk({"A": rb("B"), "B": rb("C"), "C": body}, [rb("A"), rb("B"), rb("C")])),
        ("bodyref-cycle2", mk({"A": rb("B"), "B": rb("A"), "C": body}, [rb("A"), rb("C")])),
        ("bodyref-self", mk({"A": rb("A")}, [rb("A")])),
        ("bodyref-dangling", mk({"A": rb("Nope"), "C": body}, [rb("A"), rb("Zed"), rb("C")])),
        ("bodyref-tail-cycle", mk({"A": rb("B"), "B": rb("C"), "C": rb("B")}, [rb("A")])),
        ("bodyref-other-prefix", mk({"A": {"$ref": "#/components/schemas/B"}, "B": body}, [{"$ref": "other.yaml#/x/A"}])),
    ]


def loop_docs():
    R = gschemas.REF
    o = lambda **p: {"type": "object", "properties": p}
    d = lambda schemas, params=None: {"openapi": "3.1.0", "info": {"title": "t", "version": "1"}, "paths": {},
                                      "components": {"schemas": schemas, **({"parameters": params} if params is not None else {})}}
    n = 9
    return [
        ("loop-forward-chain", d({f"S{i}": {"type": "array", "items": {"$ref": R + f"S{i + 1}"}} for i in range(n)} | {f"S{n}": {"type": "string", "enum": ["a"]}})),
        ("loop-stuck-cycle", d({"A": {"type": "array", "items": {"$ref": R + "B"}}, "B": {"type": "array", "items": {"$ref": R + "A"}}, "C": {"type": "string"}})),
        ("loop-dangling", d({"A": {"$ref": R + "B"}, "B": o(x={"$ref": R + "Nope"}), "C": {"allOf": [{"$ref": R + "Nope"}]}, "D": {"anyOf": [{"$ref": R + "Nope"}, {"type": "string"}]}})),
        ("loop-allof-chain-reversed", d({f"M{i}": {"allOf": [{"$ref": R + f"M{i + 1}"}, o(**{f"p{i}": {"type": "integer"}})]} for i in range(6)} | {"M6": o(base={"type": "string"})})),
        ("loop-allof-self", d({"A": {"allOf": [{"$ref": R + "A"}, o(x={"type": "string"})]}, "B": o(a={"$ref": R + "A"})})),
        ("loop-allof-mutual", d({"A": {"allOf": [{"$ref": R + "B"}]}, "B": {"allOf": [{"$ref": R + "A"}]}, "C": o(x={"type": "string"})})),
        ("loop-bad-names", d({"a/b": {"type": "string", "enum": ["x"]}, "": o(x={"type": "string"}), "Ok": o(y={"type": "string"})})),
        ("loop-params", d({"K": {"type": "string", "enum": ["a"]}}, {"P": {"$ref": "#/components/parameters/Q"}, "Q": {"name": "q", "in": "query", "schema": {"$ref": R + "K"}},
                                                                     "R": {"name": "r", "in": "query", "schema": {"$ref": R + "Nope"}}, "a/b": {"name": "s", "in": "query", "schema": {"type": "string"}},
                                                                     "S": {"name": "s", "in": "header", "content": {"application/json": {"schema": {"type": "string"}}}}})),
        ("loop-empty", d({}, {})),
    ]


# ------------------------------------------------------------------ the document-SOURCE dimension: --url against a local server
class SourceServer:
    """http.server on 127.0.0.1, ephemeral port, in a thread.  The first path segment /k<N>/ selects a scenario
    {status, ctype (None = no Content-Type header), body, mode normal | redirect | close}; the rest of the path is free (it only
    feeds mimetypes.guess_type on the client side)."""
    def __init__(self):
        import http.server, socket
        self.scen = {}
        outer = self

        class H(http.server.BaseHTTPRequestHandler):
            protocol_version = "HTTP/1.1"

            def log_message(self, *a):  # noqa
                pass

            def do_GET(self):  # noqa
                self.close_connection = True
                try:
                    key = int(self.path.split("/")[1][1:])
                    sc = outer.scen[key]
                except Exception:  # noqa
                    sc = {"status": 400, "ctype": None, "body": b"", "mode": "normal"}
                if sc["mode"] == "close":
                    try:
                        self.connection.shutdown(socket.SHUT_RDWR)
                    except OSError:
                        pass
                    return
                body = sc["body"]
                reason = {200: "OK", 404: "Not Found", 500: "Internal Server Error", 302: "Found", 400: "Bad Request"}.get(sc["status"], "X")
                head = [f"HTTP/1.1 {sc['status']} {reason}".encode(), b"Content-Length: %d" % len(body), b"Connection: close"]
                if sc["mode"] == "redirect":
                    head.append(b"Location: " + sc["location"].encode())
                if sc["ctype"] is not None:
                    head.append(b"Content-Type: " + sc["ctype"].encode("latin-1"))
                try:
                    self.wfile.write(b"\r\n".join(head) + b"\r\n\r\n" + body)
                    self.wfile.flush()
                except OSError:
                    pass
        self.srv = http.server.ThreadingHTTPServer(("127.0.0.1", 0), H)
        self.srv.daemon_threads = True
        self.port = self.srv.server_address[1]
        threading.Thread(target=self.srv.serve_forever, daemon=True).start()
        # a port nobody listens on (connection refused)
        sk = socket.socket()
        sk.bind(("127.0.0.1", 0))
        self.dead_port = sk.getsockname()[1]
        sk.close()

    def add(self, **sc):
        k = len(self.scen) + 1
        self.scen[k] = {"mode": "normal", "status": 200, "ctype": None, "body": b"", **sc}
        return k

    def url(self, k, tail):
        return f"http://127.0.0.1:{self.port}/k{k}/{tail}"

    def close(self):
        try:
            self.srv.shutdown()
            self.srv.server_close()
        except Exception:  # noqa
            pass


VALID_JSON = b'{"openapi": "3.1.0", "info": {"title": "Src API", "version": "1"}, "paths": {"/a": {"get": {"responses": {"200": {"description": "ok"}}}}}}'
VALID_YAML = b"openapi: '3.1.0'\ninfo:\n  title: Src API\n  version: '1'\npaths:\n  /a:\n    get:\n      responses:\n        '200':\n          description: ok\n"
JUNK_BOTH = b"{unterminated: [1, 2"        # rejected by the JSON parser and by the YAML parser
BODIES = {"valid-json": VALID_JSON, "valid-yaml": VALID_YAML, "junk": JUNK_BOTH, "empty": b"", "scalar": b"5", "warn-json": None}
CTYPES = {"none": None, "json": "application/json", "yaml": "application/yaml", "text": "text/plain", "json-charset": "application/json; charset=utf-8",
          "json-nospace": "application/json;charset=utf-8", "garbage": ";;;", "upper": "APPLICATION/JSON", "empty": "", "list": "application/json, text/plain"}
TAILS = {"noext": "openapi", "json": "doc.json", "yaml": "doc.yaml", "yml": "doc.yml", "txt": "doc.txt", "query": "doc?format=x.json", "slash": "spec/", "dotted-dir": "v1.0/spec",
         "fragment": "doc#/x.json"}


def source_cases(rng, server, thorough, nid):
    """gen cases whose document source is a URL on the local server (plus the path-kind cases)"""
    import mimetypes
    BODIES["warn-json"] = json.dumps(mutate.sink_doc()).encode()
    cases = []

    def mk(label, k, tail, **kw):
        url = server.url(k, tail)
        sc = server.scen[k]
        scn = {"status": sc["status"], "ctype": sc["ctype"], "body_hex": sc["body"].hex() if len(sc["body"]) < 4000 else "", "mode": sc["mode"], "tail": tail}
        return {"kind": "gen", "id": nid("u"), "label": label, "url": url, "guessed": mimetypes.guess_type(url, strict=True)[0], "suffix": "", "scn": scn, **kw}
    combos = []
    for cl in CTYPES:
        for tl in TAILS:
            for bl in ("valid-json", "valid-yaml", "junk", "empty"):
                combos.append((200, cl, tl, bl))
    for st in (404, 500):
        for cl in CTYPES:
            for tl in TAILS:
                combos.append((st, cl, tl, rng.choice(["valid-json", "junk", "empty", "valid-yaml"])))
    for cl in ("none", "json", "yaml"):
        for tl in ("noext", "json", "yaml"):
            combos.append((200, cl, tl, "scalar"))
            combos.append((200, cl, tl, "warn-json"))
    must = [c for c in combos if c[1] == "none" and c[2] in ("noext", "slash", "query", "dotted-dir")]     # header missing and nothing to guess from
    rest = [c for c in combos if c not in must]
    if not thorough:
        rest = rng.sample(rest, 150)
    for st, cl, tl, bl in must + rest:
        k = server.add(status=st, ctype=CTYPES[cl], body=BODIES[bl])
        cases.append(mk(f"source:{st}:ctype-{cl}:path-{tl}:{bl}", k, TAILS[tl], body_kind=bl))
    # redirects (httpx.get does not follow them), closed socket, connection refused
    target = server.add(status=200, ctype="application/json", body=VALID_JSON)
    for tl in ("noext", "json", "yaml"):
        for cl in ("none", "json"):
            k = server.add(status=302, mode="redirect", location=server.url(target, "doc.json"), ctype=CTYPES[cl], body=b"")
            cases.append(mk(f"source:302:ctype-{cl}:path-{tl}:redirect", k, TAILS[tl], body_kind="empty"))
        k = server.add(mode="close")
        cases.append(mk(f"source:closed-socket:path-{tl}", k, TAILS[tl], body_kind="none"))
        url = f"http://127.0.0.1:{server.dead_port}/{TAILS[tl]}"
        cases.append({"kind": "gen", "id": nid("u"), "label": f"source:refused:path-{tl}", "url": url, "guessed": mimetypes.guess_type(url, strict=True)[0], "suffix": "", "body_kind": "none"})
    for bad in ("http://[bad", "foo", "ftp://127.0.0.1/x", "http://127.0.0.1:99999/x", "http://127.0.0.1:%d/\u00e9 x" % server.dead_port, "file:///etc/hostname", "http://", "://x"):
        cases.append({"kind": "gen", "id": nid("u"), "label": "source:bad-url", "url": bad, "guessed": None, "suffix": "", "body_kind": "none"})
    # --path pointing at something that is not a readable document
    cases.append({"kind": "gen", "id": nid("u"), "label": "source:path-directory", "path_kind": "dir", "suffix": ""})
    cases.append({"kind": "gen", "id": nid("u"), "label": "source:path-missing", "path_kind": "missing", "suffix": ""})
    cases.append({"kind": "gen", "id": nid("u"), "label": "source:path-binary", "hex": bytes(rng.randrange(256) for _ in range(300)).hex(), "suffix": ".bin"})
    cases.append({"kind": "gen", "id": nid("u"), "label": "source:path-noext-json", "hex": VALID_JSON.hex(), "suffix": ""})
    cases.append({"kind": "gen", "id": nid("u"), "label": "source:path-noext-yaml", "hex": VALID_YAML.hex(), "suffix": ""})
    cases.append({"kind": "gen", "id": nid("u"), "label": "source:path-json-suffix-yaml-body", "hex": VALID_YAML.hex(), "suffix": ".json"})
    return cases


def term_source(case, res):
    """loader dispatch of a URL source vs Norm.content_type_of / choose_parser; None when the loader was not reached"""
    o = res.get("obs") or {}
    f = o.get("fetch")
    if not f or not f.get("ok") or o.get("loader_ct") == "unset":
        return None
    hdr = "None" if not f["has_ctype"] else f"(Some {cstr(f['ctype'] or '')})"
    g = case.get("guessed")
    guessed = "None" if g is None else f"(Some {cstr(g)})"
    ct = o["loader_ct"]
    oct_ = "None" if ct is None else f"(Some {cstr(ct)})"
    parser = "None"
    heads = [d[2] for d in res.get("diag", [])]
    if any(h.startswith("Invalid JSON from provided source") for h in heads):
        parser = "(Some true)"
    elif any(h.startswith("Invalid YAML from provided source") for h in heads):
        parser = "(Some false)"
    elif case.get("body_kind") == "valid-yaml" and not o.get("load"):
        parser = "(Some false)"        # block-style YAML is not JSON: it loaded, so the YAML parser ran
    return f"check_source {hdr} {guessed} {oct_} {parser}"


def run_cli_raw(args, prepare=None, limit=LIMIT):
    """the CLI with an arbitrary argument list; `prepare(root)` may create files and returns extra args"""
    root = Path(tempfile.mkdtemp(prefix="opc_c06src_"))
    try:
        cfg = root / "config.yaml"
        cfg.write_text("post_hooks: []\n")
        extra = prepare(root) if prepare else []
        lst = lambda: sorted(str(p.relative_to(root)) for p in root.rglob("*"))
        before = lst()
        cmd = [PY, "-m", "openapi_python_client", "generate", "--meta", "none", "--config", str(cfg), "--output-path", str(root / "out")] + list(args) + list(extra)
        env = {**os.environ, "PYTHONPATH": str(REPO), "PYTHONHASHSEED": "0", "NO_COLOR": "1", "TERM": "dumb", "_TYPER_STANDARD_TRACEBACK": "1"}
        t = time.time()
        try:
            r = subprocess.run(cmd, capture_output=True, text=True, timeout=limit, env=env, cwd=str(root))
            res = {"code": r.returncode, "stderr": r.stderr[-2500:], "stdout": r.stdout[-600:], "hang": False, "traceback": "Traceback (most recent call last)" in r.stderr,
                   "last": (r.stderr.strip().split("\n") or [""])[-1][:200]}
        except subprocess.TimeoutExpired:
            res = {"code": None, "stderr": "", "stdout": "", "hang": True, "traceback": False, "last": ""}
        res["dt"] = round(time.time() - t, 2)
        res["unchanged"] = before == lst()
        return res
    finally:
        shutil.rmtree(root, ignore_errors=True)


# ------------------------------------------------------------------ CLI end to end
def run_cli(doc_bytes, suffix, fow, mode, overwrite, limit=LIMIT, literal_enums=False):
    root = Path(tempfile.mkdtemp(prefix="opc_c06cli_"))
    try:
        f = root / ("doc" + suffix)
        f.write_bytes(doc_bytes)
        cfg = root / "config.yaml"
        cfg.write_text("post_hooks: []\n" + ("literal_enums: true\n" if literal_enums else ""))
        out = root / ("nope/out" if mode == "missing_parent" else "out")
        if mode == "exists":
            out.mkdir()
            (out / "keep.txt").write_text("user file")
        lst = lambda: sorted(str(p.relative_to(root)) for p in root.rglob("*"))
        before = lst()
        cmd = [PY, "-m", "openapi_python_client", "generate", "--path", str(f), "--output-path", str(out), "--meta", "none", "--config", str(cfg)]
        if fow:
            cmd.append("--fail-on-warning")
        if overwrite:
            cmd.append("--overwrite")
        # _TYPER_STANDARD_TRACEBACK: typer's rich traceback pretty-prints every frame's locals (22 s and 6 MB of stderr for one crash
        # on the sink document); the standard traceback shows the same exception in under a second
        env = {**os.environ, "PYTHONPATH": str(REPO), "PYTHONHASHSEED": "0", "NO_COLOR": "1", "TERM": "dumb", "_TYPER_STANDARD_TRACEBACK": "1"}
        t = time.time()
        try:
            r = subprocess.run(cmd, capture_output=True, text=True, timeout=limit, env=env, cwd=str(root))
            res = {"code": r.returncode, "stderr": r.stderr[-3000:], "stdout": r.stdout[-500:], "hang": False, "traceback": "Traceback (most recent call last)" in r.stderr}
        except subprocess.TimeoutExpired:
            res = {"code": None, "stderr": "", "stdout": "", "hang": True, "traceback": False}
        res["dt"] = round(time.time() - t, 2)
        after = lst()
        res["unchanged"] = before == after
        return res
    finally:
        shutil.rmtree(root, ignore_errors=True)


# ------------------------------------------------------------------ the check
def run(run, tier, replay=None):
    rng = run.rng
    thorough = tier == "thorough"
    N_MUT = 6000 if thorough else 900
    N_JUNK_EXTRA = 1 if not thorough else 3
    N_HANDLE = 1500 if thorough else 400
    N_RESOLVE = 2500 if thorough else 500
    N_CLI = 160 if thorough else 32
    N_RANDOM_BASE = 10 if thorough else 3
    run.rule = ("handle: every ERROR/WARNING sequence up to length 3 x fail_on_warning in {False, True, default} (exhaustive) + random lists to length 13 of the four error classes with "
                "explicit or default levels; generate/cli: valid documents (sink, atlas, corpus, random), their single and double node mutations (replace by wrong type / null / empty / 17 "
                "$ref forms / 50 contradictory keyword sets, delete, duplicate, rename, mutual $ref in every component section, subtree swap), raw junk offered as .json and .yaml "
                "(fixed hostile texts, truncations and byte mutations of valid texts, random bytes), JSON values and near-miss dicts as documents, document sources (--url on a local server: Content-Type header x URL extension x body x status / redirect / closed / refused / malformed; --path to a directory, a missing, a binary, an extension-less file; both or neither source), documents planting a schema that fails with a detail-less error (float / bool / list / dict enum; with-detail controls) at every position whose error is re-formatted (sole / every / one-of-several request body media type, inline body property, body items, response, operation / path-item / component parameter in all four locations, component, property, allOf member and parent, union member, additionalProperties, items, ref chain), class-name collision documents across kinds (component / inline / items / union member / additionalProperties / parameter / body / response / title x model / enum / int enum / union / array / allOf, both declaration orders, with and without literal_enums), x output directory fresh / existing / "
                "missing parent.  A case is non-trivial when the input is not a valid document that generates without diagnostics; distinct = sha1 of the case.")
    run.assumptions += [
        "C06 is partial: 'no Python exception for any byte string' is NOT a theorem; it rests on the junk/mutation exploration whose input distribution is input_histogram",
        "the observation wrappers of harness/lib/c06_worker.py (pass-through monkeypatches of _get_document, GeneratorData.from_dict, EndpointCollection.from_data, Project.build, the three retry loops and their per-item functions, _resolve_reference)",
        "pydantic / ruamel / json / jinja2 are not modelled: their exceptions are only reached by the exploration",
        "hang = no answer within %d s wall clock" % int(LIMIT),
        "CLI subprocesses run with _TYPER_STANDARD_TRACEBACK=1 (typer's rich traceback needs > 20 s to pretty-print the locals of one crash on a medium document; the exception shown is the same)",
    ]
    t_start = time.time()

    # ---------------- replay: re-run exactly the recorded inputs
    if replay:
        rp = json.loads(Path(replay).read_text())
        cases = []
        for i, v in enumerate(rp.get("violations", [])):
            c = v.get("case")
            if isinstance(c, dict) and c.get("kind"):
                c = dict(c)
                c["id"] = f"replay{i}"
                cases.append(c)
        server = SourceServer()
        import mimetypes
        for c in cases:
            if c.get("scn") and c["scn"].get("mode") != "redirect":       # re-create the server scenario of a --url case
                sc = c["scn"]
                k = server.add(status=sc["status"], ctype=sc["ctype"], body=bytes.fromhex(sc.get("body_hex", "")), mode=sc["mode"])
                c["url"] = server.url(k, sc["tail"])
                c["guessed"] = mimetypes.guess_type(c["url"], strict=True)[0]
        try:
            evaluate(run, [c for c in cases if c["kind"] == "gen"], [c for c in cases if c["kind"] in ("handle", "resolve")], thorough, replaying=True, server=server)
        finally:
            server.close()
        return

    # ---------------- generate cases
    cases = []
    cid = [0]

    def nid(p):
        cid[0] += 1
        return f"{p}{cid[0]}"
    bases = base_documents(rng, N_RANDOM_BASE)
    # valid documents, three directory states, yaml and json
    for lab, d in bases:
        cases.append(doccase(nid("g"), f"valid:{lab}", d, yaml=rng.random() < 0.3))
    for lab, d in bases[:2]:
        cases.append(doccase(nid("g"), f"valid:{lab}:exists", d, out="exists"))
        cases.append(doccase(nid("g"), f"valid:{lab}:exists-overwrite", d, out="exists", overwrite=True))
        cases.append(doccase(nid("g"), f"valid:{lab}:missing-parent", d, out="missing_parent"))
    for lab, d in body_ref_docs() + loop_docs():
        cases.append(doccase(nid("g"), f"shape:{lab}", d))
    # class-name collisions across kinds (model / enum / union / ... sharing Schemas.classes_by_name), both orders, with and
    # without literal_enums (EnumProperty.build and LiteralEnumProperty.build carry the same table lookup)
    for lab, d in mutate.collision_docs():
        cases.append(doccase(nid("k"), lab, d))
        if thorough or rng.random() < 0.35:
            cases.append(doccase(nid("k"), lab + ":literal", d, literal_enums=True))
    # failing schemas whose error value has no detail text, planted wherever an error is later formatted into another one
    for lab, d in mutate.detailless_docs():
        lit = lab.split(":")[1] in ("float-enum", "bool-enum") and (thorough or rng.random() < 0.3)
        cases.append(doccase(nid("n"), lab, d))
        if lit:
            cases.append(doccase(nid("n"), lab + ":literal", d, literal_enums=True))
    # junk texts
    valid_texts = [json.dumps(bases[0][1]), json.dumps(bases[-1][1], indent=1)]
    junk = []
    for _ in range(N_JUNK_EXTRA):
        junk += mutate.raw_junk(rng, valid_texts)
    seen = set()
    for lab, b, suf in junk:
        if (b, suf) in seen:
            continue
        seen.add((b, suf))
        mode = "fresh" if rng.random() < 0.85 else rng.choice(["exists", "missing_parent"])
        cases.append(hexcase(nid("j"), lab, b, suf, out=mode))
    # JSON values / near-miss dicts as documents
    for lab, v in mutate.non_openapi_docs(rng, 60 if thorough else 20):
        cases.append(doccase(nid("v"), lab, v, yaml=rng.random() < 0.3))
    # node mutations
    for i in range(N_MUT):
        blab, base = bases[i % len(bases)] if rng.random() < 0.7 else bases[rng.randrange(2)]
        k = 1 if rng.random() < 0.6 else 2
        lab, d = mutate.mutate(base, rng, k)
        try:
            c = doccase(nid("m"), f"mut{k}:{lab}", d, yaml=rng.random() < 0.15)
        except (TypeError, ValueError):
            continue
        c["base"] = blab
        if rng.random() < 0.05:
            c["out"] = rng.choice(["exists", "missing_parent"])
        cases.append(c)
    # the finding witnesses (so that an open finding is always re-checked and a fixed one is seen to be fixed)
    S = lambda s: {"openapi": "3.1.0", "info": {"title": "t", "version": "1"}, "paths": {}, "components": {"schemas": s}}
    R = gschemas.REF
    cases.append(doccase(nid("w"), "witness:enum_dup_crash", S({"E": {"enum": ["a", "A"]}})))
    cases.append(doccase(nid("w"), "witness:default_nonfinite_crash", S({"I": {"type": "integer", "default": "inf"}})))
    cases.append(doccase(nid("w"), "witness:merge_default_crash", S({"P": {"type": "object", "properties": {"a": {"type": "integer"}}}, "Q": {"type": "object", "properties": {"a": {"type": "number", "default": "inf"}}},
                                                                    "C": {"allOf": [{"$ref": R + "P"}, {"$ref": R + "Q"}]}})))
    cases.append(doccase(nid("w"), "regression:const_multipart_crash", {"openapi": "3.1.0", "info": {"title": "t", "version": "1"}, "paths": {"/u": {"post": {
        "requestBody": {"content": {"multipart/form-data": {"schema": {"type": "object", "properties": {"p": {"const": "x"}}}}}}, "responses": {"200": {"description": "ok"}}}}}}))
    cases.append(hexcase(nid("w"), "witness:scalar_document_crash", b"5", ".json"))
    cases.append(hexcase(nid("w"), "witness:load_depth_crash", b"[" * 100000, ".json"))
    cases.append(doccase(nid("w"), "witness:missing_parent_dir", bases[0][1], out="missing_parent"))

    server = SourceServer()
    cases += source_cases(rng, server, thorough, nid)
    hcases = handle_cases(rng, N_HANDLE)
    rcases = resolve_cases(rng, N_RESOLVE)

    # CLI subset: chosen after the in-process results are known (needs their diagnostics); picked by label class here
    try:
        evaluate(run, cases, hcases + rcases, thorough, n_cli=N_CLI, server=server)
    finally:
        server.close()
    run.extra["wall_stage_bc_s"] = round(time.time() - t_start, 1)


def evaluate(run, cases, pure_cases, thorough, n_cli=0, replaying=False, server=None):
    rng = run.rng
    by_id = {c["id"]: c for c in cases + pure_cases}
    send = [{k: v for k, v in c.items() if k not in ("doc", "label", "base", "guessed", "body_kind", "scn")} for c in cases + pure_cases]   # literal_enums travels with the case
    results = pool_run(send, jobs=14)

    terms, owners = [], []     # Coq terms and what they belong to
    kinds = {"handle": 0, "generate": 0, "loops": 0, "resolve": 0, "cli": 0, "source": 0}
    crashes = {}               # site key -> list of (case, res)
    rejected_total = 0

    def add(term, kind, case, extra=None):
        terms.append(term)
        owners.append((kind, case, extra))
        kinds[kind] += 1

    for c in pure_cases:
        r = results.get(c["id"]) or {}
        if r.get("hang") or r.get("died") is not None or r.get("worker_error"):
            run.violation("oracle", {"what": "hang" if r.get("hang") else "worker failure", "case": c, "result": r, "stage": c["kind"]})
            continue
        if c["kind"] == "handle":
            run.note_case({"handle": c["errors"], "fow": c.get("fow", "default")}, nontrivial=len(c["errors"]) > 0, kind="handle:len%d" % min(len(c["errors"]), 5))
            if r.get("exc"):
                run.violation("oracle", {"what": "handle_errors raised", "case": c, "exc": r["exc"]})
                continue
            add(term_handle(c, r), "handle", c, r)
        else:
            for tb, rv in zip(c["tables"], r["results"]):
                run.note_case({"resolve": tb}, nontrivial=bool(tb[1]), kind="resolve:%s" % (rv.get("res", ["exc"])[0]))
                if "exc" in rv:
                    run.violation("oracle", {"what": "_resolve_reference raised", "case": {"kind": "resolve", "tables": [tb]}, "exc": rv["exc"]})
                    continue
                add(term_resolve(rv), "resolve", {"kind": "resolve", "tables": [tb]}, rv)

    for c in cases:
        r = results.get(c["id"]) or {}
        label = c.get("label", "?")
        cls = label.split(":")[0] + ":" + (label.split(":")[1] if ":" in label else "")
        brief = {k: v for k, v in c.items() if k not in ("doc",)}
        if r.get("hang"):
            run.note_case({"label": label, "hex": c.get("hex", c.get("text", c.get("label", "") if ("url" in c or "path_kind" in c) else ""))[:2000]}, kind=cls)
            run.violation("oracle", {"what": f"hang: no result within {LIMIT} s", "label": label, "case": brief})
            continue
        if r.get("died") is not None or r.get("worker_error"):
            # the interpreter itself died (e.g. C stack overflow): a crash without a Python traceback
            run.note_case({"label": label}, kind=cls)
            key = ("ProcessDied", str(r.get("died")), label.split(":")[1] if ":" in label else label)
            crashes.setdefault(key, []).append((c, r))
            continue
        exc = r.get("exc")
        nontrivial = not (label.startswith("valid:") and not r.get("final") and not exc)
        run.note_case({"label": label, "input": c.get("hex", c.get("text", c.get("label", "") if ("url" in c or "path_kind" in c) else ""))[:4000], "out": c.get("out", "fresh")}, nontrivial=nontrivial, kind=cls)
        o = r.get("obs") or {}
        # ---- stage C oracles
        if r.get("dt", 0) > LIMIT:
            run.violation("oracle", {"what": f"took {r['dt']} s (> {LIMIT})", "label": label, "case": brief})
        if exc is not None:
            crashes.setdefault((exc[0], exc[1]), []).append((c, r))
        else:
            rej = bool(o.get("load") or o.get("validation"))
            if rej:
                rejected_total += 1
                if not r["unchanged"]:
                    run.violation("oracle", {"what": "rejected document but the output location changed", "label": label, "case": brief, "after_n": r.get("after_n")})
                if [l for _, l in r["final"]] != ["E"]:
                    run.violation("oracle", {"what": "rejected document not reported as exactly one ERROR-level diagnostic", "label": label, "case": brief, "final": r["final"]})
            if any(l == "E" for _, l in r["final"]) and not r["unchanged"] and not rej and c.get("out") != "exists":
                # an ERROR-level result after writing can only be a post-hook failure (none configured)
                run.violation("oracle", {"what": "ERROR-level diagnostic but files were written", "label": label, "case": brief, "diag": r.get("diag")})
        # ---- stage B terms
        t = term_gen(c, r)
        if t is not None:
            add(t, "generate", brief, r)
        if "url" in c:
            t = term_source(c, r)
            if t is not None:
                add(t, "source", brief, {"fetch": o.get("fetch"), "loader_ct": o.get("loader_ct"), "guessed": c.get("guessed"), "diag": r.get("diag")})
            f = o.get("fetch") or {}
            if exc is None and f.get("ok") is False and not o.get("load"):
                run.violation("oracle", {"what": "fetch failed but no loader diagnostic was returned", "label": label, "case": brief, "final": r.get("final")})
        for lp in o.get("loops", []):
            if -1 in lp["errs"] or any(x[0] < 0 for x in lp["calls"]) or (lp["left"] and -1 in lp["left"]):
                run.violation("correspondence", {"what": "loop observation could not be mapped to items", "label": label, "case": brief, "loop": lp})
                continue
            if exc is not None:
                continue    # an exception inside the loop leaves a partial record
            add(term_loop(lp), "loops", brief, lp)
        for rv in o.get("resolves", []):
            if "bad" in rv:
                continue
            add(term_resolve(rv), "resolve", brief, rv)

    # ---- CLI end to end on a stratified subset
    cli_jobs = []
    if n_cli or replaying:
        picks = []
        strata = {}
        for c in cases:
            r = results.get(c["id"]) or {}
            if r.get("hang") or r.get("died") is not None or "final" not in r or "url" in c or "path_kind" in c:
                continue
            lv = [l for _, l in r["final"]]
            o = r.get("obs") or {}
            key = ("exc" if r.get("exc") else "rejected" if (o.get("load") or o.get("validation")) else "error" if "E" in lv else "warn" if lv else "clean", c.get("out", "fresh"))
            strata.setdefault(key, []).append(c)
        keys = sorted(strata)
        i = 0
        while len(picks) < (n_cli if not replaying else len(cases)) and any(strata.values()):
            k = keys[i % len(keys)]
            i += 1
            if strata[k]:
                picks.append(strata[k].pop(rng.randrange(len(strata[k]))))
        for j, c in enumerate(picks):
            fow = (j % 2 == 1)
            cli_jobs.append((c, fow))
        import concurrent.futures as cf
        with cf.ThreadPoolExecutor(max_workers=12) as ex:
            futs = {}
            for c, fow in cli_jobs:
                data = bytes.fromhex(c["hex"]) if "hex" in c else c["text"].encode("utf-8", "surrogatepass")
                futs[ex.submit(run_cli, data, c.get("suffix", ".json"), fow, c.get("out", "fresh"), c.get("overwrite", False), LIMIT, bool(c.get("literal_enums", False)))] = (c, fow)
            for f in cf.as_completed(futs):
                c, fow = futs[f]
                cr = f.result()
                r = results[c["id"]]
                label = c.get("label", "?")
                brief = {k: v for k, v in c.items() if k not in ("doc",)}
                run.note_case({"cli": label, "fow": fow, "input": c.get("hex", c.get("text", c.get("label", "") if ("url" in c or "path_kind" in c) else ""))[:4000], "out": c.get("out", "fresh")}, kind="cli:" + label.split(":")[0])
                if cr["hang"]:
                    run.violation("oracle", {"what": f"CLI hang (> {LIMIT} s)", "label": label, "case": brief, "fow": fow})
                    continue
                if r.get("exc") is not None:
                    # in-process crashed at a known site: the CLI must show the same (traceback, exit 1); reported with the in-process finding
                    if not cr["traceback"]:
                        run.violation("correspondence", {"what": "in-process run raised but the CLI printed no traceback", "label": label, "case": brief, "exc": r["exc"], "cli": cr})
                    continue
                if cr["traceback"]:
                    run.violation("oracle", {"what": "traceback on the CLI's stderr", "label": label, "case": brief, "fow": fow, "stderr": cr["stderr"][-1200:]})
                    continue
                levels = clist([f"({'E' if l == 'E' else 'W'} {i})" for i, (_, l) in enumerate(r["final"])], "diag")
                add(f"(exit_code {levels} {cbool(fow)} =? {cN(cr['code'])})", "cli", brief, {"fow": fow, "cli": cr, "final": r["final"]})
                o = r.get("obs") or {}
                if (o.get("load") or o.get("validation")) and not cr["unchanged"]:
                    run.violation("oracle", {"what": "CLI: rejected document but the directory listing changed", "label": label, "case": brief})
                if cr["unchanged"] != r["unchanged"]:
                    run.violation("correspondence", {"what": "CLI and in-process run disagree on whether anything was written", "label": label, "case": brief, "cli_unchanged": cr["unchanged"]})

    # ---- the CLI on the document-source family (--url against the local server; argument-level source errors)
    if server is not None:
        import concurrent.futures as cf
        src = [c for c in cases if "url" in c and "final" in (results.get(c["id"]) or {})]
        chosen = [c for c in src if ":ctype-none:" in c["label"] and any(f":path-{t}:" in c["label"] for t in ("noext", "slash", "query", "dotted-dir")) and c["label"].startswith("source:200")]
        others = [c for c in src if c not in chosen]
        by = {}
        for c in others:
            by.setdefault(c["label"].split(":")[1], []).append(c)      # 200 / 404 / 500 / 302 / closed-socket / refused / bad-url
        for k in sorted(by):
            chosen += rng.sample(by[k], min(len(by[k]), 6 if thorough else 2))
        if not thorough:
            keep = [c for c in chosen if ":ctype-none:" in c["label"]]
            chosen = (keep[:14] if len(keep) > 14 else keep) + [c for c in chosen if ":ctype-none:" not in c["label"]]
        jobs = []
        for j, c in enumerate(chosen):
            fow = j % 3 == 2
            jobs.append(("url", c, fow, ["--url", c["url"]] + (["--fail-on-warning"] if fow else []), None))

        def prep(kind):
            def f(root):
                if kind == "dir":
                    (root / "adir").mkdir()
                    return ["--path", str(root / "adir")]
                if kind == "missing":
                    return ["--path", str(root / "nope.json")]
                (root / "ok.json").write_bytes(VALID_JSON)
                if kind == "both":
                    return ["--path", str(root / "ok.json"), "--url", f"http://127.0.0.1:{server.dead_port}/x"]
                if kind == "empty-url":
                    return ["--url", ""]
                if kind == "bad-encoding":
                    return ["--path", str(root / "ok.json"), "--file-encoding", "no-such-codec"]
                if kind == "bad-config":
                    (root / "bad.yaml").write_text("post_hooks: {a: [")
                    return ["--path", str(root / "ok.json"), "--config", str(root / "bad.yaml")]
                return []
            return f
        for kind in ("both", "neither", "empty-url", "bad-encoding", "bad-config", "dir", "missing"):
            jobs.append(("args", {"label": f"source:args-{kind}", "kind": "gen", "path_kind": kind if kind in ("dir", "missing") else None}, False, [], prep(kind)))
        with cf.ThreadPoolExecutor(max_workers=12) as ex:
            futs = {ex.submit(run_cli_raw, a, pr): (what, c, fow) for what, c, fow, a, pr in jobs}
            for f in cf.as_completed(futs):
                what, c, fow = futs[f]
                cr = f.result()
                label = c["label"]
                brief = {k: v for k, v in c.items() if k not in ("doc",)}
                run.note_case({"cli-source": label, "fow": fow}, kind="cli-source:" + (label.split(":")[1] if what == "url" else "args"))
                if cr["hang"]:
                    run.violation("oracle", {"what": f"CLI hang (> {LIMIT} s)", "label": label, "case": brief, "fow": fow})
                    continue
                if what == "args":
                    kind = label.split("args-")[1]
                    if kind in ("dir", "missing"):
                        # regression inputs of the repaired source_path_oserror: one error-level diagnostic, exit 1, nothing written
                        if cr["traceback"]:
                            run.violation("oracle", {"what": "traceback on the CLI's stderr (unreadable --path)", "label": label, "cli": cr})
                        elif cr["code"] != 1 or not cr["unchanged"] or "Error(s) encountered while generating" not in cr["stderr"]:
                            run.violation("oracle", {"what": "unreadable --path: expected one error-level diagnostic, exit 1 and nothing written", "label": label, "cli": cr})
                        continue
                    if cr["traceback"]:
                        run.violation("oracle", {"what": "traceback on the CLI's stderr", "label": label, "cli": cr})
                    elif kind == "bad-config":
                        if cr["code"] == 0 or not cr["unchanged"]:
                            run.violation("oracle", {"what": "unparsable --config: expected a usage error (non-zero exit) and nothing written", "label": label, "cli": cr})
                    elif cr["code"] != 1 or not cr["unchanged"]:
                        run.violation("oracle", {"what": "source argument error: documented exit status is 1 with nothing written", "label": label, "cli": cr})
                    continue
                r = results[c["id"]]
                if r.get("exc") is not None:
                    if not cr["traceback"]:
                        run.violation("correspondence", {"what": "in-process run raised but the CLI printed no traceback", "label": label, "case": brief, "exc": r["exc"], "cli": cr})
                    continue
                if cr["traceback"]:
                    run.violation("oracle", {"what": "traceback on the CLI's stderr", "label": label, "case": brief, "fow": fow, "stderr": cr["stderr"][-1200:]})
                    continue
                levels = clist([f"({'E' if l == 'E' else 'W'} {i})" for i, (_, l) in enumerate(r["final"])], "diag")
                add(f"(exit_code {levels} {cbool(fow)} =? {cN(cr['code'])})", "cli", brief, {"fow": fow, "cli": cr, "final": r["final"]})
                o = r.get("obs") or {}
                if (o.get("load") or o.get("validation")) and not cr["unchanged"]:
                    run.violation("oracle", {"what": "CLI: rejected document but the directory listing changed", "label": label, "case": brief})
        run.extra["cli_source_runs"] = len(jobs)

    # ---- evaluate the correspondence in Coq
    bad = run_cases(HDR, terms) if terms else []
    run.corr = {"cases": len(terms), "mismatches": len(bad), "by_kind": kinds,
                "what": "cli.handle_errors (exit, banner, printed order); generate outcome / tree effect / error aggregation by identity; retry-loop replay (attempt order, stop point, kept errors, leftovers); _resolve_reference; CLI exit status vs exit_code of the in-process diagnostics; URL sources: content type handed to the loader and parser used vs Norm.content_type_of / choose_parser"}
    for i in bad[:30]:
        kind, case, extra = owners[i]
        model = ""
        if len([1 for j in bad if owners[j][0] == kind]) <= 3 or i == bad[0]:
            try:
                inner = terms[i]
                if kind == "handle":
                    model = coq_eval(HDR, "handle_errors " + " ".join(inner.split(" ")[1:3]))[-300:]
                elif kind == "resolve":
                    parts = inner[len("check_resolve "):]
                    model = coq_eval(HDR, "resolve_reference " + parts.rsplit(" (Res", 1)[0].rsplit(" ResNone", 1)[0])[-300:]
            except Exception as e:  # noqa
                model = f"(model value not available: {e})"
        run.violation("correspondence", {"what": f"{kind}: implementation and model disagree", "case": case, "impl": _short(extra), "model": model, "term": terms[i][:1500]})

    # ---- crashes: known finding or violation (shrunk)
    hist = {}
    shrink_jobs = []
    for key, lst in sorted(crashes.items()):
        hist[":".join(key[:2])] = len(lst)
        c, r = lst[0]
        if key[0] == "ProcessDied":
            for c, r in lst:
                fid = classify_death(c, r)
                if fid is not None and run.known_finding(fid, f"the interpreter died with status {r.get('died')} on {c.get('label')} (YAML bracket nesting depth {bracket_depth(raw_bytes(c))})"):
                    continue
                cc = {k: v for k, v in c.items() if k != "doc"}
                if len(cc.get("hex", "")) > 20000:
                    cc["hex_note"] = "input longer than 10 kB: regenerate from label and seed"
                run.violation("oracle", {"what": "the interpreter died (no Python traceback)", "label": c.get("label"), "case": cc, "result": r})
            continue
        for c, r in lst:
            fid = classify_exc(r["exc"], c, r)
            if fid is not None and run.known_finding(fid, f"uncaught {r['exc'][0]} at {r['exc'][1]} ({len(lst)} inputs this run, e.g. {c.get('label')}): {r['exc'][3][:120]}"):
                continue
            shrink_jobs.append((key, c, r, fid))
    # one shrink per distinct site (first unlisted input)
    done_sites = set()
    sj = []
    for key, c, r, fid in shrink_jobs:
        if key in done_sites:
            continue
        done_sites.add(key)
        if "doc" in c and isinstance(c["doc"], (dict, list)):
            sj.append({"kind": "shrink", "id": "s%d" % len(sj), "doc": c["doc"], "site": r["exc"][:2], "suffix": c.get("suffix", ".json"), "out": c.get("out", "fresh"), "literal_enums": bool(c.get("literal_enums", False)), "budget": 25 if thorough else 12, "_key": key})
    sres = pool_run([{k: v for k, v in j.items() if k != "_key"} for j in sj], jobs=8) if sj else {}
    shrunk = {tuple(j["_key"]): sres.get(j["id"], {}).get("doc") for j in sj}
    reported = set()
    for key, c, r, fid in shrink_jobs:
        if key in reported:
            continue
        reported.add(key)
        n = len([1 for k2, *_ in shrink_jobs if k2 == key])
        payload = {"what": f"uncaught {r['exc'][0]} at {r['exc'][1]} ({n} inputs)", "label": c.get("label"), "exc": r["exc"], "unlisted_finding_id": fid,
                   "case": {k: v for k, v in c.items() if k != "doc"}}
        if shrunk.get(key) is not None:
            payload["shrunk_document"] = shrunk[key]
            payload["case"] = {"kind": "gen", "text": json.dumps(shrunk[key]), "suffix": c.get("suffix", ".json"), "out": c.get("out", "fresh"), "literal_enums": bool(c.get("literal_enums", False)), "label": "shrunk:" + str(c.get("label"))}
        run.violation("oracle", payload)
    run.extra["crash_sites"] = hist
    run.extra["rejected_documents"] = rejected_total
    run.extra["cli_runs"] = len(cli_jobs)
    run.extra["in_process_runs"] = len(cases)


def _short(x):
    s = json.dumps(x, default=str)
    return s if len(s) < 1500 else s[:1500] + "..."
