"""C02 — model decode/encode is a lossless JSON round trip.
Stage B: generated from_dict/to_dict executed in a fresh interpreter vs Codec.dec / Codec.enc (vm_compute), on the property
trees abstracted from the implementation's own parse. Stage C: to_dict(from_dict(j)) == j, from_dict(to_dict(x)) == x,
json.dumps succeeds, for instances the Coq `valid` accepts; failures classified by the guard of CodecThm.roundtrip."""
import json, os, random, re, concurrent.futures as cf
from lib.common import cstr, run_cases, coq_eval
from lib import impl, absprop
from gen import schemas as G

HDR_BASE = "Require Import OPC.gen.GenKinds OPC.Uni OPC.Names OPC.Codec OPC.CodecObs.\nOpen Scope N_scope.\n"


def reachable(ab, kind, acc=None):
    """ids of model classes reachable from a kind (trusted helper for the guard's table restriction)"""
    acc = set() if acc is None else acc
    t = kind[0]
    if t == "list":
        reachable(ab, kind[1], acc)
    elif t == "union":
        for m in kind[1]:
            reachable(ab, m, acc)
    elif t == "model":
        cid = ab.cls_id[kind[1]]
        if cid not in acc:
            acc.add(cid)
            m = ab.models[cid]
            for _, _, k in ab.class_props(m):
                reachable(ab, k, acc)
            ad = ab.class_addl(m)
            if ad is not None:
                reachable(ab, ad, acc)
    return acc


def union_classes(ab, kind, seen=None, out=None):
    """static defect classes of the unions reachable from a kind (python mirror of Codec.k_ok's conjuncts; used only to NAME the
    known-finding class after the Coq guard has evaluated to false)"""
    seen = set() if seen is None else seen
    out = set() if out is None else out
    TAGS = {"any": "nbifsao", "union": "nbifsao", "const": "nbifsao", "file": "nbifsao", "none": "n", "bool": "b", "int": "i", "float": "if",
            "str": "s", "date": "s", "datetime": "s", "uuid": "s", "list": "a", "model": "o"}
    def tags(k):
        if k[0] == "enum":
            return "ib" if k[2] == "VTInt" else "s"
        if k[0] == "litenum":
            return "ib" if k[1] == "VTInt" else "s"
        return TAGS[k[0]]
    t = kind[0]
    if t == "file":
        out.add("file_in_json_model")
    if t == "list":
        union_classes(ab, kind[1], seen, out)
    elif t == "union":
        ms = kind[1]
        if len(ms) > 1 and any(m[0] == "const" for m in ms):
            out.add("union_const_unguarded")
        for i in range(len(ms)):
            for j2 in range(i + 1, len(ms)):
                if ms[i][0] == "const" or ms[j2][0] == "const":
                    continue
                common = set(tags(ms[i])) & set(tags(ms[j2]))
                if not common:
                    continue
                if ms[i][0] == "any" or ms[j2][0] == "any":
                    out.add("union_overlap_any")
                else:
                    if "s" in common:
                        out.add("union_overlap_string")
                    if "o" in common:
                        out.add("union_overlap_object")
                    if "a" in common:
                        out.add("union_overlap_array")
                    if common & set("ibf"):
                        out.add("union_overlap_number")
        for m in ms:
            union_classes(ab, m, seen, out)
    elif t == "model":
        if kind[1] not in seen:
            seen.add(kind[1])
            m = ab.models[ab.cls_id[kind[1]]]
            for _, _, k in ab.class_props(m):
                union_classes(ab, k, seen, out)
            ad = ab.class_addl(m)
            if ad is not None:
                union_classes(ab, ad, seen, out)
    return out


def work(args):
    """one document: generate, abstract, make instances, run the generated code. Returns plain data."""
    label, doc, seed, per_class, cfg = args
    rng = random.Random(seed)
    out = {"label": label, "cases": [], "error": None, "doc": doc}
    try:
        with impl.Gen(doc, cfg=cfg) as g:
            if g.exc is not None:
                out["error"] = "generate raised " + repr(g.exc)
                return out
            data, _ = impl.parse_doc(doc, cfg=cfg)
            ab = absprop.Abs(data)
            inst = G.Inst(ab, rng)
            out["ctable"] = ab.ctable()
            out["diag"] = [d[1] + ": " + str(d[2]) for d in g.diag()]
            # document-vs-parse: in the 'leaves' atlas document the kind of every property is known by construction
            out["kind_problems"] = []
            if label.startswith("leaves"):
                for m in ab.models:
                    cname = str(m.class_info.name)
                    if cname.startswith("Leaf") and not cname[4:5].islower():
                        ln = next((k for k in G.EXPECTED_LEAF_KIND if str(type(m).__name__) and cname == "Leaf" + "".join(w.capitalize() for w in re.split("_", k))), None)
                        if ln is None:
                            continue
                        want = G.EXPECTED_LEAF_KIND[ln]
                        if want == "enum" and (cfg or {}).get("literal_enums"):
                            want = "litenum"
                        for pn, req, k in ab.class_props(m):
                            if pn in ("r", "o"):
                                if k[0] != want:
                                    out["kind_problems"].append({"cls": cname, "prop": pn, "document_kind": want, "parsed_kind": k[0], "schema": G.LEAVES[ln]})
            # document-vs-parse: which properties a component object schema has and which of them it requires is read from the DOCUMENT
            from openapi_python_client.utils import ClassName as _CN
            by_class = {str(m.class_info.name): m for m in ab.models}
            for sname, sch in (doc.get("components", {}).get("schemas", {}) or {}).items():
                exp = G.doc_props_required(doc, sch)
                m = by_class.get(str(_CN(sname, "")))
                if exp is None or m is None:
                    continue
                got = {pn: req for pn, req, _k in ab.class_props(m)}
                for pn in sorted(exp[0]):
                    # one direction only: a property the document leaves OPTIONAL but the parser requires makes valid instances undecodable
                    # (the other direction - allof_required_unapplied, a C15/C10 finding - does not affect the round trip)
                    if pn in got and got[pn] and pn not in exp[1]:
                        out["kind_problems"].append({"cls": str(m.class_info.name), "prop": pn, "document_required": pn in exp[1], "parsed_required": got[pn], "schema": sch})
                # every value an inline enum property LISTS in the document is a value of the parsed property (nothing listed may become undecodable)
                gotk = {pn: k for pn, _req, k in ab.class_props(m)}
                for pn, ps in ((sch.get("properties") or {}) if isinstance(sch, dict) else {}).items():
                    if isinstance(ps, dict) and isinstance(ps.get("enum"), list) and pn in gotk:
                        def _vals(k):
                            return set(map(repr, k[3])) if k[0] == "enum" else set(map(repr, k[2])) if k[0] == "litenum" else set().union(*[_vals(x) for x in k[1]]) if k[0] == "union" else set()
                        want = {repr(v) for v in ps["enum"] if v is not None}
                        if not want <= _vals(gotk[pn]):
                            out["kind_problems"].append({"cls": str(m.class_info.name), "prop": pn, "document_enum": ps["enum"], "parsed_values": sorted(_vals(gotk[pn])), "schema": ps})
                if set(got) != exp[0] and not (cfg or {}).get("field_prefix"):
                    out["kind_problems"].append({"cls": str(m.class_info.name), "document_properties": sorted(exp[0]), "parsed_properties": sorted(got), "schema": sch})
            ops, meta = [], []
            for m in ab.models:
                cname = str(m.class_info.name)
                kind = ("model", cname)
                for i in range(per_class):
                    valid_gen = i < (per_class * 2 + 2) // 3
                    try:
                        j = inst.model_instance(cname, 0, canonical=(i % 4 != 3))
                        if not valid_gen:
                            j = inst.mutate(kind, j)
                    except (G.NoInstance, RecursionError):
                        break          # a cycle of required properties: the schema has no finite instance
                    ops.append({"op": "roundtrip", "cls": cname, "data": absprop.to_runner_json(j)})
                    meta.append((cname, j, valid_gen))
            res = impl.run_client(g.out, ops, timeout=300) if ops else []
            if isinstance(res, dict):
                out["error"] = "runner: " + res.get("fatal", "")[:800]
                return out
            strings = set()
            for (cname, j, vg), r in zip(meta, res):
                absprop.strings_in(j, strings)
                case = {"cls": cname, "data": j, "valid_gen": vg, "res": r}
                kind = ("model", cname)
                case["k"] = ab.ckind(kind)
                case["reach"] = sorted(reachable(ab, kind))
                case["uclasses"] = sorted(union_classes(ab, kind))
                try:
                    case["j"] = absprop.cjson(j)
                    if "dec_exc" in r:
                        case["obs_obj"], case["obs_out"] = "None", "None"
                    else:
                        case["obs_obj"] = "(Some " + ab.cpv(r["obj"]) + ")"
                        if "enc_exc" in r:
                            case["obs_out"] = "None"
                        else:
                            try:
                                case["obs_out"] = "(Some " + absprop.cjson(absprop.from_jsonable(r["out"])) + ")"
                            except ValueError:
                                case["obs_out"] = "None"     # not plain JSON: the model's enc returns None for this
                                case["nonjson"] = True
                except Exception as e:  # unrepresentable observation
                    case["unrepresentable"] = repr(e)
                out["cases"].append(case)
            out["oracles"] = absprop.oracle_terms(strings)
    except BaseException as e:  # noqa
        import traceback
        out["error"] = "harness worker: " + repr(e) + traceback.format_exc()[-800:]
    return out


def run(run, tier, replay=None):
    rng = run.rng
    docs = [(l, d, None) for l, d in G.atlas_docs()]
    nrand = 6 if tier == "quick" else 60
    for i in range(nrand):
        docs.append((f"rand{i}", G.random_doc(random.Random(rng.randrange(1 << 30)), n_models=rng.randint(3, 7), depth=rng.randint(1, 3)), None))
    docs.append(("enum_edge", G.enum_edge_doc(), None))
    from lib.common import BUILD
    ld = G.locals_doc(BUILD, list(run.known) + [f["id"] for f in __import__("lib.common", fromlist=["known_findings"]).known_findings("C18")])
    if ld is not None:
        docs.append(("locals", ld, None))
    # literal_enums variant of two atlas documents
    docs += [(l + "+literal", d, {"literal_enums": True}) for l, d, _ in docs[:2]]
    per_class = 6 if tier == "quick" else 24
    if replay:
        rp = json.load(open(replay))
        docs = [(v.get("label", "replay"), v["doc"], v.get("cfg")) for v in rp["violations"] if "doc" in v][:5]
    run.rule = ("documents: atlas (every leaf kind x {required, optional, nullable, list item, nested list, typed additionalProperties}; nested/recursive/"
                "closed/open/empty models; every ordered pair of 18 union member kinds; triples; allOf) + random schema graphs; per model class: schema-directed "
                "valid instances (all presence patterns, canonical and non-canonical date/uuid text) and near-valid mutants (wrong scalar at a leaf / union "
                "position, missing key, undeclared key). A case = one (class, instance) executed through the generated from_dict/to_dict in a fresh "
                "interpreter; non-trivial = the instance is a non-empty object; distinct by hash of (document label, class, instance).")
    jobs = [(l, d, rng.randrange(1 << 30), per_class, cfg) for l, d, cfg in docs]
    import time
    t0 = time.time()
    results = []
    with cf.ProcessPoolExecutor(max_workers=14) as ex:
        for r in ex.map(work, jobs):
            results.append(r)
    print("phase gen+run %.1fs" % (time.time() - t0)); t0 = time.time()
    hdr = HDR_BASE
    terms, meta = [], []
    vterms = []
    for di, r in enumerate(results):
        if r["error"]:
            run.violation("harness-or-generator", {"label": r["label"], "error": r["error"], "doc": r["doc"]})
            continue
        hdr += f"Definition T{di} : ctable := {r['ctable']}.\nDefinition O{di} : oracles := {r['oracles']}.\n"
        for kp in r.get("kind_problems", []):
            run.violation("oracle", {"label": r["label"], "doc": r["doc"], **kp, "note": "the parser built a property of a different kind / requiredness than the document declares (e.g. a const no longer checked, an optional property made required)"})
        for c in r["cases"]:
            run.note_case({"doc": r["label"], "cls": c["cls"], "instance": c["data"]}, nontrivial=bool(c["data"]), kind=("valid" if c["valid_gen"] else "mutant"))
            if "unrepresentable" in c:
                run.violation("correspondence", {"label": r["label"], "doc": r["doc"], "cls": c["cls"], "instance": c["data"], "impl": c["res"],
                                                 "note": "the generated code produced a run-time value the model cannot even represent: " + c["unrepresentable"]})
                continue
            terms.append(f"codec_case O{di} T{di} {c['k']} {c['j']} {c['obs_obj']} {c['obs_out']}")
            ids = "[" + ";".join(f"{i}%N" for i in c["reach"]) + "]"
            vterms.append(f"rt_guard O{di} T{di} {ids} {c['k']} {c['j']}")
            meta.append((di, c))
    bad = run_cases(hdr, terms, shard=300)
    print("phase corr %.1fs" % (time.time() - t0)); t0 = time.time()
    run.corr = {"cases": len(terms), "mismatches": len(bad), "what": "generated from_dict (object structure) and to_dict (output or exception) == Codec.dec / Codec.enc on the class table abstracted from the implementation's parse"}
    for i in bad[:8]:
        di, c = meta[i]
        r = results[di]
        mv = coq_eval(hdr, f"option_map norm_pv (dec O{di} T{di} 40 {c['k']} {c['j']})")
        me = coq_eval(hdr, f"match dec O{di} T{di} 40 {c['k']} {c['j']} with Some v => enc T{di} 40 {c['k']} v | None => None end")
        run.violation("correspondence", {"label": r["label"], "doc": r["doc"], "cls": c["cls"], "instance": c["data"], "impl": c["res"],
                                         "model_obj": mv[-600:], "model_out": me[-400:],
                                         "note": "generated from_dict/to_dict no longer behave like Codec.v, for which the round trip is proved"})
    # ---- stage C: the property itself, on instances inside the theorem's guard
    inguard = run_cases(hdr, vterms, shard=300)       # indices where the guard is FALSE
    outside = set(inguard)
    print("phase guard %.1fs" % (time.time() - t0)); t0 = time.time()
    n_in = len(vterms) - len(outside)
    run.extra["instances_inside_theorem_guard"] = n_in
    run.extra["instances_generated_as_valid"] = sum(1 for _, c in meta if c["valid_gen"])
    def lossless(c):
        r = c["res"]
        return ("dec_exc" not in r and "enc_exc" not in r and r.get("py_equal") and r.get("dumps_ok") and r.get("redecode_equal") and not r.get("input_mutated") and r.get("decode_twice_equal", True) and not c.get("nonjson"))
    # failing, generated-as-valid, outside the guard: is it the schema (static guard false) or only the instance?
    cand = [i for i, (di, c) in enumerate(meta) if not lossless(c) and i in outside and c["valid_gen"]]
    sterms = []
    for i in cand:
        di, c = meta[i]
        ids = "[" + ";".join(f"{x}%N" for x in c["reach"]) + "]"
        sterms.append(f"rt_static T{di} {ids} {c['k']}")
    static_false = {cand[x] for x in run_cases(hdr, sterms, shard=300)}
    for i, (di, c) in enumerate(meta):
        r = c["res"]
        if lossless(c):
            continue
        if i not in outside:
            run.violation("oracle", {"label": results[di]["label"], "doc": results[di]["doc"], "cls": c["cls"], "instance": c["data"], "impl": r,
                                     "note": "schema-valid instance inside the guard of CodecThm.roundtrip does not round-trip"})
        elif c["valid_gen"]:
            if i not in static_false:
                continue      # the instance itself is outside `valid` (non-canonical date text, etc.): no claim
            classes = c["uclasses"]
            hit = False
            what = ("exception " + str(r.get("dec_exc") or r.get("enc_exc"))) if ("dec_exc" in r or "enc_exc" in r) else ("re-encoded as " + json.dumps(r.get("out"))[:120])
            for cl in classes:
                if run.known_finding(cl, f"class {c['cls']} of document '{results[di]['label']}': valid instance {json.dumps(c['data'])[:140]} does not round-trip ({what}); its schema is outside k_ok"):
                    hit = True
            if not hit:
                run.violation("oracle", {"label": results[di]["label"], "doc": results[di]["doc"], "cls": c["cls"], "instance": c["data"], "impl": r,
                                         "classes": classes, "note": "round trip fails outside the static guard but in no listed finding class"})
    run.assumptions += ["abstraction function harness/lib/absprop.py (property objects -> pk terms; run-time values -> pv terms)",
                        "harness/lib/client_runner.py (serialises run-time values structurally)",
                        "dateutil.isoparse / uuid.UUID are oracles: the model receives their canonical re-formatting for the strings of each shard",
                        "floats are opaque tokens standing for non-integral numbers; attrs __eq__ is structural equality",
                        "wrong container types in direct (non-union) positions are outside the model (never generated)"]
