"""C11 — generated code type-checks and its annotations are truthful.
Stage B: every property's annotation (get_type_string) vs Types.type_of; every attribute value of every object decoded from
schema-valid data by the GENERATED from_dict is checked (in Coq) to inhabit the modelled annotation; every response_type.
Stage C (search only - mypy's judgement is not modelled): mypy --strict on generated trees."""
import re, json, os, random, subprocess, concurrent.futures as cf
from lib.common import cstr, run_cases, coq_eval, VERIF
from lib import impl, absprop, tyabs, epwork
from gen import schemas as G
from gen import ops as OPS
from props import c02

HDR = ("Require Import OPC.gen.GenKinds OPC.Uni OPC.Names OPC.Codec OPC.CodecObs OPC.Types OPC.TypesObs OPC.Endpoint OPC.Returns.\nOpen Scope N_scope.\n"
       "Definition lookup_f (n : str) (fs : list (str * pv)) : option pv := (fix go (fs : list (str * pv)) := match fs with [] => None | (k, v) :: r => if str_eqb k n then Some v else go r end) fs.\n"
       "Definition fields_inhabit (T : ctable) (v : pv) : bool := match v with PObj c fs ad => match get_class T c with Some cd => "
       "forallb (fun p => match lookup_f (fst p) fs with Some x => inhabits x (type_of (snd (snd p)) (fst (snd p))) | None => false end) (c_props cd) && "
       "match c_addl cd with Some ak => forallb (fun kv => inhabits (snd kv) (type_of ak true)) ad | None => true end | None => false end | _ => false end.\n")


def mypy_tree(args):
    label, doc, cfg = args
    with impl.Gen(doc, cfg=cfg) as g:
        if g.exc is not None or g.has_error_level():
            return {"label": label, "skipped": True}
        overlap_modules, rawfb = [], []
        try:
            data, config = impl.parse_doc(doc, cfg=cfg)
            ab = absprop.Abs(data)
            for m in ab.models:
                if c02.union_classes(ab, ("model", str(m.class_info.name))):
                    overlap_modules.append(str(m.class_info.module_name))
            for _mod, _tag, ep in epwork.endpoints_of(data, config):
                if epwork.non_identifier_params(ep):
                    rawfb.append(_mod.replace(".", "/"))
        except Exception:
            pass
        env = dict(os.environ, MYPYPATH=str(VERIF / "harness" / "stubs"))
        r = subprocess.run(["/venv/bin/mypy", str(g.out), "--strict", "--no-incremental", "--cache-dir=/dev/null", "--show-error-codes", "--no-error-summary"],
                           capture_output=True, text=True, cwd=str(g.root), env=env, timeout=600)
        errs = [l for l in r.stdout.splitlines() if ": error:" in l]
        ctx, func = {}, {}
        import ast as _ast
        for l in errs:
            try:
                f, ln = l.split(":")[0], int(l.split(":")[1])
                text = (g.root / f).read_text()
                src = text.splitlines()
                ctx[l] = src[ln - 1].strip()[:200]
                # innermost enclosing function of the reported line (None: module / class level, e.g. an attribute declaration)
                best = None
                for n in _ast.walk(_ast.parse(text)):
                    if isinstance(n, (_ast.FunctionDef, _ast.AsyncFunctionDef)) and n.lineno <= ln <= (n.end_lineno or n.lineno):
                        if best is None or n.lineno >= best.lineno:
                            best = n
                func[l] = best.name if best else None
            except Exception:
                pass
        return json.loads(json.dumps({"label": label, "rc": r.returncode, "errors": errs, "context": ctx, "func": func, "doc": doc, "cfg": cfg, "stderr": r.stderr[-300:],
                                      "overlap_modules": overlap_modules, "rawfb": rawfb}, default=str))


def types_work(args):
    label, doc, cfg = args
    out = {"label": label, "doc": doc, "props": [], "eps": [], "error": None}
    try:
        data, config = impl.parse_doc(doc, cfg=cfg)
        if not hasattr(data, "models"):
            out["error"] = "document rejected"
            return out
        ab = absprop.Abs(data)
        for m in ab.models:
            for p in (m.required_properties or []) + (m.optional_properties or []):
                ent = {"cls": str(m.class_info.name), "prop": p.name, "required": p.required, "type_string": p.get_type_string(), "ck": ab.ckind(ab.kind(p))}
                try:
                    ent["cty"] = tyabs.cty(ent["type_string"], ab)
                except Exception as e:
                    ent["cty_error"] = repr(e)
                out["props"].append(ent)
        for module, tag, ep in epwork.endpoints_of(data, config):
            for p in ep.path_parameters + ep.query_parameters + ep.header_parameters + ep.cookie_parameters + [b.prop for b in ep.bodies] + [r.prop for r in ep.responses]:
                ent = {"cls": ep.name, "prop": p.name, "required": p.required, "type_string": p.get_type_string(), "ck": ab.ckind(ab.kind(p))}
                try:
                    ent["cty"] = tyabs.cty(ent["type_string"], ab)
                except Exception as e:
                    ent["cty_error"] = repr(e)
                out["props"].append(ent)
            # the return annotation: Optional[<response_type()>] / Response[<response_type()>] of every variant
            ent = {"cls": ep.name, "prop": "<return>", "required": True, "type_string": ep.response_type(),
                   "ck_list": "[" + "; ".join(ab.ckind(ab.kind(r.prop)) for r in ep.responses) + "]"}
            try:
                ent["cty"] = tyabs.cty(ent["type_string"], ab)
            except Exception as e:
                ent["cty_error"] = repr(e)
            out["props"].append(ent)
    except BaseException as e:  # noqa
        import traceback
        out["error"] = repr(e) + traceback.format_exc()[-800:]
    return json.loads(json.dumps(out, default=str))


def run(run, tier, replay=None):
    rng = run.rng
    sdocs = [(l, d, None) for l, d in G.atlas_docs()]
    odocs = [(l, d, None) for l, d in OPS.atlas_docs()]
    nrand = 4 if tier == "quick" else 40
    for i in range(nrand):
        sdocs.append((f"rand{i}", G.random_doc(random.Random(rng.randrange(1 << 30)), n_models=rng.randint(3, 7), depth=rng.randint(1, 3)), None))
        odocs.append((f"orand{i}", OPS.random_doc(random.Random(rng.randrange(1 << 30)), n_ops=rng.randint(3, 6)), None))
    lit = [(l + "+literal", d, {"literal_enums": True}) for l, d, _ in (sdocs[:3] + odocs[:2])]
    run.rule = ("documents: the schema atlas and operation atlas of C02/C03 plus random ones, with literal_enums off and on. Cases: (a) one per property / parameter / body / "
                "response: annotation text parsed and compared with Types.type_of; (b) one per (class, schema-valid instance): every attribute of the object the GENERATED "
                "from_dict returns must inhabit its modelled annotation (checked by vm_compute on the observed run-time values); (c) one per generated tree: mypy --strict. "
                "non-trivial = optional / union / list / model typed; distinct by hash.")
    # ---- (a) annotation correspondence
    with cf.ProcessPoolExecutor(max_workers=14) as ex:
        tres = list(ex.map(types_work, sdocs + odocs + lit))
        # ---- (b) runtime values (reuse C02's worker: generated from_dict executed in a fresh interpreter)
        jobs = [(l, d, rng.randrange(1 << 30), 4 if tier == "quick" else 16, cfg) for l, d, cfg in sdocs + lit[:3]]
        cres = list(ex.map(c02.work, jobs))
        byl = {l: (l, d, c) for l, d, c in sdocs}
        extra = [("builtin_names", G.builtin_names_doc(), None), ("enum_edge", G.enum_edge_doc(), None)]
        mdocs = ([byl[l] for l in ("leaves", "models", "unions0", "triples", "allof") if l in byl] + extra + odocs[:6] + lit[:2]) if tier == "quick" else (sdocs + extra + odocs + lit)
        mres = list(ex.map(mypy_tree, mdocs))
    terms, meta = [], []
    for r in tres:
        if r["error"]:
            continue
        for ent in r["props"]:
            run.note_case({"doc": r["label"], "owner": ent["cls"], "prop": ent["prop"], "type": ent["type_string"]}, nontrivial=("[" in ent["type_string"]), kind="annotation")
            if "cty" not in ent:
                run.violation("correspondence", {"label": r["label"], "doc": r["doc"], "owner": ent["cls"], "prop": ent["prop"], "type_string": ent["type_string"], "note": "annotation not parseable into Types.ty: " + ent["cty_error"]})
                continue
            if "ck_list" in ent:
                terms.append(f"ty_same (response_ty_kinds {ent['ck_list']}) {ent['cty']}")
                meta.append(("return", r, ent))
                continue
            terms.append(f"ty_same (type_of {ent['ck']} {'true' if ent['required'] else 'false'}) {ent['cty']}")
            meta.append(("type", r, ent))
    hdr = HDR
    for di, r in enumerate(cres):
        if r["error"]:
            run.violation("harness-or-generator", {"label": r["label"], "error": r["error"], "doc": r["doc"]})
            continue
        hdr += f"Definition T{di} : ctable := {r['ctable']}.\nDefinition O{di} : oracles := {r['oracles']}.\n"
        for c in r["cases"]:
            if not c["valid_gen"] or "unrepresentable" in c or c.get("obs_obj") in (None, "None"):
                continue
            run.note_case({"doc": r["label"], "cls": c["cls"], "instance": c["data"]}, nontrivial=bool(c["data"]), kind="decoded_object")
            ids = "[" + ";".join(f"{i}%N" for i in c["reach"]) + "]"
            obs = c["obs_obj"][len("(Some "):-1]
            # inside the theorem's guard the decoded object must be well-typed; outside (invalid instance / overlapping unions) no claim
            terms.append(f"(negb (rt_guard O{di} T{di} {ids} {c['k']} {c['j']}) || fields_inhabit T{di} {obs})")
            meta.append(("inhabit", r, c))
    bad = run_cases(hdr, terms, shard=300)
    nb = 0
    for i in bad:
        what, r, x = meta[i]
        nb += 1
        if nb > 8:
            break
        if what == "return":
            run.violation("correspondence", {"label": r["label"], "doc": r["doc"], "owner": x["cls"], "impl_return_type": x["type_string"],
                                             "model": coq_eval(hdr, f"response_ty_kinds {x['ck_list']}")[-400:],
                                             "note": "Endpoint.response_type() is no longer the union of all documented response types (Returns.response_ty), for which return_annotation_truthful is proved"})
        elif what == "type":
            run.violation("correspondence", {"label": r["label"], "doc": r["doc"], "owner": x["cls"], "prop": x["prop"], "impl_type": x["type_string"],
                                             "model": coq_eval(hdr, f"type_of {x['ck']} {'true' if x['required'] else 'false'}")[-300:],
                                             "note": "get_type_string no longer equals Types.type_of, on which decode_inhabits_annotation is proved"})
        else:
            run.violation("oracle", {"label": r["label"], "doc": r["doc"], "cls": x["cls"], "instance": x["data"], "impl": x["res"],
                                     "note": "an attribute of the object decoded from schema-valid data is not an instance of its annotated type"})
    run.corr = {"cases": len(terms), "mismatches": len(bad), "what": "get_type_string == Types.type_of; attributes of objects decoded by generated from_dict inhabit Types.type_of (valid instances inside the guard)"}
    # ---- (c) mypy (search)
    checked = 0
    for m in mres:
        if m.get("skipped"):
            continue
        checked += 1
        run.note_case({"mypy_tree": m["label"], "errors": len(m["errors"])}, kind="mypy")
        rest = []
        for e in m["errors"]:
            src = m["context"].get(e, "")
            if "[redundant-cast]" in e and src.startswith("return cast(") and src.endswith(", value)") and "/models/" in e:
                if run.known_finding("mypy_literal_enum_redundant_cast", f"tree '{m['label']}': {e[:160]} | {src}"):
                    continue
            if "[redundant-cast]" in e and re.match(r"\w+ = cast\(list\[Any\], data\)$", src) and 'Redundant cast to "list[Any]"' in e:
                if run.known_finding("mypy_union_list_any_redundant_cast", f"tree '{m['label']}': {e[:160]} | {src}"):
                    continue
            if "[arg-type]" in e and src == "cls=cls," and 'Argument "cls"' in e and "/models/" in e:
                # a document property named `cls` is the from_dict parameter `cls` (C18's listed capture): the constructor call passes the class
                if run.known_finding("capture_model_from_dict_cls", f"tree '{m['label']}': {e[:200]} | {src}"):
                    continue
            if "[assignment]" in e and src.startswith("cookies[") and "/api/" in e:
                if run.known_finding("mypy_cookie_optional", f"tree '{m['label']}': {e[:200]} | {src}"):
                    continue
            if "[assignment]" in e and "/models/" in e and src.startswith(e.split("/models/")[1].split(".py")[0][:0] or "") and " = str(self." in src and 'variable has type "Unset | bytes"' in e:
                if run.known_finding("mypy_uuid_multipart", f"tree '{m['label']}': {e[:200]} | {src}"):
                    continue
            if "[arg-type]" in e and src.startswith("if isinstance(self.") and src.endswith(", None):"):
                if run.known_finding("multipart_none_member_first", f"tree '{m['label']}': {e[:200]} | {src}"):
                    continue
            modfile = e.split(":")[0]
            fn_ = (m.get("func") or {}).get(e)
            in_codec = fn_ is not None and (fn_ in ("to_dict", "from_dict", "to_multipart") or fn_.startswith("_parse_"))
            # only errors INSIDE the decode / encode code of such a model belong to the finding (a class-level declaration, e.g. a default, does not)
            if "/models/" in modfile and modfile.split("/models/")[1][:-3] in (m.get("overlap_modules") or []) and in_codec:
                if run.known_finding("mypy_union_overlap", f"tree '{m['label']}': {e[:200]} | {src}"):
                    continue
            if "[syntax]" in e and any(modfile.endswith(x + ".py") for x in (m.get("rawfb") or [])):
                if run.known_finding("raw_fallback", f"tree '{m['label']}': {e[:160]} | {src}"):
                    continue
            rest.append(e)
        m["errors"] = rest
        if m["errors"]:
            run.violation("oracle", {"label": m["label"], "doc": m["doc"], "cfg": m["cfg"], "mypy_errors": m["errors"][:10], "source_lines": m["context"],
                                     "note": "mypy --strict reports errors in the generated package"})
    run.extra["mypy_trees_checked"] = checked
    run.assumptions += ["harness/lib/tyabs.py (annotation text -> Types.ty)", "mypy's judgement is NOT modelled: mypy --strict (with a 3-line stand-in stub for dateutil.parser.isoparse, "
                        "types-python-dateutil not being installable offline) is run as the search stage only; its silence is not claimed as proof",
                        "typing rules assumed by Types.inhabits: bool <: int <: float, datetime <: date"]
