"""C15 — allOf composition is the conjunction of its members.
Stage B: (1) the real merge_properties on real property objects (all ordered pairs of the 16 kinds x payload variants x required x
default) vs Merge.merge, (2) the real _process_properties on random allOf lists vs Merge.collect; both evaluated inside Coq.
Stage C: documents with allOf chains generated end to end; the composed class is inspected in a fresh subprocess (attributes,
mandatory constructor arguments, annotations for both member orders, from_dict/to_dict round trip)."""
import copy, json, math, os, subprocess, tempfile, shutil
from pathlib import Path
from lib.common import cstr, cbool, cZ, run_cases, coq_eval, PY
from lib import impl

# ------------------------------------------------------------------------------------------------ real objects
_CTX = {}


def ctx(lit: bool):
    """(config, schemas) with the shared components A, B (objects), E1, E2, E3, N1 (enums) built by the real parser."""
    if lit in _CTX:
        return _CTX[lit]
    from openapi_python_client import schema as oai
    from openapi_python_client.parser.properties import Schemas, build_schemas
    d = Path(tempfile.mkdtemp(prefix="opc_c15_"))
    try:
        config = impl.make_config(d / "doc.json", d / "out", cfg={"literal_enums": lit})
    finally:
        shutil.rmtree(d, ignore_errors=True)
    comps = {
        "A": {"type": "object", "description": "model a", "properties": {"x": {"type": "string"}}},
        "B": {"type": "object", "properties": {"y": {"type": "integer"}}},
        "E1": {"type": "string", "enum": ["a", "b"]},
        "E2": {"type": "string", "enum": ["a", "b", "c"]},
        "E1bis": {"type": "string", "enum": ["b", "a"]},
        "N1": {"type": "integer", "enum": [1, 2]},
    }
    schemas = build_schemas(components={k: oai.Schema.model_validate(v) for k, v in comps.items()}, schemas=Schemas(), config=config)
    assert not schemas.errors, schemas.errors
    _CTX[lit] = (config, schemas)
    return _CTX[lit]


def build_prop(schema: dict, required: bool, lit: bool = False, name: str = "p", parent: str = "Par"):
    """A real property object through the real property_from_data; returns the property or None if the parser rejects the schema."""
    from openapi_python_client import schema as oai
    from openapi_python_client.parser.properties import property_from_data
    from openapi_python_client.parser.errors import PropertyError
    config, schemas = ctx(lit)
    data = oai.Reference.model_validate(schema) if set(schema) == {"$ref"} else oai.Schema.model_validate(copy.deepcopy(schema))
    try:
        p, _ = property_from_data(name=name, required=required, data=data, schemas=schemas, parent_name=parent, config=config)
    except Exception:
        return None
    return None if isinstance(p, PropertyError) else p


REF = lambda n: {"$ref": "#/components/schemas/" + n}

# (label, schema without default, literal_enums?, candidate defaults)
VARIANTS = [
    ("any", {}, False, ["x", 3]),
    ("none", {"type": "null"}, False, []),
    ("none-enum", {"enum": [None]}, False, []),
    ("bool", {"type": "boolean"}, False, [True, "false"]),
    ("int", {"type": "integer"}, False, [3, "7", 2.0, 1]),
    ("float", {"type": "number"}, False, [3.5, 2, "1e3"]),
    ("str", {"type": "string"}, False, ["abc", "2020-01-01", "3", "a", 'q"x']),
    ("date", {"type": "string", "format": "date"}, False, ["2020-01-01"]),
    ("datetime", {"type": "string", "format": "date-time"}, False, ["2020-01-01T00:00:00Z"]),
    ("uuid", {"type": "string", "format": "uuid"}, False, ["12345678-1234-5678-1234-567812345678"]),
    ("file", {"type": "string", "format": "binary"}, False, []),
    ("const-a", {"const": "a"}, False, ["a"]),
    ("const-b", {"const": "b"}, False, ["b"]),
    ("const-1", {"const": 1}, False, [1]),
    ("enum-ab", {"type": "string", "enum": ["a", "b"]}, False, ["a", "b"]),
    ("enum-ba-T", {"type": "string", "enum": ["b", "a"], "title": "Other"}, False, ["a"]),
    ("enum-abc", {"type": "string", "enum": ["a", "b", "c"]}, False, ["c", "a"]),
    ("enum-xy", {"type": "string", "enum": ["x", "y"]}, False, ["x"]),
    # member names (dict keys) are derived: upper-cased, punctuation folded, VALUE_<index> for non-alphabetic heads. These variants share
    # member NAMES with different VALUES (or the reverse): compatibility must be decided on (name, value) items
    ("enum-lower", {"type": "string", "enum": ["active", "inactive"]}, False, ["active"]),
    ("enum-UPPER", {"type": "string", "enum": ["ACTIVE", "INACTIVE", "PENDING"]}, False, ["PENDING", "ACTIVE"]),
    ("enum-Mixed", {"type": "string", "enum": ["Active", "inactive"]}, False, ["inactive"]),
    ("enum-dash", {"type": "string", "enum": ["in-active", "active"]}, False, ["in-active"]),
    ("enum-space", {"type": "string", "enum": ["in active", "active", "x"]}, False, ["in active"]),
    ("enum-dig1", {"type": "string", "enum": ["1a", "2b"]}, False, ["1a"]),
    ("enum-dig2", {"type": "string", "enum": ["3c", "4d", "5e"]}, False, ["5e"]),
    ("enum-dig3", {"type": "string", "enum": ["2b", "1a"]}, False, ["1a"]),
    ("list-enum-lower", {"type": "array", "items": {"type": "string", "enum": ["active", "inactive"]}}, False, []),
    ("list-enum-UPPER", {"type": "array", "items": {"type": "string", "enum": ["ACTIVE", "INACTIVE", "PENDING"]}}, False, []),
    ("enum-12", {"type": "integer", "enum": [1, 2]}, False, [1]),
    ("enum-123", {"type": "integer", "enum": [3, 2, 1]}, False, [3, 2]),
    ("enum-refE1", {"allOf": [REF("E1")]}, False, ["a"]),
    ("enum-refE2", {"allOf": [REF("E2")]}, False, ["c"]),
    ("enum-refE1bis", {"allOf": [REF("E1bis")]}, False, []),
    ("lit-ab", {"type": "string", "enum": ["a", "b"]}, True, ["a", "b"]),
    ("lit-ba-T", {"type": "string", "enum": ["b", "a"], "title": "Other"}, True, ["a"]),
    ("lit-abc", {"type": "string", "enum": ["a", "b", "c"]}, True, ["c", "a"]),
    ("lit-xy", {"type": "string", "enum": ["x", "y"]}, True, ["x"]),
    ("lit-12", {"type": "integer", "enum": [1, 2]}, True, [1]),
    ("lit-123", {"type": "integer", "enum": [3, 2, 1]}, True, [3, 2]),
    ("lit-refE2", {"allOf": [REF("E2")]}, True, ["c"]),
    ("list-int", {"type": "array", "items": {"type": "integer"}}, False, []),
    ("list-float", {"type": "array", "items": {"type": "number", "default": 1.5}}, False, []),
    ("list-str", {"type": "array", "items": {"type": "string"}}, False, []),
    ("list-date", {"type": "array", "items": {"type": "string", "format": "date"}}, False, []),
    ("list-enum-ab", {"type": "array", "items": {"type": "string", "enum": ["a", "b"]}}, False, []),
    ("list-enum-abc", {"type": "array", "items": {"type": "string", "enum": ["a", "b", "c"]}}, False, []),
    ("list-A", {"type": "array", "items": REF("A")}, False, []),
    ("list-B", {"type": "array", "items": REF("B")}, False, []),
    ("list-list-int", {"type": "array", "items": {"type": "array", "items": {"type": "integer"}}}, False, []),
    ("list-list-float", {"type": "array", "items": {"type": "array", "items": {"type": "number"}}}, False, []),
    ("union-int-str", {"anyOf": [{"type": "integer"}, {"type": "string"}]}, False, [5, "u"]),
    ("union-str-bool", {"type": ["string", "boolean"]}, False, ["u"]),
    ("model-A", {"allOf": [REF("A")]}, False, []),
    ("model-A-ref", REF("A"), False, []),
    ("model-B", REF("B"), False, []),
    ("model-inline", {"type": "object", "properties": {"z": {"type": "string"}}}, False, []),
]


PROP_NAMES = ["p", "createdAt", "item-count", "2fa", "class", "ItemCount"]     # python_name != JSON name: camelCase, kebab, leading digit, reserved word


def mk_variant(vi: int, required: bool, dflt_ix, descr=None, example=None, name="p"):
    lab, schema, lit, dfl = VARIANTS[vi]
    s = dict(schema)
    if set(s) == {"$ref"}:
        return build_prop(s, required, lit, name=name)
    if dflt_ix is not None and dfl:
        s["default"] = dfl[dflt_ix % len(dfl)]
    if descr is not None:
        s["description"] = descr
    if example is not None:
        s["example"] = example
    return build_prop(s, required, lit, name=name)


# ------------------------------------------------------------------------------------------------ Coq encoding
class Enc:
    """Encodes real property objects as Merge.mprop terms; collects the strings / ints the oracles may be asked about."""
    def __init__(self):
        self.strs, self.ints = set(), set()
        self.text_ids = {}
        self.model_ids = {}
        self.union_reps = []

    def text(self, s):
        if not s:
            return "None"       # `x or y`: every falsy description / example counts as absent
        s = s if isinstance(s, str) else repr(s)
        return f"(Some {self.text_ids.setdefault(s, len(self.text_ids) + 1)}%N)"

    def fl(self, f: float):
        fin = math.isfinite(f)
        fi = f"(Some {cZ(int(f))})" if fin and f == int(f) else "None"
        return f"{{| f_tok := {cstr(str(f))}; f_int := {fi}; f_finite := {cbool(fin)} |}}"

    def jval(self, v):
        if v is None:
            return "JNull"
        if isinstance(v, bool):
            return f"(JBool {cbool(v)})"
        if isinstance(v, int):
            self.ints.add(v)
            return f"(JInt {cZ(v)})"
        if isinstance(v, float):
            return f"(JFloat {self.fl(v)})"
        if isinstance(v, str):
            self.strs.add(v)
            return f"(JStr {cstr(v)})"
        return f"(JOther {cstr(str(v))})"

    def value(self, d):
        if d is None:
            return "None"
        return f"(Some {{| code := {cstr(d.python_code)}; raw := {self.jval(d.raw_value)} |}})"

    @staticmethod
    def evalue(v):
        return f"(EInt {cZ(v)})" if isinstance(v, int) else f"(EStr {cstr(v)})"

    @staticmethod
    def vt(t):
        return "VInt" if t is int else "VStr"

    def members(self, values: dict):
        return "[" + "; ".join(f"({cstr(k)}, {self.evalue(v)})" for k, v in values.items()) + "]" if values else "[]"

    def litvals(self, values):
        vs = sorted(values, key=lambda x: (str(type(x)), x))
        return "[" + "; ".join(self.evalue(v) for v in vs) + "]" if vs else "[]"

    def ckind(self, p):
        n = type(p).__name__
        simple = {"AnyProperty": "CAny", "NoneProperty": "CNone", "BooleanProperty": "CBool", "IntProperty": "CInt", "FloatProperty": "CFloat",
                  "StringProperty": "CStr", "DateProperty": "CDate", "DateTimeProperty": "CDateTime", "UuidProperty": "CUuid", "FileProperty": "CFile",
                  "ListProperty": "CList", "ModelProperty": "CModel"}
        if n in simple:
            return simple[n]
        if n == "ConstProperty":
            return f"(CConst {self.jval(p.value.raw_value)})"
        if n == "EnumProperty":
            return f"(CEnum {self.vt(p.value_type)} {cstr(p.class_info.name)} {self.members(p.values)})"
        if n == "LiteralEnumProperty":
            return f"(CLitEnum {self.vt(p.value_type)} {self.litvals(p.values)})"
        if n == "UnionProperty":
            return "(CUnion [" + "; ".join(self.ckind(q) for q in p.inner_properties) + "])"
        raise ValueError(n)

    KINDS = {"AnyProperty": "MAny", "NoneProperty": "MNone", "BooleanProperty": "MBool", "IntProperty": "MInt", "FloatProperty": "MFloat",
             "StringProperty": "MStr", "DateProperty": "MDate", "DateTimeProperty": "MDateTime", "UuidProperty": "MUuid", "FileProperty": "MFile",
             "ConstProperty": "MConst", "EnumProperty": "MEnum", "LiteralEnumProperty": "MLitEnum", "ListProperty": "MList",
             "UnionProperty": "MUnion", "ModelProperty": "MModel"}

    def payload(self, p):
        n = type(p).__name__
        if n == "ConstProperty":
            return f"(PL_const {self.jval(p.value.raw_value)})"
        if n == "EnumProperty":
            return f"(PL_enum {self.vt(p.value_type)} {self.members(p.values)} {cstr(p.class_info.name)})"
        if n == "LiteralEnumProperty":
            return f"(PL_litenum {self.vt(p.value_type)} {self.litvals(p.values)} {cstr(p.class_info.name)})"
        if n == "ListProperty":
            return f"(PL_list {self.prop(p.inner_property)})"
        if n == "UnionProperty":
            for i, rep in enumerate(self.union_reps):
                if rep == p.inner_properties:
                    uid = i
                    break
            else:
                self.union_reps.append(list(p.inner_properties))
                uid = len(self.union_reps) - 1
            return "(PL_union [" + "; ".join(self.ckind(q) for q in p.inner_properties) + f"] {uid}%N)"
        if n == "ModelProperty":
            return f"(PL_model {self.model_ids.setdefault(str(p.class_info.name), len(self.model_ids))}%N)"
        return "PL_none"

    def prop(self, p):
        return (f"(MP {self.KINDS[type(p).__name__]} {cbool(p.required)} {self.value(p.default)} {self.text(p.description)} "
                f"{self.text(p.example)} {self.payload(p)})")

    def header(self):
        """Merge model + an oracles record backed by association lists over the finite set of strings / ints of this run."""
        from dateutil.parser import isoparse
        from uuid import UUID
        pf, iso, uu, fi = [], [], [], []
        for s in sorted(self.strs):
            try:
                pf.append(f"({cstr(s)}, {self.fl(float(s))})")
            except ValueError:
                pass
            try:
                isoparse(s)
                iso.append(cstr(s))
            except Exception:
                pass
            try:
                UUID(s)
                uu.append(cstr(s))
            except Exception:
                pass
        for n in sorted(self.ints):
            try:
                fi.append(f"({cZ(n)}, {self.fl(float(n))})")
            except OverflowError:
                pass
        L = lambda xs, ty: "[" + "; ".join(xs) + "]" if xs else f"(@nil {ty})"
        return ("Require Import OPC.Uni OPC.Names OPC.PyLit OPC.Values OPC.Merge.\nOpen Scope N_scope.\n"
                f"Definition pf_tbl : list (str * fl) := {L(pf, '(str * fl)')}.\n"
                f"Definition fi_tbl : list (Z * fl) := {L(fi, '(Z * fl)')}.\n"
                f"Definition iso_tbl : list str := {L(iso, 'str')}.\n"
                f"Definition uu_tbl : list str := {L(uu, 'str')}.\n"
                "Definition o : oracles := {|\n"
                "  parse_float := fun s => match find (fun kv => str_eqb s (fst kv)) pf_tbl with Some kv => Some (snd kv) | None => None end;\n"
                "  float_of_int := fun z => match find (fun kv => Z.eqb z (fst kv)) fi_tbl with Some kv => Some (snd kv) | None => None end;\n"
                "  isoparse_ok := fun s => existsb (str_eqb s) iso_tbl;\n"
                "  uuid_ok := fun s => existsb (str_eqb s) uu_tbl |}.\n"
                "Definition mres_eqb (a b : mres) : bool :=\n"
                "  match a, b with MOk x, MOk y => mprop_eqb x y | MErr, MErr => true | MCrash, MCrash => true | _, _ => false end.\n")



def real_merge(p1, p2):
    """-> ('ok', prop) | ('err', detail) | ('crash', repr)"""
    from openapi_python_client.parser.properties.merge_properties import merge_properties
    from openapi_python_client.parser.errors import PropertyError
    try:
        r = merge_properties(p1, p2)
    except Exception as e:  # an uncaught exception of the implementation = MCrash
        return ("crash", repr(e))
    if isinstance(r, PropertyError):
        return ("err", str(r.detail))
    return ("ok", r)


def obs_term(enc, res):
    return {"ok": lambda: f"(MOk {enc.prop(res[1])})", "err": lambda: "MErr", "crash": lambda: "MCrash"}[res[0]]()


# ------------------------------------------------------------------------------------------------ stage B, part 1: merge matrix
REQ_DFLT_FULL = [(r1, r2, d1, d2) for r1 in (0, 1) for r2 in (0, 1) for d1 in (None, 0, 1) for d2 in (None, 0, 1)]
REQ_DFLT_QUICK = [(0, 0, None, None), (1, 0, 0, None), (0, 1, None, 0), (1, 1, 0, 0), (0, 0, 1, 1), (1, 0, None, 1)]


def merge_case(enc, c):
    """c = {v1, v2, r1, r2, d1, d2, ds1, ds2, ex1, ex2} -> (term, info) or None when the parser rejects one of the declarations."""
    p1 = mk_variant(c["v1"], bool(c["r1"]), c["d1"], c.get("ds1"), c.get("ex1"), name=c.get("name", "p"))
    p2 = mk_variant(c["v2"], bool(c["r2"]), c["d2"], c.get("ds2"), c.get("ex2"), name=c.get("name", "p"))
    if p1 is None or p2 is None:
        return None
    t1, t2 = enc.prop(p1), enc.prop(p2)       # encode BEFORE the call: merge_properties mutates prop1.inner_property of lists
    res = real_merge(p1, p2)
    info = {"p1": VARIANTS[c["v1"]][0], "p2": VARIANTS[c["v2"]][0], "name": c.get("name", "p"), **{k: c[k] for k in ("r1", "r2", "d1", "d2")},
            "impl": res[0] if res[0] != "ok" else "ok:" + type(res[1]).__name__ + (":required" if res[1].required else ":optional")
                    + (":default=" + res[1].default.python_code if res[1].default else ""),
            "impl_detail": res[1] if res[0] != "ok" else None}
    return f"mres_eqb (merge o {t1} {t2}) {obs_term(enc, res)}", f"merge o {t1} {t2}", info, res


def matrix_cases(rng, tier):
    nv = len(VARIANTS)
    combos = REQ_DFLT_QUICK if tier == "quick" else REQ_DFLT_FULL
    out = []
    twin = {i for i, v in enumerate(VARIANTS) if v[0] in ("enum-lower", "enum-UPPER", "enum-Mixed", "enum-dash", "enum-space", "enum-dig1", "enum-dig2", "enum-dig3",
                                                           "list-enum-lower", "list-enum-UPPER")}
    near = twin | {i for i, v in enumerate(VARIANTS) if v[0].split("-")[0] in ("enum", "any", "str", "int") or v[0].startswith("list-enum")}
    for i in range(nv):
        for j in range(nv):
            if tier == "quick" and ((i in twin and j not in near) or (j in twin and i not in near)):
                continue      # quick: the member-name twins meet only each other and the kinds an enum can merge with (thorough: everything)
            for (r1, r2, d1, d2) in combos:
                out.append({"v1": i, "v2": j, "r1": r1, "r2": r2, "d1": d1, "d2": d2, "name": PROP_NAMES[(i * 5 + j * 3 + r1 + 2 * r2) % len(PROP_NAMES)],
                            "ds1": "d1" if (i + j + r1) % 3 == 0 else None, "ds2": "d2" if (i + r2) % 2 else None,
                            "ex1": "e1" if (j + r1) % 4 == 0 else None, "ex2": "e2" if (i + j) % 5 == 0 else None})
    # numeric / string cluster with every default, including the non-finite and out-of-range ones (MCrash paths)
    cluster = [i for i, v in enumerate(VARIANTS) if v[0] in ("any", "int", "float", "str", "bool", "enum-12", "lit-12", "union-int-str", "const-1")]
    for i in cluster:
        for j in cluster:
            for d1 in [None] + list(range(len(VARIANTS[i][3]))):
                for d2 in [None] + list(range(len(VARIANTS[j][3]))):
                    if (d1 is None or d1 < 2) and (d2 is None or d2 < 2):
                        continue
                    out.append({"v1": i, "v2": j, "r1": (i + j) % 2, "r2": 0, "d1": d1, "d2": d2, "ds1": None, "ds2": None, "ex1": None, "ex2": None})
    # random: extra defaults (non-finite floats, huge ints: the Crash paths), descriptions / examples present or absent
    n = 1000 if tier == "quick" else 12000
    for _ in range(n):
        out.append({"v1": rng.randrange(nv), "v2": rng.randrange(nv), "r1": rng.randrange(2), "r2": rng.randrange(2), "name": rng.choice(PROP_NAMES),
                    "d1": rng.choice([None, 0, 1, 2, 3, 4]), "d2": rng.choice([None, 0, 1, 2, 3, 4]),
                    "ds1": rng.choice([None, "d1", "dx"]), "ds2": rng.choice([None, "d2", "dx"]),
                    "ex1": rng.choice([None, "e1"]), "ex2": rng.choice([None, "e2", "e1"])})
    return out


# hostile defaults reached only through the random stream (index >= 2): crash paths of convert_value
for _lab, _extra in (("float", ["inf", "nan", 10 ** 310]), ("int", [10 ** 310, "1e310"]), ("str", ["inf", "1e310", "true"]), ("any", [10 ** 310, "nan", True, 2.5]),
                     ("bool", ["TRUE"]), ("union-int-str", [2.5])):
    for _v in VARIANTS:
        if _v[0] == _lab:
            _v[3].extend(_extra)


# ------------------------------------------------------------------------------------------------ stage B, part 2: collect
POOL_NAMES = ["a", "b", "c", "d"]     # (kept for replays of older cases)
COLLECT_SCHEMAS = [
    {"type": "integer"}, {"type": "number"}, {"type": "string"}, {"type": "string", "format": "date"}, {"type": "string", "format": "date-time"},
    {"type": "string", "enum": ["a", "b"]}, {"type": "string", "enum": ["a", "b", "c"]}, {"type": "integer", "enum": [1, 2]}, {},
    {"type": "array", "items": {"type": "integer"}}, {"type": "array", "items": {"type": "number"}}, REF("A"), REF("B"), {"type": "boolean"},
    {"type": "integer", "default": 3}, {"type": "number", "default": 2.5}, {"type": "string", "default": "a"}, {"type": "string", "description": "dd"},
    {"allOf": [REF("E1")]}, {"allOf": [REF("E2")], "default": "c"}, {"type": "string", "format": "uuid"},
]


# the properties dict of _process_properties is keyed by the JSON name; python_name differs for every pool but the first
NAME_POOLS = [["a", "b", "c", "d"], ["createdAt", "item-count", "2fa", "class"], ["itemCount", "ItemCount", "user-id", "from"], ["ID", "HTTPCode", "is_ok", "Self"],
              # twins that need the raw-name fallback inside one schema; a later member redeclares one of them
              ["fooBar", "foo_bar", "From", "from"], ["itemCount", "ItemCount", "item_count", "y"]]


def rand_object(rng, nprops=(1, 3), pool=None):
    POOL_NAMES = pool or NAME_POOLS[0]
    names = rng.sample(POOL_NAMES, rng.randint(*nprops))
    props = {n: copy.deepcopy(rng.choice(COLLECT_SCHEMAS[:8] if rng.random() < 0.6 else COLLECT_SCHEMAS)) for n in names}
    o = {"type": "object", "properties": props}
    req = [n for n in POOL_NAMES if rng.random() < (0.35 if n in names else 0.1)]
    if req:
        o["required"] = req
    return o


def collect_doc(rng):
    """components: leaf parents P0..Pk, optionally a composed parent Q = allOf[P*, inline], child C = allOf[...] + own properties."""
    comps = {}
    pool = NAME_POOLS[0] if rng.random() < 0.2 else rng.choice(NAME_POOLS[1:])
    k = rng.randint(1, 3)
    for i in range(k):
        comps[f"P{i}"] = rand_object(rng, pool=pool)
    parents = list(comps)
    if rng.random() < 0.4:
        comps["Q"] = {"allOf": [REF(rng.choice(parents))] + ([rand_object(rng, (1, 2), pool=pool)] if rng.random() < 0.7 else [])}
        parents.append("Q")
    members = []
    for _ in range(rng.randint(1, 4)):
        r = rng.random()
        if r < 0.55:
            members.append(REF(rng.choice(parents)))
        elif r < 0.8:
            members.append(rand_object(rng, (1, 2), pool=pool))
        else:       # a member that only constrains: `required` (naming own / inline / $ref'd properties), no `properties`
            m = {"required": rng.sample(pool, rng.randint(1, 2))}
            if rng.random() < 0.5:
                m["type"] = "object"
            members.append(m)
    child = {"allOf": members}
    if rng.random() < 0.5:
        own = rand_object(rng, (1, 2), pool=pool)
        child["properties"] = own["properties"]
        if "required" in own:
            child["required"] = own["required"]
    return comps, child


TWINS = [("fooBar", "foo_bar"), ("From", "from"), ("itemCount", "ItemCount"), ("ItemCount", "item_count")]
NARROWINGS = [({"type": "number"}, {"type": "integer"}), ({"type": "string"}, {"type": "string", "format": "date"}),
              ({"type": "string"}, {"type": "string", "enum": ["a", "b"]}), ({}, {"type": "boolean"}), ({"type": "integer"}, {"type": "integer", "enum": [1, 2]})]


def twin_collect_docs():
    """The parent holds a pair of properties whose python names needed the raw-name fallback; a later member (inline, or a second $ref'd
    parent) redeclares ONE of them with a narrower kind, so that merge_properties bases its result on the NEW declaration, which carries a
    freshly snake_cased python_name: the sibling-collision scan must run again. Both directions (wide first / narrow first)."""
    out = []
    for (t1, t2) in TWINS:
        for k, (wide, narrow) in enumerate(NARROWINGS):
            for which in (t1, t2):
                other = t2 if which == t1 else t1
                for first, second in ((wide, narrow), (narrow, wide)):
                    parent = {"type": "object", "properties": {t1: None, t2: None}, "required": [other]}
                    parent["properties"][which] = copy.deepcopy(first)
                    parent["properties"][other] = {"type": "string"} if k % 2 else {"type": "boolean"}
                    comps = {"P0": parent, "P1": {"type": "object", "properties": {which: copy.deepcopy(second), "y": {"type": "integer"}}}}
                    out.append((comps, {"allOf": [REF("P0"), {"type": "object", "properties": {which: copy.deepcopy(second), "y": {"type": "integer"}}}]}))
                    out.append((comps, {"allOf": [REF("P0"), REF("P1")], "required": [which]}))
                    out.append((comps, {"allOf": [REF("P1"), REF("P0")]}))
    return out


def collect_case(enc, comps, child, lit=False):
    """Runs the real _process_properties for `child` on freshly built schemas; returns (term, eval_term, info).
    The model's input list is assembled here independently: referenced members' properties (required ones first, as the parser stores
    them) in allOf order, then the child's own properties, then the inline members' properties; required = name in the union of the
    `required` lists of the child and its inline members."""
    from openapi_python_client import schema as oai
    from openapi_python_client.parser.properties import Schemas, build_schemas, property_from_data
    from openapi_python_client.parser.properties.model_property import _process_properties
    from openapi_python_client.parser.errors import PropertyError
    from openapi_python_client.utils import ClassName
    config, base = ctx(lit)
    allc = {"A": {"type": "object", "description": "model a", "properties": {"x": {"type": "string"}}},
            "B": {"type": "object", "properties": {"y": {"type": "integer"}}},
            "E1": {"type": "string", "enum": ["a", "b"]}, "E2": {"type": "string", "enum": ["a", "b", "c"]}}
    allc.update(copy.deepcopy(comps))
    schemas = build_schemas(components={k: oai.Schema.model_validate(v) for k, v in allc.items()}, schemas=Schemas(), config=config)
    data = oai.Schema.model_validate(copy.deepcopy(child))
    cname = ClassName("C", config.field_prefix)
    roots = {"/components/schemas/C", cname}
    ins, ok_inputs = [], True
    unprocessed = list(child.get("properties", {}).items())
    required_set = set(child.get("required", []))
    for m in child["allOf"]:
        if "$ref" in m:
            sub = schemas.classes_by_reference.get(m["$ref"][1:])
            if sub is None or sub.required_properties is None:
                ok_inputs = False      # the parent itself failed: the child must fail too
                break
            for p in list(sub.required_properties) + list(sub.optional_properties):
                ins.append((p.name, enc.prop(p), str(p.python_name)))
        else:
            unprocessed.extend(m.get("properties", {}).items())
            required_set.update(m.get("required", []))
    if ok_inputs:
        sch_t = schemas      # threaded like the parser does (inline enums / objects register their class names)
        for key, sch in unprocessed:
            d = oai.Reference.model_validate(sch) if set(sch) == {"$ref"} else oai.Schema.model_validate(copy.deepcopy(sch))
            p, sch_t = property_from_data(name=key, required=key in required_set, data=d, schemas=sch_t, parent_name=cname, config=config, roots=roots)
            if isinstance(p, PropertyError):
                ok_inputs = False
                break
            ins.append((key, enc.prop(p), str(p.python_name)))
    try:
        res = _process_properties(data=data, schemas=schemas, class_name=cname, config=config, roots=set(roots))
    except Exception as e:
        return None, None, {"child": child, "components": comps, "impl": "crash " + repr(e)}
    info = {"components": comps, "child": child}
    if not ok_inputs:
        info["impl"] = "error" if isinstance(res, PropertyError) else "ok"
        return ("true" if isinstance(res, PropertyError) else "false"), "tt", info
    L = lambda xs: "[" + "; ".join(f"({cstr(n)}, {t})" for n, t, _ in xs) + "]" if xs else "(@nil (str * mprop))"
    I = lambda xs: "[" + "; ".join(f"(mk_inp {cstr(n)} {cstr(py)} {t})" for n, t, py in xs) + "]" if xs else "(@nil inp)"
    if isinstance(res, PropertyError):
        obs = obs_i = "None"
        info["impl"] = "error: " + str(res.detail)[:120]
    else:
        rq = [(p.name, enc.prop(p), str(p.python_name)) for p in res.required_props]
        op = [(p.name, enc.prop(p), str(p.python_name)) for p in res.optional_props]
        obs = f"(Some ({L(rq)}, {L(op)}))"
        obs_i = f"(Some ({I(rq)}, {I(op)}))"
        info["impl"] = {"required": [(p.name, str(p.python_name)) for p in res.required_props], "optional": [(p.name, str(p.python_name)) for p in res.optional_props]}
    info["n_inputs"] = len(ins)
    info["shared"] = len(ins) - len({n for n, _, _ in ins})
    # Merge.collect (names / required / merged payloads) and ProcProps.process (the same loop WITH the python names: which declaration a
    # merge is based on decides the python_name the merged property carries into the sibling-collision scan)
    term = (f"let pr := process o {cstr(config.field_prefix)} {I(ins)} in process_obs_eqb pr {obs_i} && "
            f"match pr with PErrName => true | _ => collect_obs_eqb (collect o {L(ins)}) {obs} end")
    return term, f"process o {cstr(config.field_prefix)} {I(ins)}", info


COLLECT_HDR = r"""
Require Import OPC.Scopes OPC.ProcProps.
Definition ilist_eqb (x y : list inp) : bool :=
  list_eqb (fun u v => str_eqb (i_name u) (i_name v) && str_eqb (i_py u) (i_py v) && mprop_eqb (i_prop u) (i_prop v)) x y.
Definition process_obs_eqb (a : pres (list inp)) (b : option (list inp * list inp)) : bool :=
  match a, b with
  | POk x, Some (rq, op) => ilist_eqb (filter (fun i => mp_required (i_prop i)) x) rq && ilist_eqb (filter (fun i => negb (mp_required (i_prop i))) x) op
  | POk _, None => false
  | _, None => true
  | _, Some _ => false
  end.
Definition plist_eqb (x y : list (str * mprop)) : bool := list_eqb (fun u v => str_eqb (fst u) (fst v) && mprop_eqb (snd u) (snd v)) x y.
Definition collect_obs_eqb (a : option (list (str * mprop))) (b : option (list (str * mprop) * list (str * mprop))) : bool :=
  match a, b with
  | Some x, Some (rq, op) => plist_eqb (filter (fun np => mp_required (snd np)) x) rq && plist_eqb (filter (fun np => negb (mp_required (snd np))) x) op
  | None, None => true
  | _, _ => false
  end.
"""


# ------------------------------------------------------------------------------------------------ stage C: end to end
# A declaration ("decl") is the harness' own small description of one property schema; the spec side (what JSON Schema's allOf
# means for the supported subset) is computed from decls, never from the parser.
SCALARS = ["str", "int", "number", "bool", "date", "datetime", "uuid", "any"]
ANN = {"str": "str", "int": "int", "number": "float", "bool": "bool", "date": "datetime.date", "datetime": "datetime.datetime", "uuid": "UUID", "any": "Any"}
ENUMS_S = [["a", "b"], ["a", "b", "c"], ["x", "y"], ["b", "a"],
           # same member names, different values (case / punctuation / VALUE_<index>): never compatible
           ["active", "inactive"], ["ACTIVE", "INACTIVE", "PENDING"], ["in-active", "active"], ["in active", "active", "x"], ["1a", "2b"], ["3c", "4d", "5e"]]
ENUMS_I = [[1, 2], [1, 2, 3], [7]]
LEAF_MODELS = {"A": {"type": "object", "properties": {"x": {"type": "string"}}}, "B": {"type": "object", "properties": {"y": {"type": "integer"}}}}


def rand_decl(rng, depth=0, focus=None):
    r = rng.random()
    if focus is not None and r < 0.7:
        k = rng.choice(focus)
    elif r < 0.55:
        k = rng.choice(SCALARS)
    elif r < 0.7:
        k = "enum_s"
    elif r < 0.78:
        k = "enum_i"
    elif r < 0.9 and depth < 2:
        k = "list"
    else:
        k = "ref"
    d = {"k": k}
    if k == "enum_s":
        d["vals"] = list(rng.choice(ENUMS_S))
    elif k == "enum_i":
        d["vals"] = list(rng.choice(ENUMS_I))
    elif k == "list":
        d["item"] = rand_decl(rng, depth + 1, focus=["int", "number", "str", "date", "ref"])
    elif k == "ref":
        d["to"] = rng.choice(["A", "B"])
    if depth == 0 and rng.random() < 0.25:
        d["description"] = rng.choice(["first", "second"])
    if depth == 0 and rng.random() < 0.2 and k in ("str", "int", "number", "bool", "enum_s", "enum_i"):
        d["default"] = {"str": "a", "int": 1, "number": 2.5, "bool": True}.get(k) if k in ("str", "int", "number", "bool") else d["vals"][0]
    return d


def schema_of(d):
    k = d["k"]
    s = {"str": {"type": "string"}, "int": {"type": "integer"}, "number": {"type": "number"}, "bool": {"type": "boolean"},
         "date": {"type": "string", "format": "date"}, "datetime": {"type": "string", "format": "date-time"},
         "uuid": {"type": "string", "format": "uuid"}, "any": {}}.get(k)
    if s is not None:
        s = dict(s)
    elif k == "enum_s":
        s = {"type": "string", "enum": list(d["vals"])}
    elif k == "enum_i":
        s = {"type": "integer", "enum": list(d["vals"])}
    elif k == "list":
        s = {"type": "array", "items": schema_of(d["item"])}
    elif k == "ref":
        return REF(d["to"])
    for f in ("description", "default"):
        if f in d:
            s[f] = d[f]
    return s


def narrow(d1, d2):
    """Spec: the conjunction of two declarations of one property. ('ok', decl) | ('err',) (no supported common type: a diagnostic is
    acceptable) | ('same-kind-distinct',) (both are models: JSON Schema would intersect them; the generator has no such type)."""
    k1, k2 = d1["k"], d2["k"]
    if k2 == "any":
        return ("ok", d1)
    if k1 == "any":
        return ("ok", d2)
    if k1 == k2:
        if k1 in ("enum_s", "enum_i"):
            s1, s2 = set(d1["vals"]), set(d2["vals"])
            if s1 <= s2:
                return ("ok", d1)
            if s2 <= s1:
                return ("ok", d2)
            return ("err",)
        if k1 == "list":
            r = narrow(d1["item"], d2["item"])
            return ("ok", {"k": "list", "item": r[1]}) if r[0] == "ok" else r
        if k1 == "ref":
            return ("ok", d1) if d1["to"] == d2["to"] else ("same-kind-distinct",)
        return ("ok", d1)
    for a, b in ((d1, d2), (d2, d1)):
        if (a["k"], b["k"]) in (("int", "number"), ("date", "str"), ("datetime", "str"), ("enum_s", "str"), ("enum_i", "int")):
            return ("ok", a)
    return ("err",)


def fold_narrow(ds):
    cur = ("ok", ds[0])
    for d in ds[1:]:
        if cur[0] != "ok":
            break
        cur = narrow(cur[1], d)
    return cur


def sample(d, salt=0):
    k = d["k"]
    if k in ("enum_s", "enum_i"):
        return d["vals"][salt % len(d["vals"])]
    if k == "list":
        return [sample(d["item"], salt), sample(d["item"], salt + 1)]
    if k == "ref":
        return {"x": "s"} if d["to"] == "A" else {"y": 3}
    return {"str": "s" + str(salt), "int": 7 + salt, "number": 1.5 + salt, "bool": True, "date": "2020-01-02", "datetime": "2020-01-02T03:04:05+00:00",
            "uuid": "12345678-1234-5678-1234-567812345678", "any": "anyv"}[k]


def ann_of(d):
    """Expected base annotation text for the kinds whose annotation does not involve a generated class name, else None."""
    if d["k"] in ANN:
        return ANN[d["k"]]
    if d["k"] == "list":
        a = ann_of(d["item"])
        return f"list[{a}]" if a else None
    return None


def rand_members(rng, names, focus, allow_bare=False):
    """an object schema description: {'props': {name: decl}, 'required': [...]}; allow_bare: sometimes a member that carries ONLY `required`"""
    if allow_bare and rng.random() < 0.2:
        return {"props": {}, "required": rng.sample(names, rng.randint(1, min(2, len(names))))}
    ns = rng.sample(names, rng.randint(1, min(3, len(names))))
    props = {n: rand_decl(rng, focus=focus.get(n)) for n in ns}
    req = [n for n in names if rng.random() < (0.4 if n in ns else 0.08)]
    return {"props": props, "required": req}


DOC_NAMES = ["pa", "pb", "pc", "pq"]     # not d / src_dict / field_dict ...: names that capture template locals belong to C18


FOCI = [["int", "number", "any"], ["str", "date", "enum_s", "any"], ["str", "datetime", "any"], ["enum_s"], ["enum_i", "int"], ["ref"], ["list"],
        ["int", "number", "enum_i"], ["str", "uuid"], ["bool", "int"]]


PNAME_SCHEMES = [None,
                 {"pa": "createdAt", "pb": "item-count", "pc": "2fa", "pq": "class"},
                 {"pa": "itemCount", "pb": "user-id", "pc": "9lives", "pq": "from"},
                 {"pa": "ID", "pb": "HTTPCode", "pc": "is_ok", "pq": "Self"},
                 # twins: the raw-name fallback is needed inside one schema (fooBar / foo_bar, From / from; itemCount / ItemCount / item_count)
                 {"pa": "fooBar", "pb": "foo_bar", "pc": "From", "pq": "from"},
                 {"pa": "itemCount", "pb": "ItemCount", "pc": "item_count", "pq": "y"}]


def pn(spec, n):
    """JSON name of a property of the spec (the spec is written over the neutral ids pa / pb / pc / pq)"""
    return (spec.get("pnames") or {}).get(n, n)


def py_names(spec, ids):
    """({id: raw-fallback name}, {id: default name}, ids whose default names collide) for one class (PythonIdentifier is C09's proved function)"""
    from openapi_python_client.utils import PythonIdentifier
    d = {i: str(PythonIdentifier(pn(spec, i), "field_")) for i in ids}
    raw = {i: str(PythonIdentifier(pn(spec, i), "field_", skip_snake_case=True)) for i in ids}
    clash = {i for i in ids if sum(1 for j in ids if d[j] == d[i]) > 1}
    return raw, d, clash


def map_attrs(spec, ids, attrs):
    """{attribute: property id}. Which of the colliding properties ends up with the raw-name fallback depends on the processing history
    of the shared property objects (which member was merged first, which other schema renamed the object before), so an attribute is
    recognised by its raw name, else by the default name when exactly one unmatched property has it. The document-level requirement is
    only: one attribute per JSON name, pairwise distinct (checked on the class body), all found here."""
    raw, d, clash = py_names(spec, ids)
    res, remaining = {}, list(ids)
    for a in attrs:
        c = [i for i in remaining if raw[i] == a]
        if len(c) == 1:
            res[a] = c[0]
            remaining.remove(c[0])
    for a in attrs:
        if a not in res:
            c = [i for i in remaining if d[i] == a]
            if len(c) == 1:
                res[a] = c[0]
                remaining.remove(c[0])
    return res


def clash_ids(spec, model, memo=None):
    ids = list(spec["leaves"][model]["props"]) if model in spec["leaves"] else list(flatten(spec, model, memo)["decls"])
    return py_names(spec, ids)[2]


def nm(spec, ident):
    """document name of a model of the spec (the spec itself is written over the neutral ids P<i> / C<i>)"""
    return spec.get("names", {}).get(ident, ident)


def suffix_names(spec, rng):
    """Document names such that a composed schema's name is a SUFFIX of the name of a parent it extends (Pet = allOf[NewPet, ...],
    Item -> BaseItem -> AbstractBaseItem): whether a $ref designates the schema itself must be decided on the whole last path segment."""
    children = {}
    for c, v in spec["composed"].items():
        for k, m in v["members"]:
            if k == "ref":
                children.setdefault(m, []).append(c)
    bases = ["Item", "Pet", "Thing", "Node", "Unit", "Part", "Form"]
    prefixes = ["New", "Base", "Abstract", "Old", "Core", "Super"]
    names = {}
    for ident in list(spec["composed"])[::-1] + list(spec["leaves"]):      # youngest first
        kids = [k for k in children.get(ident, []) if k in names]
        if not kids:
            names[ident] = bases.pop(0)
            continue
        stem = names[rng.choice(kids)]
        cands = [p + stem for p in rng.sample(prefixes, len(prefixes))] + [p + q + stem for p in prefixes for q in prefixes]
        names[ident] = next(c for c in cands if c not in names.values())
    return names


def rand_doc_spec(rng, tier):
    """{'leaves': {name: obj}, 'composed': {name: {'members': [('ref', name) | ('inline', obj)], 'own': obj | None}}, 'order': [names]}"""
    names = DOC_NAMES[: rng.randint(2, 4)]
    focus = {n: rng.choice(FOCI) for n in names if rng.random() < 0.75}
    spec = {"leaves": {}, "composed": {}}
    for i in range(rng.randint(1, 3)):
        spec["leaves"][f"P{i}"] = rand_members(rng, names, focus)
    avail = list(spec["leaves"])
    for i in range(rng.randint(1, 3 if tier == "quick" else 4)):
        ms = []
        for _ in range(rng.randint(1, 3 if tier == "quick" else 5)):
            ms.append(("ref", rng.choice(avail)) if rng.random() < 0.6 else ("inline", rand_members(rng, names, focus, allow_bare=True)))
        own = rand_members(rng, names, focus) if rng.random() < 0.3 else None
        if len(ms) == 1 and ms[0][0] == "ref" and (own is None or rng.random() < 0.7):
            ms.append(("inline", rand_members(rng, names, focus)))     # a lone $ref without own properties is an alias by design
        spec["composed"][f"C{i}"] = {"members": ms, "own": own}
        avail.append(f"C{i}")          # later composed models may use earlier ones: chains
    order = list(spec["leaves"]) + list(spec["composed"])
    rng.shuffle(order)                 # parents declared after children
    if rng.random() < 0.65:
        spec["pnames"] = rng.choice(PNAME_SCHEMES[1:])      # the properties dict is keyed by the JSON name, not by python_name
    if rng.random() < 0.4:
        spec["names"] = suffix_names(spec, rng)
        if rng.random() < 0.6:           # youngest first: every child precedes every parent it extends
            order = list(spec["composed"])[::-1] + list(spec["leaves"])[::-1]
    spec["order"] = order
    return spec


def exhaustive_pair_specs(both_modes=True):
    """every ordered pair of declaration shapes for one shared property, as ref/ref and inline/inline members (quick tier: the mode
    alternates over the pairs), optional/required mixes"""
    shapes = [{"k": k} for k in SCALARS] + [{"k": "enum_s", "vals": v} for v in ENUMS_S[:3] + ENUMS_S[4:6] + ENUMS_S[8:10]] + [{"k": "enum_i", "vals": v} for v in ENUMS_I[:2]] + \
             [{"k": "list", "item": {"k": "int"}}, {"k": "list", "item": {"k": "number"}}, {"k": "list", "item": {"k": "ref", "to": "A"}},
              {"k": "ref", "to": "A"}, {"k": "ref", "to": "B"}]
    out = []
    for i, s1 in enumerate(shapes):
        for j, s2 in enumerate(shapes):
            if i > j:
                continue      # the reversed document covers the other order
            for mode in (("ref", "inline") if both_modes else (("ref", "inline")[(i * 7 + j) % 2],)):
                r1, r2 = [["pa"], []][(i + j) % 2], [["pa"], []][(i * 3 + j) % 2]
                o1, o2 = {"props": {"pa": s1, "pb": {"k": "str"}}, "required": r1}, {"props": {"pa": s2, "pc": {"k": "int"}}, "required": r2}
                if mode == "ref":
                    spec = {"leaves": {"P0": o1, "P1": o2}, "composed": {"C0": {"members": [("ref", "P0"), ("ref", "P1")], "own": None}},
                            "order": ["C0", "P0", "P1"] if (i + j) % 3 == 0 else ["P0", "P1", "C0"]}
                else:
                    spec = {"leaves": {}, "composed": {"C0": {"members": [("inline", o1), ("inline", o2)], "own": None}}, "order": ["C0"]}
                spec["pnames"] = PNAME_SCHEMES[len(out) % len(PNAME_SCHEMES)]
                out.append(spec)
    return out


def fixed_specs():
    """one deterministic witness per known finding (so each reproduces on every run) + a late-parent chain"""
    P = lambda **props: {"props": props, "required": []}
    return [
        # shared properties whose python_name differs from the JSON name: int+number -> int, str+date -> date, required = OR
        {"leaves": {"P0": {"props": {"pa": {"k": "int"}, "pb": {"k": "str"}, "pc": {"k": "enum_s", "vals": ["a", "b", "c"]}, "pq": {"k": "any"}}, "required": []},
                    "P1": {"props": {"pa": {"k": "number"}, "pb": {"k": "date"}, "pc": {"k": "enum_s", "vals": ["a", "b"]}, "pq": {"k": "bool"}}, "required": ["pa", "pq"]}},
         "composed": {"C0": {"members": [("ref", "P1"), ("ref", "P0")], "own": None},
                      "C1": {"members": [("ref", "P1"), ("inline", {"props": {"pa": {"k": "int"}, "pb": {"k": "str"}}, "required": ["pb"]})], "own": None}},
         "order": ["P0", "P1", "C0", "C1"], "pnames": PNAME_SCHEMES[1]},
        {"leaves": {"P0": {"props": {"pa": {"k": "int"}, "pb": {"k": "str"}}, "required": ["pb"]}, "P1": {"props": {"pa": {"k": "number"}, "pb": {"k": "date"}}, "required": ["pa"]}},
         "composed": {"C0": {"members": [("ref", "P1"), ("ref", "P0")], "own": None}}, "order": ["C0", "P0", "P1"], "pnames": {"pa": "itemCount", "pb": "ItemCount"}},
        # the parent holds de-conflicted twins, a later member redeclares ONE of them with a narrower kind (the merge is based on the NEW declaration)
        {"leaves": {"P0": {"props": {"pa": {"k": "number"}, "pb": {"k": "str"}}, "required": ["pb"]}, "P1": {"props": {"pa": {"k": "int"}}, "required": []}},
         "composed": {"C0": {"members": [("ref", "P0"), ("inline", {"props": {"pa": {"k": "int"}, "pc": {"k": "int"}}, "required": []})], "own": None},
                      "C1": {"members": [("ref", "P0"), ("ref", "P1")], "own": None},
                      "C2": {"members": [("ref", "P0"), ("inline", {"props": {"pb": {"k": "date"}}, "required": ["pa"]})], "own": None}},
         "order": ["P0", "P1", "C0", "C1", "C2"], "pnames": {"pa": "fooBar", "pb": "foo_bar", "pc": "y"}},
        {"leaves": {"P0": {"props": {"pa": {"k": "str"}, "pb": {"k": "number"}}, "required": []}},
         "composed": {"C0": {"members": [("ref", "P0"), ("inline", {"props": {"pa": {"k": "enum_s", "vals": ["a", "b"]}}, "required": []})], "own": None},
                      "C1": {"members": [("ref", "P0"), ("inline", {"props": {"pb": {"k": "int"}}, "required": ["pb"]})], "own": None}},
         "order": ["C1", "P0", "C0"], "pnames": {"pa": "From", "pb": "from"}},
        {"leaves": {"P0": {"props": {"pa": {"k": "any"}, "pb": {"k": "str"}, "pc": {"k": "number"}}, "required": ["pc"]}},
         "composed": {"C0": {"members": [("ref", "P0"), ("inline", {"props": {"pa": {"k": "bool"}}, "required": []}), ("inline", {"props": {"pb": {"k": "datetime"}}, "required": []}),
                                         ("inline", {"props": {"pc": {"k": "int"}}, "required": []})], "own": None}},
         "order": ["P0", "C0"], "pnames": {"pa": "itemCount", "pb": "ItemCount", "pc": "item_count"}},
        # children declared BEFORE the parents they extend, names suffix-related (Pet / NewPet; Item -> BaseItem -> AbstractBaseItem), and a control
        {"leaves": {"P0": {"props": {"pa": {"k": "str"}, "pb": {"k": "str"}}, "required": ["pa"]}},
         "composed": {"C0": {"members": [("ref", "P0"), ("inline", {"props": {"pc": {"k": "int"}}, "required": ["pc"]})], "own": None}},
         "order": ["C0", "P0"], "names": {"C0": "Pet", "P0": "NewPet"}},
        {"leaves": {"P0": {"props": {"pa": {"k": "str"}}, "required": ["pa"]}},
         "composed": {"C0": {"members": [("ref", "P0"), ("inline", {"props": {"pb": {"k": "int"}}, "required": []})], "own": None},
                      "C1": {"members": [("ref", "C0"), ("inline", {"props": {"pc": {"k": "date"}, "pa": {"k": "enum_s", "vals": ["a", "b"]}}, "required": ["pc"]})], "own": None}},
         "order": ["C1", "C0", "P0"], "names": {"C1": "Item", "C0": "BaseItem", "P0": "AbstractBaseItem"}},
        {"leaves": {"P0": {"props": {"pa": {"k": "str"}}, "required": []}, "P1": {"props": {"pb": {"k": "int"}}, "required": ["pb"]}},
         "composed": {"C0": {"members": [("ref", "P0"), ("ref", "P1")], "own": {"props": {"pc": {"k": "bool"}}, "required": []}},
                      "C1": {"members": [("ref", "P0"), ("inline", {"props": {"pq": {"k": "str"}}, "required": ["pq"]})], "own": None}},
         "order": ["C0", "C1", "P1", "P0"], "names": {"C0": "Pet", "P0": "NewPet", "P1": "OldPet", "C1": "Dog"}},
        # own properties + an inline member that carries only `required`; inline properties + a required-only sibling
        {"leaves": {}, "composed": {"C0": {"members": [("inline", {"props": {}, "required": ["pa"]})], "own": {"props": {"pa": {"k": "int"}, "pb": {"k": "str"}}, "required": []}},
                                    "C1": {"members": [("inline", {"props": {"pc": {"k": "str"}, "pq": {"k": "str"}}, "required": []}), ("inline", {"props": {}, "required": ["pc"]})], "own": None}},
         "order": ["C0", "C1"]},
        {"leaves": {"P0": P(pa={"k": "str"})},
         "composed": {"C0": {"members": [("ref", "P0"), ("inline", {"props": {"pb": {"k": "int"}}, "required": []}), ("inline", {"props": {}, "required": ["pb"]})], "own": None}}, "order": ["P0", "C0"]},
        # enums whose member names coincide while the values differ: a diagnostic, never a silent pick
        {"leaves": {"P0": P(pa={"k": "enum_s", "vals": ["active", "inactive"]}), "P1": P(pa={"k": "enum_s", "vals": ["ACTIVE", "INACTIVE", "PENDING"]})},
         "composed": {"C0": {"members": [("ref", "P0"), ("ref", "P1")], "own": None}}, "order": ["P0", "P1", "C0"]},
        {"leaves": {"P0": P(pa={"k": "enum_s", "vals": ["1a", "2b"]}), "P1": P(pa={"k": "enum_s", "vals": ["3c", "4d", "5e"]}), "P2": P(pa={"k": "enum_s", "vals": ["in-active", "active"]}),
                    "P3": P(pa={"k": "enum_s", "vals": ["in active", "active", "x"]})},
         "composed": {"C0": {"members": [("ref", "P0"), ("ref", "P1")], "own": None}, "C1": {"members": [("ref", "P3"), ("ref", "P2")], "own": None}}, "order": ["P0", "P1", "P2", "P3", "C0", "C1"]},
        {"leaves": {"P0": P(pa={"k": "int"}), "P1": P(pa={"k": "number"}), "P2": P(pa={"k": "enum_i", "vals": [1, 2]})},
         "composed": {"C0": {"members": [("ref", "P0"), ("ref", "P1"), ("ref", "P2")], "own": None}}, "order": ["P0", "P1", "P2", "C0"]},
        {"leaves": {"P0": P(pa={"k": "str"})}, "composed": {"C0": {"members": [("ref", "P0"), ("inline", {"props": {}, "required": ["pa"]})], "own": None}}, "order": ["C0", "P0"]},
        {"leaves": {"P0": P(pa={"k": "str"})}, "composed": {"C0": {"members": [("ref", "P0")], "own": {"props": {"pb": {"k": "int"}}, "required": ["pb"]}}}, "order": ["P0", "C0"]},
        {"leaves": {"P0": P(pa={"k": "list", "item": {"k": "number"}})},
         "composed": {"C0": {"members": [("ref", "P0"), ("inline", P(pa={"k": "list", "item": {"k": "int"}}))], "own": None}}, "order": ["P0", "C0"]},
        {"leaves": {"P0": P(pa={"k": "enum_s", "vals": ["a", "b", "c"], "default": "a"}), "P1": P(pa={"k": "enum_s", "vals": ["a", "b"]})},
         "composed": {"C0": {"members": [("ref", "P0"), ("ref", "P1")], "own": None}}, "order": ["P0", "P1", "C0"]},
        {"leaves": {"P0": P(pa={"k": "ref", "to": "A"}), "P1": P(pa={"k": "ref", "to": "B"})},
         "composed": {"C0": {"members": [("ref", "P0"), ("ref", "P1")], "own": None}}, "order": ["P0", "P1", "C0"]},
        {"leaves": {"P0": {"props": {"pa": {"k": "int"}, "pb": {"k": "str"}}, "required": ["pa"]}},
         "composed": {"C0": {"members": [("ref", "P0"), ("inline", {"props": {"pa": {"k": "number"}, "pc": {"k": "date"}}, "required": ["pc"]})], "own": None},
                      "C1": {"members": [("ref", "C0"), ("inline", {"props": {"pb": {"k": "enum_s", "vals": ["a", "b"]}}, "required": ["pb"]})], "own": None},
                      "C2": {"members": [("ref", "C1"), ("ref", "C0")], "own": {"props": {"pq": {"k": "list", "item": {"k": "ref", "to": "A"}}}, "required": []}}},
         "order": ["C2", "C1", "C0", "P0"]},
    ]


def obj_schema(o, spec=None):
    spec = spec or {}
    if not o["props"]:      # a member that only constrains
        s = {"type": "object"} if len(o["required"]) % 2 == 0 else {}
    else:
        s = {"type": "object", "properties": {pn(spec, n): schema_of(d) for n, d in o["props"].items()}}
    if o["required"]:
        s["required"] = [pn(spec, n) for n in o["required"]]
    return s


def doc_of(spec, reverse=False):
    """reverse: members of every allOf AND the declaration order of the schemas are reversed"""
    comps = dict(LEAF_MODELS)
    for name in (spec["order"][::-1] if reverse else spec["order"]):
        if name in spec["leaves"]:
            comps[nm(spec, name)] = obj_schema(spec["leaves"][name], spec)
        else:
            c = spec["composed"][name]
            ms = [REF(nm(spec, m[1])) if m[0] == "ref" else obj_schema(m[1], spec) for m in c["members"]]
            if reverse:
                ms = ms[::-1]
            s = {"allOf": ms}
            if c["own"] is not None:
                o = obj_schema(c["own"], spec)
                if "properties" in o:
                    s["properties"] = o["properties"]
                if "required" in o:
                    s["required"] = o["required"]
            comps[nm(spec, name)] = s
    return impl.base_doc(components={"schemas": comps})


def flatten(spec, name, memo=None):
    """Spec view of a model.
    decls: {prop: [(decl, origin schema name), ...]} every declaration of every member (transitively);
    listed: every name listed in a `required` of any member schema object (transitively);
    required_spec = listed & declared (allOf = conjunction: a property is mandatory if ANY member requires it);
    required_code: what the parser's rule gives: a `required` list is applied only to the properties declared by the same schema object,
      except that the composed schema and its inline members share one list. required_spec - required_code is the exact input class of
      the known finding allof_required_unapplied."""
    memo = {} if memo is None else memo
    if name in memo:
        return memo[name]
    if name in spec["leaves"]:
        o = spec["leaves"][name]
        r = {"decls": {n: [(d, name)] for n, d in o["props"].items()}, "listed": set(o["required"]), "required_code": set(o["required"]) & set(o["props"])}
    else:
        c = spec["composed"][name]
        decls, listed, rcode, inline_declared, inline_required = {}, set(), set(), set(), set()
        objs = [m for m in c["members"]] + ([("inline", c["own"])] if c["own"] is not None else [])
        for kind, m in objs:
            if kind == "ref":
                f = flatten(spec, m, memo)
                for n, ds in f["decls"].items():
                    decls.setdefault(n, []).extend(ds)
                listed |= f["listed"]
                rcode |= f["required_code"]
            else:
                for n, d in m["props"].items():
                    decls.setdefault(n, []).append((d, name))
                inline_declared |= set(m["props"])
                inline_required |= set(m["required"])
        listed |= inline_required
        rcode |= inline_required & inline_declared
        r = {"decls": decls, "listed": listed, "required_code": rcode}
    r["required_spec"] = r["listed"] & set(r["decls"])
    memo[name] = r
    return r


def class_table(files, modfiles=None):
    """{class name: {attr: (annotation text, has default)}} from the AST of the generated models (no execution)."""
    import ast
    out = {}
    for path, b in files.items():
        if not (path.startswith("models/") and path.endswith(".py")) or path.endswith("__init__.py"):
            continue
        try:
            tree = ast.parse(b.decode("utf-8"))
        except SyntaxError as e:
            out["__syntax_error__:" + path] = {"error": (str(e), False)}
            continue
        for node in tree.body:
            if isinstance(node, ast.ClassDef):
                fields = {}
                for st in node.body:
                    if isinstance(st, ast.AnnAssign) and isinstance(st.target, ast.Name) and st.target.id != "additional_properties":
                        if st.target.id in fields:
                            out["__duplicate_attribute__:" + node.name + "." + st.target.id] = {}
                        fields[st.target.id] = (ast.unparse(st.annotation), st.value is not None)
                out[node.name] = fields
                if modfiles is not None:
                    modfiles[node.name] = path
    return out


def split_ann(a):
    """'Union[Unset, T]' -> (True, 'T'); 'T' -> (False, 'T')"""
    if a.startswith("Union[Unset, ") and a.endswith("]"):
        return True, a[len("Union[Unset, "):-1]
    return ("Unset" in a), a


SUBPROC = r'''
import sys, json, importlib, traceback
inp = json.load(sys.stdin)
sys.path.insert(0, inp["root"])
res = []
for job in inp["jobs"]:
    r = {"id": job["id"]}
    try:
        mod = importlib.import_module(job["pkg"] + ".models")
        cls = getattr(mod, job["cls"])
        outs = []
        for inst in job["instances"]:
            try:
                o = cls.from_dict(inst)
                back = o.to_dict()
                outs.append({"ok": back == inst, "back": back, "extra": sorted(o.additional_properties) if hasattr(o, "additional_properties") else []})
            except Exception as e:
                outs.append({"ok": False, "exc": type(e).__name__ + ": " + str(e)[:200]})
        r["instances"] = outs
        miss = {}
        for n, inst in job["missing"].items():
            try:
                cls.from_dict(inst)
                miss[n] = "accepted"
            except KeyError:
                miss[n] = "KeyError"
            except Exception as e:
                miss[n] = type(e).__name__
        r["missing"] = miss
        rej = []
        for q in job.get("reject", []):
            try:
                cls.from_dict(q["inst"])
                rej.append("accepted")
            except Exception as e:
                rej.append(type(e).__name__)
        r["reject"] = rej
    except Exception as e:
        r["fatal"] = traceback.format_exc()[-1500:]
    res.append(r)
sys.stdout.write("\n@@RESULT@@\n" + json.dumps(res))
'''


def stage_c_worker(spec):
    """Generates the document in both member orders (and without the composed models, for the parents), inspects the classes; returns a
    JSON-able observation. Runs in a worker process."""
    root = Path(tempfile.mkdtemp(prefix="opc_c15c_"))
    obs = {"spec": spec}
    try:
        from openapi_python_client.utils import ClassName
        tabs, diags, excs, modfiles, renamed = [], [], [], {}, []
        cls_of = {i: str(ClassName(nm(spec, i), "")) for i in list(spec["leaves"]) + list(spec["composed"])}
        inv = {c: i for i, c in cls_of.items()}
        docs = [doc_of(spec, False), doc_of(spec, True)]
        bare = copy.deepcopy(spec)
        bare["composed"] = {}
        bare["order"] = [n for n in spec["order"] if n in spec["leaves"]]
        docs.append(doc_of(bare))
        for i, doc in enumerate(docs):
            g = impl.Gen(doc, root=root, outname=f"pk{i}")
            excs.append(repr(g.exc) if g.exc is not None else None)
            diags.append([(h or "") + " " + (d or "") for _, h, d in g.diag()])
            mf = {}
            t = class_table(g.files(), mf)
            t = {inv.get(k, k): v for k, v in t.items()}
            for cid in list(t):
                if cid in cls_of:
                    ids = list(spec["leaves"][cid]["props"]) if cid in spec["leaves"] else list(flatten(spec, cid)["decls"])
                    _, dflt, clash = py_names(spec, ids)
                    back = map_attrs(spec, ids, list(t[cid]))
                    for a in t[cid]:
                        if a in back and back[a] not in clash and a != dflt[back[a]]:
                            renamed.append([i, cid, back[a], a, dflt[back[a]]])
                    t[cid] = {back.get(a, a): v for a, v in t[cid].items()}
            tabs.append(t)
            modfiles.update({inv.get(k, k): p for k, p in mf.items()})
        obs.update(tables=tabs, diags=diags, excs=excs, modfiles=modfiles, renamed=renamed)
        # round trips for the composed classes of order 0 and 1
        memo = {}
        jobs = []
        for cname in spec["composed"]:
            f = flatten(spec, cname, memo)
            inst_full, inst_min, roundtrip, rejects = {}, {}, True, []
            for n, ds in f["decls"].items():
                cur = fold_narrow([d for d, _ in ds])
                if cur[0] != "ok":
                    roundtrip = False          # no instance is known to be valid against all members; the conjunction checks below still apply
                    cur = ("ok", ds[0][0])
                inst_full[n] = sample(cur[1], len(n))
                if n in f["required_spec"]:
                    inst_min[n] = sample(cur[1], 1)
            # allOf is a conjunction: whatever type was chosen, a value that SOME enum member refuses must be refused by the composed class
            for n, ds in f["decls"].items():
                enums = [d for d, _ in ds if d["k"] in ("enum_s", "enum_i")]
                if len(ds) > 1 and enums:
                    allv = [v for d in enums for v in d["vals"]]
                    outside = [v for v in dict.fromkeys(allv) if not all(v in d["vals"] for d in enums)]
                    outside.append("zzz" if enums[0]["k"] == "enum_s" else 99)
                    for v in outside[:5]:
                        rejects.append({"attr": n, "value": v, "inst": {**inst_full, n: v}})
            wire = lambda inst: {pn(spec, k): v for k, v in inst.items()}       # the wire carries the JSON names
            missing = {n: wire({k: v for k, v in inst_full.items() if k != n}) for n in f["required_spec"]}
            rejects = [{**q, "inst": wire(q["inst"])} for q in rejects]
            inst_full, inst_min = wire(inst_full), wire(inst_min)
            for i in (0, 1):
                if cname in tabs[i]:
                    jobs.append({"id": f"{cname}/{i}", "pkg": f"pk{i}", "cls": cls_of[cname], "instances": [inst_full, inst_min] if roundtrip else [], "missing": missing if roundtrip else {},
                                 "reject": rejects})
        if jobs:
            script = root / "runner.py"
            script.write_text(SUBPROC)
            env = {k: v for k, v in os.environ.items() if k != "PYTHONPATH"}
            env["PYTHONHASHSEED"] = "0"
            try:
                r = subprocess.run([PY, "-I", str(script)], input=json.dumps({"root": str(root), "jobs": jobs}), capture_output=True, text=True, timeout=120, env=env)
                obs["run"] = json.loads(r.stdout.split("\n@@RESULT@@\n", 1)[1]) if "@@RESULT@@" in r.stdout else {"fatal": (r.stderr or r.stdout)[-1500:]}
            except subprocess.TimeoutExpired:
                obs["run"] = {"fatal": "timeout"}
            obs["jobs"] = jobs
        else:
            obs["run"], obs["jobs"] = [], []
    except Exception as e:  # noqa
        import traceback
        obs["worker_error"] = traceback.format_exc()[-1500:]
    finally:
        shutil.rmtree(root, ignore_errors=True)
    return obs


def single_ref_own(spec, cname):
    """Exact input class of the known finding allof_single_ref_drops_own, for cname or any composed schema it references."""
    c = spec["composed"].get(cname)
    if c is None:
        return False
    if len(c["members"]) == 1 and c["members"][0][0] == "ref" and c["own"] is not None:
        return True
    return any(k == "ref" and single_ref_own(spec, m) for k, m in c["members"])


def same_origin_enums(dso):
    """two enum declarations written inside one composed schema get one class name: the parser reports the clash as a diagnostic"""
    def en(d):
        return d["k"] in ("enum_s", "enum_i") or (d["k"] == "list" and en(d["item"]))
    seen = {}
    for d, org in dso:
        if en(d):
            if org in seen:
                return True
            seen[org] = 1
    return False


def enum_name_clash(spec, f):
    """two enum declarations written inside one schema object get ONE class name when the PascalCase images of their property names
    coincide (same property twice, or twins like fooBar / foo_bar): the parser reports the clash as a diagnostic"""
    from openapi_python_client.utils import pascal_case
    def en(d):
        return d["k"] in ("enum_s", "enum_i") or (d["k"] == "list" and en(d["item"]))
    seen = set()
    for n, dso in f["decls"].items():
        for d, org in dso:
            if en(d):
                key = (org, pascal_case(pn(spec, n)))
                if key in seen:
                    return True
                seen.add(key)
    return False


def stale_enum_default(spec):
    """Exact input class of the known finding merge_enum_default_stale_class: some property of some composed schema has two enum
    declarations (different classes) where the wider one carries a default and the other is a proper subset."""
    memo = {}
    for cname in spec["composed"]:
        for n, dso in flatten(spec, cname, memo)["decls"].items():
            for d1, o1 in dso:
                for d2, o2 in dso:
                    if d1["k"] == d2["k"] == "enum_s" or d1["k"] == d2["k"] == "enum_i":
                        if "default" in d1 and set(d2["vals"]) < set(d1["vals"]):
                            return True
    return False


def list_mutation_victims(spec):
    """Exact input class of the known finding allof_parent_list_mutated: {(class, attr)} whose list property OBJECT is shared (through
    $ref chains, identified by the schema that textually declares it) with another composed schema that merges a list declaration with
    a different item type into it - merge_properties assigns prop1.inner_property in place."""
    memo, out = {}, set()
    models = list(spec["leaves"]) + list(spec["composed"])
    for x in spec["composed"]:
        for n, dso in flatten(spec, x, memo)["decls"].items():
            lists = [(d, o) for d, o in dso if d["k"] == "list"]
            if len(lists) < 2 or all(d["item"] == lists[0][0]["item"] for d, _ in lists):
                continue
            origins = {o for _, o in lists}
            for k in models:
                if k != x and any(d["k"] == "list" and o in origins for d, o in flatten(spec, k, memo)["decls"].get(n, [])):
                    out.add((k, n))
    return out


def three_way(ds):
    """Exact input class of the known finding merge_three_way_order: >= 3 declarations of one property among which a pair the pairwise
    rules reject (integer enum with number; string enum with date / date-time) is bridged by the base type (integer; string)."""
    if len(ds) < 3:
        return False
    if all(d["k"] == "list" for d in ds):
        return three_way([d["item"] for d in ds])
    ks = {d["k"] for d in ds}
    return {"enum_i", "number", "int"} <= ks or ({"enum_s", "str"} <= ks and bool(ks & {"date", "datetime"}))


def judge_doc(run, obs, guard_queries):
    spec = obs["spec"]
    case = {"type": "doc", "spec": spec}
    if "worker_error" in obs:
        run.violation("harness-error", {"replay_input": case, "error": obs["worker_error"]})
        return
    if any(obs["excs"]):
        run.violation("oracle", {"replay_input": case, "note": "generate raised", "error": obs["excs"]})
        return
    t0, t1, tb = obs["tables"]
    for t in (t0, t1, tb):
        for k in t:
            if k.startswith("__syntax_error__"):
                run.violation("oracle", {"replay_input": case, "note": "generated model module does not parse", "file": k, "error": t[k].get("error", ("",))[0]})
                return
            if k.startswith("__duplicate_attribute__"):
                run.violation("oracle", {"replay_input": case, "note": "two properties of one class share a python attribute name", "attribute": k.split(":", 1)[1]})
                return
    runres = {r["id"]: r for r in obs["run"]} if isinstance(obs["run"], list) else None
    if runres is None:
        run.violation("oracle", {"replay_input": case, "note": "composed classes cannot be imported / executed in a fresh interpreter", "error": obs["run"]})
        return
    memo = {}
    # ---- a class whose own property names do not collide must keep the default python names, whoever composes it
    for i, cid, n, actual, default in obs.get("renamed", []):
        users = [x for x in spec["composed"] if x != cid and n in clash_ids(spec, x, memo)
                 and {o for _, o in flatten(spec, x, memo)["decls"].get(n, [])} & {o for _, o in flatten(spec, cid, memo)["decls"].get(n, [])}]
        what = (f"class {nm(spec, cid)} has no colliding names, yet its property {pn(spec, n)!r} is generated as attribute {actual!r} instead of {default!r}: "
                f"_resolve_naming_conflict renamed the shared property object while processing {nm(spec, users[0]) if users else '?'}")
        if not (users and run.known_finding("allof_parent_attr_renamed", what)):
            run.violation("oracle", {"replay_input": case, "note": "a class without colliding property names carries a raw-name fallback attribute", "class": cid, "attr": n,
                                     "actual": actual, "default": default, "document": i})
    # ---- member classes must not be changed by being composed
    mutated_leaves = set()
    victims = list_mutation_victims(spec)
    for pname, o in spec["leaves"].items():
        for i, t in enumerate((t0, t1)):
            if t.get(pname) != tb.get(pname):
                diff = sorted(n for n in set(t.get(pname) or {}) | set(tb.get(pname) or {}) if (t.get(pname) or {}).get(n) != (tb.get(pname) or {}).get(n))
                mutated = bool(diff) and all((pname, n) in victims for n in diff)
                what = f"member schema {pname} alone has {tb.get(pname)}, but {t.get(pname)} once a composed schema narrows its list property (prop1.inner_property is assigned in place)"
                if mutated:
                    mutated_leaves.add(pname)
                if not (mutated and run.known_finding("allof_parent_list_mutated", what)):
                    run.violation("oracle", {"replay_input": case, "note": "a member class changes when another schema composes it with allOf", "class": pname,
                                             "alone": tb.get(pname), "composed": t.get(pname)})
    # ---- composed classes
    for cname, c in spec["composed"].items():
        f = flatten(spec, cname, memo)
        ex0, ex1 = cname in t0, cname in t1
        decls = {n: [d for d, _ in ds] for n, ds in f["decls"].items()}
        shared = {n: ds for n, ds in decls.items() if len(ds) > 1}
        run.note_case({"doc": spec, "class": cname}, nontrivial=bool(shared), kind="composed:" + ("shared" if shared else "disjoint") + (":chain" if any(k == "ref" and m in spec["composed"] for k, m in c["members"]) else ""))
        refs_ok = all(m in t0 and m in t1 for k, m in c["members"] if k == "ref")
        if single_ref_own(spec, cname):
            a_ok = all(cname in t and set(t[cname]) == set(decls) for t in (t0, t1))
            if not a_ok:
                if not run.known_finding("allof_single_ref_drops_own", f"{cname} = allOf[one $ref] + own properties {sorted(decls)}: generated as an alias of the referenced class, own properties dropped, no diagnostic"):
                    run.violation("oracle", {"replay_input": case, "note": "allOf with a single $ref and own properties loses the own properties", "class": cname})
            continue      # the parser never saw the dropped declarations: the spec view of this class (and of its users) does not apply
        if ex0 != ex1:
            if any(three_way(ds) for ds in decls.values()) and run.known_finding(
                    "merge_three_way_order", f"{cname}: allOf members in one order give a class, reversed a diagnostic (pairwise merge is not associative): {[(n, [d['k'] for d in ds]) for n, ds in shared.items()]}"):
                continue
            if not refs_ok:
                continue   # a member itself is order-dependent: reported at that member
            run.violation("oracle", {"replay_input": case, "note": "one member / declaration order yields a class, the reverse order a diagnostic", "names": spec.get("names"), "class": cname, "diags": obs["diags"][:2]})
            continue
        if not ex0:
            if not (obs["diags"][0] and obs["diags"][1]):
                run.violation("oracle", {"replay_input": case, "note": "composed class missing without a diagnostic", "class": cname})
            elif refs_ok and not enum_name_clash(spec, f) and not any(same_origin_enums(dso) or (len(dso) > 1 and any("default" in d for d, _ in dso)) for dso in f["decls"].values()) and all(fold_narrow(ds)[0] != "err" and fold_narrow(ds[::-1])[0] != "err" for ds in decls.values()):
                run.violation("oracle", {"replay_input": case, "note": "all declarations are compatible (spec), yet the composed class was rejected", "class": cname, "diags": obs["diags"][0][:3]})
            continue
        a0, a1 = t0[cname], t1[cname]
        # (1) every property of every member is an attribute
        for i, a in enumerate((a0, a1)):
            if set(a) != set(decls):
                run.violation("oracle", {"replay_input": case, "note": "attributes of the composed class are not the union of the members' properties", "class": cname, "order": i,
                                         "attributes": sorted(a), "expected": sorted(decls)})
        for n in sorted(set(a0) & set(a1) & set(decls)):
            (opt0, base0), (opt1, base1) = split_ann(a0[n][0]), split_ann(a1[n][0])
            # (3) both orders: same type
            if base0 != base1 and (cname, n) in victims and run.known_finding(
                    "allof_parent_list_mutated", f"{cname}.{n}: {a0[n][0]} vs {a1[n][0]}: its list property object is shared with another composed schema that narrows it in place"):
                continue
            if base0 != base1:
                guard_queries.append({"case": case, "class": cname, "attr": n, "ann": [a0[n][0], a1[n][0]], "decls": f["decls"][n]})
            # (2) required iff any member requires it
            for i, (opt, has_default) in enumerate(((opt0, a0[n][1]), (opt1, a1[n][1]))):
                want = n in f["required_spec"]
                if (not opt) != want:
                    what = (f"{cname}.{n}: a member's `required` lists it but the declaration comes from another member; the composed attribute stays optional "
                            f"({a0[n][0]})")
                    if want and n not in f["required_code"] and run.known_finding("allof_required_unapplied", what):
                        continue
                    run.violation("oracle", {"replay_input": case, "note": "required flag is not the OR over the members", "class": cname, "attr": n, "order": i,
                                             "annotation": (a0, a1)[i][n][0], "expected_required": want})
                elif want and has_default and not any("default" in d for d in decls[n]):
                    run.violation("oracle", {"replay_input": case, "note": "required attribute without declared default is not a mandatory constructor argument", "class": cname, "attr": n})
                elif not want and not has_default:
                    run.violation("oracle", {"replay_input": case, "note": "optional attribute has no default", "class": cname, "attr": n})
            # (5) narrowest type, where the annotation text is predictable
            r_f, r_b = fold_narrow(decls[n]), fold_narrow(decls[n][::-1])
            if r_f[0] == "ok" and r_b[0] == "ok" and ann_of(r_f[1]) and ann_of(r_f[1]) == ann_of(r_b[1]):
                for i, b in enumerate((base0, base1)):
                    if b != ann_of(r_f[1]) and (cname, n) in victims and run.known_finding(
                            "allof_parent_list_mutated", f"{cname}.{n}: {b} instead of {ann_of(r_f[1])}: list property object shared with another composed schema that narrows it in place"):
                        continue
                    if b != ann_of(r_f[1]):
                        run.violation("oracle", {"replay_input": case, "note": "type of the composed attribute is not the narrowest common type of the declarations", "class": cname, "attr": n,
                                                 "order": i, "annotation": b, "expected": ann_of(r_f[1]), "declarations": [d["k"] for d in decls[n]]})
        # (4) round trip of instances valid against all members
        for i in (0, 1):
            r = runres.get(f"{cname}/{i}")
            if r is None:
                continue
            if "fatal" in r:
                if "NameError" in r["fatal"] and stale_enum_default(spec) and run.known_finding(
                        "merge_enum_default_stale_class", "models package fails to import: " + r["fatal"].strip().split("\n")[-3].strip() + " -> " + r["fatal"].strip().split("\n")[-1][:80]):
                    continue
                if "NameError" in r["fatal"] and any("/" + obs.get("modfiles", {}).get(p, "?") in r["fatal"] for p in mutated_leaves | {k for k, _ in victims}) and run.known_finding(
                        "allof_parent_list_mutated", "member class mutated after its imports were computed: " + r["fatal"].strip().split("\n")[-1][:120]):
                    continue
                run.violation("oracle", {"replay_input": case, "note": "composed class cannot be imported", "class": cname, "error": r["fatal"][-600:]})
                continue
            job = next(j for j in obs["jobs"] if j["id"] == f"{cname}/{i}")
            run.extra["stage_c"]["composed_classes_executed"] += 1
            run.extra["stage_c"]["roundtrip_instances"] += len(r["instances"])
            for inst, out in zip(job["instances"], r["instances"]):
                if not out.get("ok") or out.get("extra"):
                    run.violation("oracle", {"replay_input": case, "note": "instance valid against all members does not round-trip through the composed class (or lands in additional_properties)",
                                             "class": cname, "order": i, "instance": inst, "result": out})
            for q, verdict in zip(job.get("reject", []), r.get("reject", [])):
                if verdict == "accepted":
                    run.violation("oracle", {"replay_input": case, "note": "a value that a member's enum refuses is accepted by the composed class (not the narrowest / not a conjunction)",
                                             "class": cname, "attr": q["attr"], "value": q["value"], "order": i, "annotation": (a0, a1)[i].get(q["attr"], ("?",))[0]})
            for n, verdict in r["missing"].items():
                opt = split_ann((a0, a1)[i].get(n, ("Union[Unset, ?]", True))[0])[0]
                if verdict == "accepted" and not opt:
                    run.violation("oracle", {"replay_input": case, "note": "instance lacking a required property is accepted by from_dict", "class": cname, "attr": n})


def decl_to_prop(d, origin):
    return build_prop(schema_of(d), False, False, name="p", parent="Org" + origin)


def run(run, tier, replay=None):
    rng = run.rng
    enc = Enc()
    run.rule = ("(1) merge: every ordered pair of %d property variants covering the 16 kinds (payload variants: enum subset / superset / disjoint / equal-values-other-class, "
                "str and int enums, $ref'd enums, literal enums, const values, list item kinds incl. nested, unions, two models) x required x default present/absent (two defaults) "
                "through the real property_from_data + merge_properties, plus a random stream with hostile defaults (inf, nan, 10**310); one case = one merge call; non-trivial = "
                "the two declarations differ; distinct by hash of the case. (2) collect: random allOf lists (referenced leaf and composed parents, inline members, own properties, "
                "required lists) through the real _process_properties. (3) end to end: exhaustive two-member documents over %d declaration shapes (ref/ref and inline/inline) and random "
                "documents with chains and parents declared after children, each generated in both member orders and executed in a fresh interpreter; one case = one composed class; "
                "non-trivial = some property is declared by more than one member." % (len(VARIANTS), 22))
    run.assumptions += ["oracles of Merge.merge (float(), isoparse, UUID) are tabulated from the real functions over the strings of the run",
                        "union member identity is abstracted to equality classes of inner_properties, model identity to the class name",
                        "stage C spec (narrow / flatten in c15.py) covers str, int, number, bool, date, date-time, uuid, any, enums, lists, model refs"]
    rp = None
    if replay:
        rp = [v.get("replay_input") for v in json.load(open(replay))["violations"] if v.get("replay_input")]

    mcases = matrix_cases(rng, tier) if rp is None else [r["case"] for r in rp if r["type"] == "merge"]
    ccases = (twin_collect_docs() + [collect_doc(rng) for _ in range(400 if tier == "quick" else 6000)]) if rp is None else [(r["components"], r["child"]) for r in rp if r["type"] == "collect"]
    # ---------------- stage C end to end: documents are generated / executed in worker processes while stage B runs
    if rp is None:
        specs = fixed_specs() + exhaustive_pair_specs(both_modes=tier != "quick")
        specs += [rand_doc_spec(rng, tier) for _ in range(100 if tier == "quick" else 1500)]
        run.exhaustive = True
    else:
        specs = [r["spec"] for r in rp if r["type"] == "doc"]
    from concurrent.futures import ProcessPoolExecutor
    import multiprocessing
    pool = ProcessPoolExecutor(max_workers=12, mp_context=multiprocessing.get_context("fork"))
    futures = [pool.submit(stage_c_worker, sp) for sp in specs]

    # ---------------- stage B.1 + direct oracle on merge_properties
    terms, evs, infos, sym_pending = [], [], [], []
    for c in mcases:
        r = merge_case(enc, c)
        if r is None:
            continue
        term, ev, info, res = r
        terms.append(term)
        evs.append(ev)
        infos.append((c, info))
        run.note_case({"merge": c, "impl": info["impl"]}, nontrivial=c["v1"] != c["v2"], kind="merge:" + info["impl"].split(":")[0])
        # direct oracle: required-or, member-order symmetry of the type
        q1 = mk_variant(c["v1"], bool(c["r1"]), c["d1"], c.get("ds1"), c.get("ex1"), name=c.get("name", "p"))
        q2 = mk_variant(c["v2"], bool(c["r2"]), c["d2"], c.get("ds2"), c.get("ex2"), name=c.get("name", "p"))
        back = real_merge(q2, q1)
        if res[0] == "crash":
            numeric = any(t in res[1] for t in ("cannot convert float", "too large to convert"))
            if not (numeric and run.known_finding("merge_default_crash", f"merge({info['p1']}, {info['p2']}) raises {res[1]} while re-converting a member's default")):
                run.violation("oracle", {"replay_input": {"type": "merge", "case": c}, **info, "note": "merge_properties raised"})
        if res[0] == "ok":
            if res[1].required != bool(c["r1"] or c["r2"]):
                run.violation("oracle", {"replay_input": {"type": "merge", "case": c}, **info, "note": "merged property is not required although a member requires it (or vice versa)"})
        def sig(p):
            return (type(p).__name__, p.get_type_string(no_optional=True), sorted(map(str, p.values.items() if isinstance(p.values, dict) else p.values)) if hasattr(p, "values") else None)
        no_defaults = c["d1"] is None and c["d2"] is None
        if res[0] == "ok" and back[0] == "ok":
            if sig(res[1]) != sig(back[1]):
                sym_pending.append((c, info, sig(res[1]), sig(back[1])))
        elif no_defaults and {res[0], back[0]} == {"ok", "err"}:
            run.violation("oracle", {"replay_input": {"type": "merge", "case": c}, **info, "reverse": back[0], "note": "one order merges, the reverse order is a diagnostic (no defaults involved)"})

    # ---------------- stage B.2 collect
    cterms, cevs, cinfos = [], [], []
    for comps, child in ccases:
        term, ev, info = collect_case(enc, comps, child)
        rin = {"type": "collect", "components": comps, "child": child}
        if term is None:
            run.violation("oracle", {"replay_input": rin, "note": "_process_properties raised", "impl": info["impl"]})
            continue
        cterms.append(term)
        cevs.append(ev)
        cinfos.append((rin, info))
        run.note_case({"collect": rin, "impl": info["impl"]}, nontrivial=bool(info.get("shared")), kind="collect:" + ("error" if not isinstance(info["impl"], dict) else "ok"))

    hdr = enc.header() + COLLECT_HDR
    bad = run_cases(hdr, terms)
    cbad = run_cases(hdr, cterms, shard=100)
    run.corr = {"cases": len(terms) + len(cterms), "mismatches": len(bad) + len(cbad),
                "what": "real merge_properties(p1, p2) == Merge.merge (constructor MOk/MErr/MCrash, kind, required, default code+raw value, description/example presence, enum member table / "
                        "literal set / list item / const / union / model identity) on %d cases; real _process_properties == Merge.collect and ProcProps.process (names in order, python names incl. the raw-name fallback after merges, required split, merged properties) on %d allOf lists"
                        % (len(terms), len(cterms))}
    for i in bad[:6]:
        c, info = infos[i]
        run.violation("correspondence", {"replay_input": {"type": "merge", "case": c}, **info, "model": coq_eval(hdr, evs[i])[-500:],
                                         "note": "merge_properties no longer computes Merge.merge (for which required-or / narrowest kind / order symmetry are proved)"})
    for i in cbad[:4]:
        rin, info = cinfos[i]
        run.violation("correspondence", {"replay_input": rin, "impl": info["impl"], "model": coq_eval(hdr, cevs[i])[-700:] if cevs[i] != "tt" else "a member failed: child must fail",
                                         "note": "_process_properties no longer collects like Merge.collect / ProcProps.process (names, python names after merges, required split, merged properties)"})
    # classify order-dependent merges by the Coq guard g_merge
    if sym_pending:
        gt = []
        for c, info, s1, s2 in sym_pending:
            p1 = mk_variant(c["v1"], bool(c["r1"]), c["d1"], name=c.get("name", "p"))
            p2 = mk_variant(c["v2"], bool(c["r2"]), c["d2"], name=c.get("name", "p"))
            gt.append(f"g_merge {enc.prop(p1)} {enc.prop(p2)}")
        outside = set(run_cases(enc.header(), gt))
        for k, (c, info, s1, s2) in enumerate(sym_pending):
            what = f"merge({info['p1']}, {info['p2']}) keeps the first declaration: {s1[1]} vs reversed {s2[1]}, no diagnostic"
            if not (k in outside and run.known_finding("merge_first_wins", what)):
                run.violation("oracle", {"replay_input": {"type": "merge", "case": c}, **info, "types": [s1, s2], "guard_g_merge": k not in outside,
                                         "note": "member order changes the merged type" + ("" if k in outside else " inside the proved domain (g_merge = true)")})

    # ---------------- stage C verdicts
    guard_queries = []
    run.extra["stage_c"] = {"documents": len(specs), "generations": 3 * len(specs), "roundtrip_instances": 0, "composed_classes_executed": 0}
    try:
        for fu in futures:
            judge_doc(run, fu.result(), guard_queries)
    finally:
        pool.shutdown(wait=True, cancel_futures=True)
    if guard_queries:
        gt, owner = [], []
        for qi, q in enumerate(guard_queries):
            ds = q["decls"]
            for i in range(len(ds)):
                for j in range(i + 1, len(ds)):
                    p1, p2 = decl_to_prop(ds[i][0], ds[i][1]), decl_to_prop(ds[j][0], ds[j][1])
                    if p1 is not None and p2 is not None:
                        gt.append(f"g_merge {enc.prop(p1)} {enc.prop(p2)}")
                        owner.append(qi)
        outside = {owner[k] for k in run_cases(enc.header(), gt)} if gt else set()
        for qi, q in enumerate(guard_queries):
            what = f"{q['class']}.{q['attr']}: {q['ann'][0]} in one member order, {q['ann'][1]} in the other, no diagnostic (declarations {[d['k'] + ':' + str(d.get('to', d.get('vals', ''))) for d, _ in q['decls']]})"
            if not (qi in outside and run.known_finding("merge_first_wins", what)):
                run.violation("oracle", {"replay_input": q["case"], "class": q["class"], "attr": q["attr"], "annotations": q["ann"], "guard_g_merge": qi not in outside,
                                         "note": "member order changes the attribute type of the composed class"})
