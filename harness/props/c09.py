"""C09 — derived names are valid identifiers and never merge silently.
Stage B: utils name functions vs Names.v (vm_compute), on random / special / boundary strings.
Stage C: isidentifier / iskeyword on every derived name; name sets per scope through the real parser."""
import keyword, importlib
from lib.common import cstr, cbool, run_cases, coq_eval
from lib import strings as S
from lib import impl

HDR = "Require Import OPC.gen.GenTables OPC.Uni OPC.Names.\nOpen Scope N_scope.\nDefinition fs (s : str) : str := map (fun c => if c =? 962 then 963 else c) s.\nDefinition eqf (a b : str) := str_eqb (fs a) (fs b)."

PREFIXES = ["field_", "tag", "", "x", "_", "1"]


def gen_strings(run, tier):
    rng = run.rng
    n = 2500 if tier == "quick" else 40000
    out = list(S.special_names())
    for i in range(n):
        r = rng.random()
        if r < 0.4:
            out.append(S.rand_str(rng, S.ORD, 10))
        elif r < 0.75:
            out.append(S.rand_str(rng, S.HOSTILE, 8))
        else:
            out.append(S.rand_str(rng, None, 5))
    bp = S.boundary_codepoints()
    if tier == "quick":
        bp = rng.sample(bp, 600)
    for c in bp:
        ch = chr(c)
        out += [ch + "ab", "a" + ch + "b", "ab" + ch] if tier == "thorough" else [rng.choice([ch + "ab", "a" + ch + "b", "ab" + ch, ch, "A" + ch, ch + "A"])]
    return out


def run(run, tier, replay=None):
    from openapi_python_client import utils
    strs = gen_strings(run, tier)
    if replay:
        import json
        strs = [v["input"] for v in json.load(open(replay))["violations"] if "input" in v]
    run.rule = ("strings from 3 alphabets (ordinary / hostile / all planes), keywords+builtins with case variants, and every code point where a "
                "character predicate or case map of the interpreter changes value, in leading/inner/trailing position; a case is one (function, string, prefix) "
                "evaluation; non-trivial = the sanitized string is non-empty; distinct by hash of (function, string, prefix). Name sets: random sets of 2-5 names "
                "sharing a snake_case image, placed as model properties / parameters / enum values / schemas / operationIds through the real parser")
    terms, meta = [], []
    for s in strs:
        pfx = "field_" if run.rng.random() < 0.7 else run.rng.choice(PREFIXES)
        cases = [
            ("PythonIdentifier", lambda: str(utils.PythonIdentifier(s, pfx)), f"python_identifier {cstr(s)} {cstr(pfx)} false"),
            ("PythonIdentifier/skip", lambda: str(utils.PythonIdentifier(s, pfx, skip_snake_case=True)), f"python_identifier {cstr(s)} {cstr(pfx)} true"),
            ("ClassName", lambda: str(utils.ClassName(s, pfx)), f"class_name {cstr(s)} {cstr(pfx)}"),
            ("snake_case", lambda: utils.snake_case(s), f"snake_case {cstr(s)}"),
            ("pascal_case", lambda: utils.pascal_case(s), f"pascal_case {cstr(s)}"),
            ("kebab_case", lambda: utils.kebab_case(s), f"kebab_case {cstr(s)}"),
            ("remove_string_escapes", lambda: utils.remove_string_escapes(s), f"escape_dq {cstr(s)}"),
        ]
        for fn, f, term in cases:
            got = f()
            terms.append(f"eqf ({term}) {cstr(got)}")
            meta.append((fn, s, pfx, got))
            run.note_case({"fn": fn, "input": s, "prefix": pfx, "impl": got}, nontrivial=bool(utils.sanitize(s)), kind=fn)
            # ---- stage C oracle, classified by the extracted guard (evaluated below for failures only)
            if fn in ("PythonIdentifier", "ClassName"):
                ok = got.isidentifier() and not keyword.iskeyword(got)
                if not ok:
                    meta[-1] = (fn, s, pfx, got, "oracle-fail")
    bad = run_cases(HDR, terms)
    run.corr = {"cases": len(terms), "mismatches": len(bad), "what": "utils.{PythonIdentifier,ClassName,snake_case,pascal_case,kebab_case,remove_string_escapes} == Names.v (final sigma folded)"}
    for i in bad[:10]:
        fn, s, pfx, got = meta[i][:4]
        model = coq_eval(HDR, terms[i].split("(", 1)[1].rsplit(")", 1)[0])
        run.violation("correspondence", {"fn": fn, "input": s, "prefix": pfx, "impl": got, "model": model[-300:],
                                         "note": "utils.%s no longer computes the function proved valid in NamesThm.v" % fn})
    # classify oracle failures by the Coq guard
    fails = [m for m in meta if len(m) == 5]
    gterms = []
    for fn, s, pfx, got, _ in fails:
        if fn == "PythonIdentifier":
            gterms.append(f"good_prefix {cstr(pfx)} && g_xid {cstr(s)}")
        else:
            gterms.append(f"(str_eqb {cstr(pfx)} {cstr('field_')}) && g_xid {cstr(s)}")
    outside = set(run_cases(HDR, gterms)) if gterms else set()
    for k, (fn, s, pfx, got, _) in enumerate(fails):
        if k in outside:
            # outside the proved domain: good_prefix false is a configuration matter (not document text) -> not a finding; g_xid false -> finding xid_gap
            if pfx in ("field_", "tag") or fn == "ClassName" and pfx == "field_":
                if not run.known_finding("xid_gap", f"{fn}({s!r}) = {got!r} is not an identifier (\\w character outside XID_Continue survives sanitize)"):
                    run.violation("oracle", {"fn": fn, "input": s, "prefix": pfx, "impl": got, "note": "not an identifier; guard g_xid false but finding not listed"})
        else:
            run.violation("oracle", {"fn": fn, "input": s, "prefix": pfx, "impl": got, "note": "inside the proved domain (guard true) yet not a valid non-keyword identifier"})
    scopes(run, tier)


# ------------------------------------------------------------------ name sets per scope through the parser
def _collide_sets(rng, n):
    """Name sets whose members share (or nearly share) a snake_case image."""
    base = ["item id", "http response", "a b", "x", "user name", "v 1", "class", "self", "client", "url", "id"]
    out = []
    for _ in range(n):
        w = rng.choice(base).split(" ")
        variants = set()
        for _ in range(rng.randint(2, 4)):
            sep = rng.choice(["_", "-", " ", ".", "", "__"])
            ws = [rng.choice([x, x.upper(), x.capitalize()]) for x in w]
            v = sep.join(ws)
            if rng.random() < 0.3:
                v = rng.choice(["_", "", "$", " "]) + v
            if rng.random() < 0.3:
                v = v + rng.choice(["_", "$", "!", " "])
            variants.add(v)
        if rng.random() < 0.5:
            variants.add(S.rand_str(rng, S.ORD, 6))
        out.append(sorted(v for v in variants if v))
    return out


def scopes(run, tier):
    import ast
    rng = run.rng
    n = 60 if tier == "quick" else 600
    sets = [["a-b", "a_b"], ["Self", "self!", "$Self"], ["itemId", "item_id", "ItemID"], ["client", "Client"], ["url", "URL", "Url"], ["a", "A"], ["x y", "x_y", "x-y", "x.y"]] + _collide_sets(rng, n)
    for names in sets:
        if len(names) < 2:
            continue
        # (1) model attributes
        props = {nm: {"type": "string"} for nm in names}
        # (2) parameters in mixed locations
        params = []
        for nm in names:
            loc = rng.choice(["query", "header", "cookie"])
            params.append({"name": nm, "in": loc, "required": True, "schema": {"type": "string"}})
        doc = impl.base_doc(
            components={"schemas": {"M": {"type": "object", "properties": props}}},
            paths={"/p": {"get": {"operationId": "op", "parameters": params, "responses": {"200": {"description": "ok"}}}}},
        )
        data, cfg = impl.parse_doc(doc)
        case = {"scope_names": names}
        run.note_case(case, kind="scope-set")
        if not hasattr(data, "models"):
            run.violation("oracle", {"names": names, "note": "document rejected", "error": str(data)})
            continue
        diags = [str(e.detail) + str(getattr(e, "header", "")) for e in data.errors] + [str(e.detail) for c in data.endpoint_collections_by_tag.values() for e in c.parse_errors]
        models = list(data.models)
        if models:
            m = models[0]
            if m.required_properties is None or m.optional_properties is None:
                run.violation("oracle", {"names": names, "note": "model left unprocessed (required_properties None) in final output", "diags": diags})
                continue
            pn = [str(p.python_name) for p in list(m.required_properties) + list(m.optional_properties)]
            _judge_scope(run, "model attributes", names, pn, diags)
        elif not diags:
            run.violation("oracle", {"names": names, "note": "model dropped without diagnostic"})
        eps = [e for c in data.endpoint_collections_by_tag.values() for e in c.endpoints]
        if eps:
            e = eps[0]
            pn = [str(p.python_name) for _, p in e.iter_all_parameters()]
            _judge_scope(run, "operation parameters", names, pn, diags, reserved=("client", "url"))
        elif not diags:
            run.violation("oracle", {"names": names, "note": "endpoint dropped without diagnostic"})


def _judge_scope(run, scope, names, pn, diags, reserved=()):
    dup = len(set(pn)) != len(pn)
    invalid = [x for x in pn if not x.isidentifier() or keyword.iskeyword(x) or x in reserved]
    from openapi_python_client.utils import PythonIdentifier
    default = {str(PythonIdentifier(n, "field_")) for n in names}
    dups = {x for x in pn if pn.count(x) > 1}
    # a duplicate is attributable to the raw-name fallback only when the duplicated python name is not a default (snake-cased) name
    if dup and scope == "model attributes" and not (dups & default) and run.known_finding("attr_rename_unchecked", f"{scope}: names {names!r} -> python names {pn!r}: a raw-name fallback rename is not re-checked against third parties"):
        dup = False
    if dup:
        run.violation("oracle", {"scope": scope, "names": names, "python_names": pn, "note": "two document names silently share one python name"})
    if invalid:
        # raw-name fallback keeps delimiters: known finding when every invalid name arises from skip_snake_case on a delimiter-carrying or xid-gap name
        if all(any(ch in x for ch in "-. ") or not x.isidentifier() for x in invalid):
            if run.known_finding("raw_fallback", f"{scope}: names {names!r} collide after snake_case; raw-name fallback yields {invalid!r} (not identifiers)"):
                return
        run.violation("oracle", {"scope": scope, "names": names, "python_names": pn, "invalid": invalid})
