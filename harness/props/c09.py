"""C09 — derived names are valid identifiers and never merge silently.
Stage B: utils name functions vs Names.v (vm_compute), on random / special / boundary strings; per-scope collision logic
(model attributes, endpoint parameters, class names) through the real parser functions vs Scopes.v.
Stage C: isidentifier / iskeyword on every derived name; name sets per scope through the real parser."""
import keyword, importlib
from lib.common import cstr, cbool, run_cases, coq_eval
from lib import strings as S
from lib import impl

HDR = "Require Import OPC.gen.GenTables OPC.Uni OPC.Names.\nOpen Scope N_scope.\nDefinition fs (s : str) : str := map (fun c => if c =? 962 then 963 else c) s.\nDefinition eqf (a b : str) := str_eqb (fs a) (fs b)."

PREFIXES = ["field_", "tag", "", "x", "_", "1"]


def gen_strings(run, tier):
    rng = run.rng
    n = 2500 if tier == "quick" else 40000
    out = list(S.special_names())
    for i in range(n):
        r = rng.random()
        if r < 0.4:
            out.append(S.rand_str(rng, S.ORD, 10))
        elif r < 0.75:
            out.append(S.rand_str(rng, S.HOSTILE, 8))
        else:
            out.append(S.rand_str(rng, None, 5))
    bp = S.boundary_codepoints()
    if tier == "quick":
        bp = rng.sample(bp, 600)
    for c in bp:
        ch = chr(c)
        out += [ch + "ab", "a" + ch + "b", "ab" + ch] if tier == "thorough" else [rng.choice([ch + "ab", "a" + ch + "b", "ab" + ch, ch, "A" + ch, ch + "A"])]
    return out


def run(run, tier, replay=None):
    from openapi_python_client import utils
    strs = gen_strings(run, tier)
    scope_replay = pp_replay = None
    if replay:
        import json
        rv = json.load(open(replay))["violations"]
        strs = [v["input"] for v in rv if "input" in v]
        scope_replay = [v["scope_case"] for v in rv if "scope_case" in v]
        pp_replay = [v["pp_case"] for v in rv if "pp_case" in v]
    run.rule = ("strings from 3 alphabets (ordinary / hostile / all planes), keywords+builtins with case variants, and every code point where a "
                "character predicate or case map of the interpreter changes value, in leading/inner/trailing position; a case is one (function, string, prefix) "
                "evaluation; non-trivial = the sanitized string is non-empty; distinct by hash of (function, string, prefix). Name sets: random sets of 2-5 names "
                "sharing a snake_case image, placed as model properties / parameters / enum values / schemas / operationIds through the real parser. "
                "Scope lists (stage B for Scopes.v): 2-6 distinct names (parameters: (location, name) pairs with distinct keys) built from case / delimiter / affix variants of one base word, "
                "reserved words (self, class, client, url), the raw-name fallback or the <name>_<location> form of an earlier member, plus random ordinary / hostile strings; a case is one list "
                "through the real function; kind .../no-conflict = the observed python names are just the default names; distinct by hash of (scope, list). "
                "allOf documents (stage B for ProcProps.v): 1-3 leaf object schemas and a composed schema Z = allOf of 2-4 members ($ref'd or inline, 1-4 properties each) + own properties, names drawn from 1-3 families "
                "whose members collide after snake-casing (toDo / to_do / ToDo / to-do / toDo$ ...), kinds per family mostly from a chain merge_properties can narrow (any < string < date | enum, any < number < integer < int enum), "
                "8 fixed documents (re-declaration that becomes the merge base after a raw-name fallback; the unchecked rename reached through a merge; the three diagnostics); kind allOf/merge/raw-fallback = some name is declared "
                "more than once and some python name is not the default one; distinct by hash of the document description")
    run.assumptions.append("allOf documents list the composed schema before its members (it is then attempted once by _process_models); referenced members are leaf object schemas; no defaults / descriptions on the properties of this family")
    run.assumptions.append("str.lower() final-sigma context rule is not modelled: string cases are compared modulo the sigma fold and scope name lists avoid U+03A3")
    terms, meta = [], []
    for s in strs:
        pfx = "field_" if run.rng.random() < 0.7 else run.rng.choice(PREFIXES)
        cases = [
            ("PythonIdentifier", lambda: str(utils.PythonIdentifier(s, pfx)), f"python_identifier {cstr(s)} {cstr(pfx)} false"),
            ("PythonIdentifier/skip", lambda: str(utils.PythonIdentifier(s, pfx, skip_snake_case=True)), f"python_identifier {cstr(s)} {cstr(pfx)} true"),
            ("ClassName", lambda: str(utils.ClassName(s, pfx)), f"class_name {cstr(s)} {cstr(pfx)}"),
            ("snake_case", lambda: utils.snake_case(s), f"snake_case {cstr(s)}"),
            ("pascal_case", lambda: utils.pascal_case(s), f"pascal_case {cstr(s)}"),
            ("kebab_case", lambda: utils.kebab_case(s), f"kebab_case {cstr(s)}"),
            ("remove_string_escapes", lambda: utils.remove_string_escapes(s), f"escape_dq {cstr(s)}"),
        ]
        for fn, f, term in cases:
            got = f()
            terms.append(f"eqf ({term}) {cstr(got)}")
            meta.append((fn, s, pfx, got))
            run.note_case({"fn": fn, "input": s, "prefix": pfx, "impl": got}, nontrivial=bool(utils.sanitize(s)), kind=fn)
            # ---- stage C oracle, classified by the extracted guard (evaluated below for failures only)
            if fn in ("PythonIdentifier", "ClassName"):
                ok = got.isidentifier() and not keyword.iskeyword(got)
                if not ok:
                    meta[-1] = (fn, s, pfx, got, "oracle-fail")
    bad = run_cases(HDR, terms)
    run.corr = {"cases": len(terms), "mismatches": len(bad), "what": "utils.{PythonIdentifier,ClassName,snake_case,pascal_case,kebab_case,remove_string_escapes} == Names.v (final sigma folded)"}
    for i in bad[:10]:
        fn, s, pfx, got = meta[i][:4]
        model = coq_eval(HDR, terms[i].split("(", 1)[1].rsplit(")", 1)[0])
        run.violation("correspondence", {"fn": fn, "input": s, "prefix": pfx, "impl": got, "model": model[-300:],
                                         "note": "utils.%s no longer computes the function proved valid in NamesThm.v" % fn})
    # classify oracle failures by the Coq guard
    fails = [m for m in meta if len(m) == 5]
    gterms = []
    for fn, s, pfx, got, _ in fails:
        if fn == "PythonIdentifier":
            gterms.append(f"good_prefix {cstr(pfx)} && g_xid {cstr(s)}")
        else:
            gterms.append(f"(str_eqb {cstr(pfx)} {cstr('field_')}) && g_xid {cstr(s)}")
    outside = set(run_cases(HDR, gterms)) if gterms else set()
    for k, (fn, s, pfx, got, _) in enumerate(fails):
        if k in outside:
            # outside the proved domain: good_prefix false is a configuration matter (not document text) -> not a finding; g_xid false -> finding xid_gap
            if pfx in ("field_", "tag") or fn == "ClassName" and pfx == "field_":
                if not run.known_finding("xid_gap", f"{fn}({s!r}) = {got!r} is not an identifier (\\w character outside XID_Continue survives sanitize)"):
                    run.violation("oracle", {"fn": fn, "input": s, "prefix": pfx, "impl": got, "note": "not an identifier; guard g_xid false but finding not listed"})
        else:
            run.violation("oracle", {"fn": fn, "input": s, "prefix": pfx, "impl": got, "note": "inside the proved domain (guard true) yet not a valid non-keyword identifier"})
    scopes_corr(run, tier, scope_replay)
    enum_scope_corr(run, tier, [c for c in scope_replay if c.get("scope") in ("decls", "enumdoc")] if scope_replay is not None else None)
    tree_oracle(run, tier, [c for c in scope_replay if c.get("scope") == "tree"] if scope_replay is not None else None)
    params2_corr(run, tier, [c for c in scope_replay if c.get("scope") == "params2"] if scope_replay is not None else None)
    literal_scope_corr(run, tier, [c for c in scope_replay if c.get("scope") in ("ldecls", "litdoc")] if scope_replay is not None else None)
    procprops_corr(run, tier, pp_replay)
    if not replay:
        scopes(run, tier)


# ------------------------------------------------------------------ stage B for scopes: real collision logic vs Scopes.v
HDR2 = HDR + """
Require Import OPC.Scopes.
Definition fp : str := [102;105;101;108;100;95].
Definition lse (a b : list str) := Nat.eqb (length a) (length b) && forallb (fun p => eqf (fst p) (snd p)) (combine a b).
Definition rse (a b : res (list str)) := match a, b with Ok x, Ok y => lse x y | Err, Err => true | _, _ => false end.
Definition cls_ok (names cs errs : list str) := let r := model_classes fp names in lse (fst r) cs && lse (snd r) errs.
"""
LOCS = {"path": "LPath", "query": "LQuery", "header": "LHeader", "cookie": "LCookie"}
LOC_ORDER = ["path", "query", "header", "cookie"]


def _variants(rng, base_words):
    sep = rng.choice(["_", "-", " ", ".", "", "__"])
    ws = [rng.choice([x, x.upper(), x.capitalize()]) for x in base_words]
    v = sep.join(ws)
    if rng.random() < 0.25:
        v = rng.choice(["_", "$", " ", "-"]) + v
    if rng.random() < 0.25:
        v = v + rng.choice(["_", "$", "!", " "])
    return v


BASES = ["item id", "http response", "a b", "x", "user name", "v 1", "class", "self", "client", "url", "id", "x header", "x query", "self", "true", "none", "a"]


def gen_name_list(rng):
    """2-6 distinct names: snake-case twins, reserved words, case twins frequent."""
    k = rng.randint(2, 6)
    out = []
    base = rng.choice(BASES).split(" ")
    tries = 0
    while len(out) < k and tries < 40:
        tries += 1
        r = rng.random()
        if r < 0.55:
            v = _variants(rng, base)
        elif r < 0.7:
            v = _variants(rng, rng.choice(BASES).split(" "))
        elif r < 0.8 and out:
            # the raw-name fallback of an earlier name as a third party
            from openapi_python_client.utils import PythonIdentifier
            v = str(PythonIdentifier(rng.choice(out), "field_", skip_snake_case=rng.random() < 0.7))
        elif r < 0.9:
            v = S.rand_str(rng, S.ORD, 5)
        else:
            v = S.rand_str(rng, S.HOSTILE, 5)
        # U+03A3: str.lower() picks final or medial sigma by context, the model's lower always gives the medial one (the string stage
        # compares modulo that fold); a COLLISION decided by it would differ, so capital sigma stays out of the scope name lists
        if v and v not in out and "\u03a3" not in v:
            out.append(v)
    return out


def gen_param_list(rng):
    """2-6 (location, name) pairs with distinct keys: location twins, reserved client/url, names equal to an earlier name's
    suffixed form (x_query, x_header_path) so that second-run conflicts arise."""
    names = gen_name_list(rng)
    out = []
    for nm in names:
        loc = rng.choice(LOC_ORDER)
        out.append((loc, nm))
    for _ in range(rng.randint(0, 3)):
        if len(out) >= 6:
            break
        r = rng.random()
        loc0, nm0 = rng.choice(out)
        from openapi_python_client.utils import PythonIdentifier
        py0 = str(PythonIdentifier(nm0, "field_"))
        if r < 0.35:
            cand = (rng.choice([l for l in LOC_ORDER if l != loc0]), rng.choice([nm0, nm0.upper(), nm0.capitalize()]))   # location twin
        elif r < 0.7:
            cand = (rng.choice(LOC_ORDER), py0 + "_" + rng.choice(LOC_ORDER))                                            # collides with a suffixed rename
        elif r < 0.85:
            cand = (rng.choice(LOC_ORDER), py0 + "_" + rng.choice(LOC_ORDER) + "_" + rng.choice(LOC_ORDER))
        else:
            cand = (rng.choice(LOC_ORDER), rng.choice(["client", "url", "Client", "URL", "client_query", "url_path", "client-header"]))
        if cand[1] and cand not in out:
            out.append(cand)
    rng.shuffle(out)
    return out


def gen_class_list(rng):
    k = rng.randint(2, 5)
    out = []
    base = rng.choice(["a b", "item id", "http response", "x", "user", "class", "none", "v 1"]).split(" ")
    while len(out) < k:
        r = rng.random()
        if r < 0.7:
            v = rng.choice(["", "", "", "X/", "$"]) + rng.choice(["_", "-", " ", ".", ""]).join(rng.choice([x, x.upper(), x.capitalize()]) for x in base)
        else:
            v = S.rand_str(rng, S.ORD, 5)
        if v and v not in out and "#" not in v and "\u03a3" not in v:
            out.append(v)
    return out


_CFG = None


def _cfg():
    global _CFG
    if _CFG is None:
        import tempfile, pathlib, shutil
        d = pathlib.Path(tempfile.mkdtemp(prefix="opc_c09_"))
        try:
            _CFG = impl.make_config(d / "doc.json", d / "out")
        finally:
            shutil.rmtree(d, ignore_errors=True)
    return _CFG


def real_attrs(names):
    """python_name of every property of an object schema with these property names, through the real property_from_data
    (ModelProperty.build -> _process_properties -> _add_if_no_conflict), or ('ERR', header, detail)."""
    from openapi_python_client import schema as oai
    from openapi_python_client.parser.properties import property_from_data, Schemas
    from openapi_python_client.parser.errors import ParseError
    data = oai.Schema.model_validate({"type": "object", "properties": {n: {"type": "string"} for n in names}})
    p, _ = property_from_data(name="M", required=True, data=data, schemas=Schemas(), parent_name="", config=_cfg(), process_properties=True, roots={"root"})
    if isinstance(p, ParseError):
        return ("ERR", str(p.header), str(p.detail))
    allp = {x.name: str(x.python_name) for x in list(p.required_properties) + list(p.optional_properties)}
    from openapi_python_client.utils import remove_string_escapes
    return [allp[remove_string_escapes(n)] for n in names]   # property_from_data stores the escaped name


def real_params(ps):
    """(location, name, python_name) in iter_all_parameters order after the real Endpoint.add_parameters (which ends in
    _check_parameters_for_conflicts), or ('ERR', detail)."""
    from openapi_python_client import schema as oai
    from openapi_python_client.parser.properties import Schemas, Parameters
    from openapi_python_client.parser.openapi import Endpoint
    from openapi_python_client.parser.errors import ParseError
    op = oai.Operation.model_validate({"parameters": [{"name": n, "in": l, "required": True, "schema": {"type": "string"}} for l, n in ps], "responses": {}})
    ep = Endpoint(path="/p", method="get", summary="", description="", name="op", requires_security=False, tags=[])
    r, _, _ = Endpoint.add_parameters(endpoint=ep, data=op, schemas=Schemas(), parameters=Parameters(), config=_cfg())
    if isinstance(r, ParseError):
        return ("ERR", str(r.detail))
    return [(str(l), p.name, str(p.python_name)) for l, p in r.iter_all_parameters()]


def real_classes(names):
    """(class names generated in order, names of the schemas rejected as duplicate class) through the real document parser."""
    schemas = {n: {"type": "object", "description": str(i), "properties": {"v": {"type": "string"}}} for i, n in enumerate(names)}
    data, _ = impl.parse_doc(impl.base_doc(components={"schemas": schemas}))
    if not hasattr(data, "models"):
        return ("ERR", str(data))
    ms = list(data.models)
    cs = [str(m.class_info.name) for m in ms]
    mods = [str(m.class_info.module_name) for m in ms]
    errs, other = [], []
    for e in data.errors:
        if "Attempted to generate duplicate models" in str(e.detail) and getattr(e.data, "description", None) is not None:
            errs.append(names[int(e.data.description)])
        else:
            other.append(str(e.detail))
    return (cs, errs, other, mods)


def cparams(ps):
    return "[" + "; ".join(f"({LOCS[l]}, {cstr(n)})" for l, n in ps) + "]" if ps else "(@nil (loc * str))"


def cstrs(l):
    return "[" + "; ".join(cstr(x) for x in l) + "]" if l else "(@nil str)"


def scopes_corr(run, tier, replay_cases=None):
    rng = run.rng
    n = 800 if tier == "quick" else 10000
    cases = []
    if replay_cases is not None:
        cases = [(c["scope"], [tuple(x) if isinstance(x, list) else x for x in c["input"]]) for c in replay_cases if c["scope"] in ("attrs", "params", "classes")]
    else:
        cases += [("attrs", ["a-b", "a_b"]), ("attrs", ["Self", "self!", "$Self"]), ("attrs", ["itemId", "item_id", "ItemID"]), ("attrs", ["a b", "a_b", "a-b"]),
                  ("params", [("path", "x_header_path"), ("path", "x_header"), ("query", "X"), ("header", "x")]),
                  ("params", [("query", "client"), ("header", "client"), ("query", "url"), ("cookie", "client_query")]),
                  ("params", [("query", "id"), ("path", "id"), ("header", "Id")]), ("params", [("query", "a b"), ("query", "a_b")]),
                  ("params", [("query", "client"), ("path", "url")]), ("params", [("header", "x"), ("query", "x"), ("cookie", "x"), ("path", "x")]),
                  ("classes", ["AB", "Ab"]), ("classes", ["AB", "A_B", "ab"]), ("classes", ["X/AB", "AB"])]
        for _ in range(n):
            cases.append(("attrs", gen_name_list(rng)))
            cases.append(("params", gen_param_list(rng)))
        for _ in range(n // 6):
            cases.append(("classes", gen_class_list(rng)))
    terms, meta = [], []
    for scope, inp in cases:
        if scope == "attrs":
            got = real_attrs(inp)
            if isinstance(got, tuple):
                if got[1] != "Conflicting property names":
                    run.violation("correspondence", {"scope_case": {"scope": scope, "input": inp}, "impl": got, "note": "unexpected error kind from property_from_data"})
                    continue
                obs = "Err"
            else:
                obs = f"Ok {cstrs(got)}"
            terms.append(f"rse (res_pys (model_attrs fp {cstrs(inp)})) ({obs})")
        elif scope == "params":
            got = real_params(inp)
            if isinstance(got, tuple):
                if "Parameters with same Python identifier" not in got[1]:
                    run.violation("correspondence", {"scope_case": {"scope": scope, "input": inp}, "impl": got, "note": "unexpected error kind from Endpoint.add_parameters"})
                    continue
                obs = "Err"
            else:
                obs = f"Ok {cstrs([g[2] for g in got])}"
            terms.append(f"rse (param_pys (model_params fp {cparams(inp)})) ({obs})")
        else:
            got = real_classes(inp)
            if got[0] == "ERR" or got[2]:
                run.violation("correspondence", {"scope_case": {"scope": scope, "input": inp}, "impl": got, "note": "unexpected diagnostics for plain object schemas"})
                continue
            terms.append(f"cls_ok {cstrs(inp)} {cstrs(got[0])} {cstrs(got[1])}")
        meta.append((scope, inp, got))
        nontriv = True
        if scope in ("attrs", "params") and not isinstance(got, tuple):
            from openapi_python_client.utils import PythonIdentifier
            nm = inp if scope == "attrs" else [x[1] for x in inp]
            py = got if scope == "attrs" else [g[2] for g in got]
            nontriv = sorted(py) != sorted(str(PythonIdentifier(x, "field_")) for x in nm)   # some conflict path was taken
        run.note_case({"scope": scope, "input": inp, "impl": got}, nontrivial=True, kind="scope-" + scope + ("" if nontriv else "/no-conflict"))
    bad = run_cases(HDR2, terms, shard=120)
    run.corr["cases"] += len(terms)
    run.corr["mismatches"] += len(bad)
    run.corr["what"] += ("; property_from_data(object schema) python names / 'Conflicting property names' == Scopes.model_attrs; Endpoint.add_parameters "
                         "(_check_parameters_for_conflicts) python names / ParseError == Scopes.model_params; GeneratorData class names + duplicate-model errors == Scopes.model_classes")
    for i in bad[:10]:
        scope, inp, got = meta[i]
        if scope == "attrs":
            mterm = f"res_pys (model_attrs fp {cstrs(inp)})"
        elif scope == "params":
            mterm = f"param_pys (model_params fp {cparams(inp)})"
        else:
            mterm = f"model_classes fp {cstrs(inp)}"
        model = coq_eval(HDR2, mterm)
        run.violation("correspondence", {"scope_case": {"scope": scope, "input": inp}, "impl": got, "model": model[-400:],
                                         "note": "the %s collision logic no longer computes the function modelled in Scopes.v (theorems of ScopesThm.v do not apply)" % scope})
    _scope_oracle(run, [m for k, m in enumerate(meta) if k not in set(bad)])


def _scope_oracle(run, meta):
    """Stage C on the outputs observed in stage B: pairwise distinct, valid, non-reserved python names whenever no error was returned;
    failures are classified by the Coq guards of ScopesThm.v (evaluated on exactly the failing inputs)."""
    fails = []
    for scope, inp, got in meta:
        if scope == "classes":
            cs, errs, _, mods = got
            if len(set(cs)) != len(cs):
                run.violation("oracle", {"scope_case": {"scope": scope, "input": inp}, "classes": cs, "note": "two schemas silently share one class name"})
            if len(cs) + len(errs) != len(inp):
                run.violation("oracle", {"scope_case": {"scope": scope, "input": inp}, "classes": cs, "errors": errs, "note": "a schema is neither generated nor reported"})
            if len(set(mods)) != len(mods):
                if not run.known_finding("module_collision_order", f"classes {cs!r} (schemas {inp!r}) are all generated but share module names {mods!r}: one models/<module>.py, no diagnostic"):
                    run.violation("oracle", {"scope_case": {"scope": scope, "input": inp}, "classes": cs, "modules": mods, "note": "distinct classes share one module file"})
            continue
        if isinstance(got, tuple):
            continue
        py = got if scope == "attrs" else [g[2] for g in got]
        dup = len(set(py)) != len(py)
        reserved = scope == "params" and any(x in ("client", "url") for x in py)
        invalid = [x for x in py if not x.isidentifier() or keyword.iskeyword(x)]
        if dup or reserved or invalid:
            fails.append((scope, inp, got, py, dup, reserved, invalid))
    if not fails:
        return
    g1, g2 = [], []
    for scope, inp, got, py, dup, reserved, invalid in fails:
        if scope == "attrs":
            g1.append(f"g_no_raw_fallback fp {cstrs(inp)}")
            g2.append(f"forallb g_xid {cstrs(inp)}")
        else:
            g1.append(f"g_last_pass_quiet fp (order_params (map (param_init fp) {cparams(inp)}))")
            g2.append(f"forallb g_xid {cstrs([x[1] for x in inp])}")
    gb = run_cases(HDR2, g1 + g2, shard=100)
    out1, out2 = {i for i in gb if i < len(g1)}, {i - len(g1) for i in gb if i >= len(g1)}
    from openapi_python_client.utils import PythonIdentifier
    for k, (scope, inp, got, py, dup, reserved, invalid) in enumerate(fails):
        case = {"scope_case": {"scope": scope, "input": inp}, "python_names": py}
        names = inp if scope == "attrs" else [g[1] for g in got]
        if dup or reserved:
            if k not in out1:
                run.violation("oracle", {**case, "note": "inside the proved domain (guard of attrs_distinct / params_distinct_quiet true) yet python names are not pairwise distinct / reserved"})
            elif scope == "attrs":
                if not run.known_finding("attr_rename_unchecked", f"model attributes: names {inp!r} -> python names {py!r}: a raw-name fallback rename is not re-checked against third parties"):
                    run.violation("oracle", {**case, "note": "two attributes silently share one python name"})
            else:
                if not run.known_finding("param_rename_unchecked", f"operation parameters {inp!r} -> python names {py!r}: a rename made in the last run of _check_parameters_for_conflicts is not re-checked"):
                    run.violation("oracle", {**case, "note": "two parameters silently share one python name"})
        if invalid:
            # exact structural test: every invalid name is the raw-name fallback of its own document name (and differs from the default name)
            rawfb = all(any(x == str(PythonIdentifier(nm, "field_", skip_snake_case=True)) and x != str(PythonIdentifier(nm, "field_")) and py[i] == x
                            for i, nm in enumerate(names)) for x in invalid)
            if rawfb:
                if run.known_finding("raw_fallback", f"{scope}: names {inp!r} collide after snake_case; raw-name fallback yields {invalid!r} (not identifiers)"):
                    continue
            if k in out2:
                if run.known_finding("xid_gap", f"{scope}: names {inp!r} -> {invalid!r} not identifiers (\\w character outside XID_Continue survives sanitize)"):
                    continue
            run.violation("oracle", {**case, "invalid": invalid, "note": "python name is not a valid non-keyword identifier (not a raw-name fallback, no xid-gap character)"})


# ------------------------------------------------------------------ class-name scope with enums (Scopes.model_decls)
HDR3 = HDR + """
Require Import OPC.Values.
Require Import OPC.Scopes.
Definition fp : str := [102;105;101;108;100;95].
Definition tbl_same (a b : list (str * evalue)) := Nat.eqb (length a) (length b) &&
  forallb (fun p => str_eqb (fst (fst p)) (fst (snd p)) && evalue_eqb (snd (fst p)) (snd (snd p))) (combine a b).
Definition ent_same (a b : str * centry) := eqf (fst a) (fst b) &&
  match snd a, snd b with CModel, CModel => true | CEnum x, CEnum y => tbl_same x y | _, _ => false end.
Definition evs_same (a b : list evalue) := Nat.eqb (length a) (length b) && forallb (fun p => evalue_eqb (fst p) (snd p)) (combine a b).
Definition decl_same (a b : cdecl) := match a, b with
  | DModel x, DModel y => str_eqb x y
  | DEnum p x v, DEnum q y w => str_eqb p q && str_eqb x y && evs_same v w
  | _, _ => false end.
Definition tabs_ok (t t' : list (str * centry)) := Nat.eqb (length t) (length t') && forallb (fun p => ent_same (fst p) (snd p)) (combine t t').
Definition errs_ok (e e' : list cdecl) := Nat.eqb (length e) (length e') && forallb (fun p => decl_same (fst p) (snd p)) (combine e e').
Definition decls_ok (ds : list cdecl) (obs : option (list (str * centry) * list cdecl)) := match model_decls fp ds, obs with
  | None, None => true
  | Some (t, e), Some (t', e') => tabs_ok t t' && errs_ok e e'
  | _, _ => false end.
Definition is_enum (x : str * centry) := match snd x with CEnum _ => true | _ => false end.
"""

VALUE_BASES = [["on", "off"], ["a b", "c"], ["red", "green", "blue"], ["x"], ["VALUE_1", "VALUE_2"], [1, 2], [0, 1], ["1a", "2b"], ["-1", "n"], [-1, 3],
               ["VALUE_NEGATIVE_1", "VALUE_3"], ["a-b", "c d"], ["é", "z"]]
CLS_BASES = [("foo", "bar"), ("item", "kind"), ("http", "state"), ("a", "b")]


def _value_variant(rng, base):
    """A value list whose MEMBER NAMES mostly coincide with those of `base` while the values differ in case / delimiters / VALUE_n form."""
    r = rng.random()
    if all(isinstance(v, int) for v in base):
        if r < 0.4:
            return list(base)
        if r < 0.8:
            return [("VALUE_%d" % v) if v >= 0 else ("VALUE_NEGATIVE_%d" % -v) for v in base]
        return [v + 10 * rng.choice([0, 0, 1]) for v in base]
    out = []
    mode = rng.choice(["same", "upper", "cap", "delim", "mixed", "rev"])
    for v in base:
        w = v
        if mode == "upper" or (mode == "mixed" and rng.random() < 0.5):
            w = v.upper()
        elif mode == "cap":
            w = v.capitalize()
        elif mode == "delim":
            w = v.replace(" ", rng.choice(["_", "-", "."])).replace("-", rng.choice(["_", " ", "-"]))
        out.append(w)
    if mode == "rev":
        out.reverse()
    if r < 0.1:
        out.append(rng.choice(["extra", "z9"]))
    return out


def _cls_variant(rng, words):
    a, b = words
    return rng.choice(["", "", "", "X/"]) + rng.choice(["_", "-", " ", "", "."]).join(
        [rng.choice([a, a.capitalize()]), rng.choice([b, b.capitalize()])]) if rng.random() < 0.85 else a.capitalize() + b.upper()


def gen_decls(rng):
    """3-6 class-minting declarations around one class name: enums whose member names coincide but whose values differ, equal twins,
    an inline enum (parent, property) that derives the same class name, and object schemas of that name."""
    words = rng.choice(CLS_BASES)
    base = rng.choice(VALUE_BASES)
    out = []
    for _ in range(rng.randint(3, 6)):
        r = rng.random()
        if r < 0.15:
            d = ("model", _cls_variant(rng, words))
        elif r < 0.35:
            d = ("enum", words[0].capitalize(), rng.choice([words[1], words[1].capitalize(), words[1].upper()]), _value_variant(rng, base))
        elif r < 0.9:
            d = ("enum", "", _cls_variant(rng, words), _value_variant(rng, base))
        else:
            d = ("enum", "", _cls_variant(rng, rng.choice(CLS_BASES)), _value_variant(rng, rng.choice(VALUE_BASES)))
        out.append(d)
    return out


def cdecl(d):
    from lib.vals import cevalue
    if d[0] == "model":
        return f"(DModel {cstr(d[1])})"
    vs = "[" + "; ".join(cevalue(v) for v in d[3]) + "]" if d[3] else "(@nil evalue)"
    return f"(DEnum {cstr(d[1])} {cstr(d[2])} {vs})"


def real_decls(decls):
    """Thread one Schemas through the real property_from_data (EnumProperty.build / ModelProperty.build) declaration by declaration.
    Returns None when values_from_list raises ValueError (crash), else (classes_by_name as [(class, 'model' | [(member, value)...])], rejected decls)."""
    from openapi_python_client import schema as oai
    from openapi_python_client.parser.properties import property_from_data, Schemas, EnumProperty, ModelProperty
    from openapi_python_client.parser.errors import ParseError
    schemas = Schemas()
    errs = []
    for d in decls:
        if d[0] == "model":
            data = oai.Schema.model_validate({"type": "object"})
            name, parent = d[1], ""
        else:
            data = oai.Schema.model_validate({"enum": list(d[3])})
            name, parent = d[2], d[1]
        try:
            p, schemas = property_from_data(name=name, required=True, data=data, schemas=schemas, parent_name=parent, config=_cfg(), process_properties=True, roots={"root"})
        except ValueError:
            return None
        if isinstance(p, ParseError):
            errs.append((d, str(p.detail)))
    tab = []
    for c, prop in schemas.classes_by_name.items():
        if isinstance(prop, EnumProperty):
            tab.append((str(c), list(prop.values.items())))
        elif isinstance(prop, ModelProperty):
            tab.append((str(c), "model"))
        else:
            tab.append((str(c), "other:" + type(prop).__name__))
    return tab, errs


def centry_term(c, e):
    from lib.vals import cevalue
    if e == "model":
        return f"({cstr(c)}, CModel)"
    items = "[" + "; ".join(f"({cstr(k)}, {cevalue(v)})" for k, v in e) + "]" if e else "(@nil (str * evalue))"
    return f"({cstr(c)}, CEnum {items})"


def _esc(v):
    from openapi_python_client.utils import remove_string_escapes
    return remove_string_escapes(v) if isinstance(v, str) else v


def gen_enum_doc(rng):
    """A document with component enums / object schemas around one class name plus a holder model with one inline enum property."""
    decls = [d for d in gen_decls(rng) if not (d[0] == "enum" and d[1])]
    comps, seen = {}, set()
    for i, d in enumerate(decls):
        nm = d[1] if d[0] == "model" else d[2]
        if nm in seen or "#" in nm or not nm:
            continue
        seen.add(nm)
        comps[nm] = {"type": "object", "description": str(i), "properties": {"v": {"type": "string"}}} if d[0] == "model" else {"enum": list(d[3]), "description": str(i)}
    holder = None
    if rng.random() < 0.6:
        words = rng.choice(CLS_BASES)
        holder = (words[0].capitalize(), words[1], _value_variant(rng, rng.choice(VALUE_BASES)))
        if holder[0] not in comps:
            comps[holder[0]] = {"type": "object", "description": "holder", "properties": {holder[1]: {"enum": list(holder[2]), "description": "inline"}}}
        else:
            holder = None
    return comps, holder


def real_enum_doc(comps):
    data, _ = impl.parse_doc(impl.base_doc(components={"schemas": comps}))
    if not hasattr(data, "models"):
        return None
    enums = [(str(e.class_info.name), list(e.values.items())) for e in data.enums if hasattr(e, "values") and isinstance(e.values, dict)]
    models = [str(m.class_info.name) for m in data.models]
    errs = [(getattr(e.data, "description", None), str(e.detail)) for e in data.errors]
    return enums, models, errs


def enum_scope_corr(run, tier, replay_cases=None):
    rng = run.rng
    n = 350 if tier == "quick" else 4000
    m = 120 if tier == "quick" else 1200
    dcases, docs = [], []
    if replay_cases is not None:
        for c in replay_cases:
            if c["scope"] == "decls":
                dcases.append([tuple(x) for x in c["input"]])
            else:
                docs.append(c["input"])
    else:
        dcases += [[("enum", "", "FooBar", ["on", "off"]), ("enum", "Foo", "bar", ["ON", "OFF"])],
                   [("enum", "", "FooBar", [1, 2]), ("enum", "", "foo_bar", ["VALUE_1", "VALUE_2"])],
                   [("enum", "", "FooBar", ["on", "off"]), ("enum", "", "foo_bar", ["off", "on"]), ("model", "Foo-Bar")],
                   [("model", "FooBar"), ("enum", "Foo", "bar", ["x"])],
                   [("enum", "", "E", ["a", "A"])]]
        for _ in range(n):
            dcases.append(gen_decls(rng))
        docs += [{"FooBar": {"enum": ["on", "off"], "description": "0"},
                  "Foo": {"type": "object", "description": "holder", "properties": {"bar": {"enum": ["ON", "OFF"], "description": "inline"}}}},
                 {"FooBar": {"enum": [1, 2], "description": "0"}, "foo_bar": {"enum": ["VALUE_1", "VALUE_2"], "description": "1"}}]
        for _ in range(m):
            docs.append(gen_enum_doc(rng)[0])
    terms, meta = [], []
    for decls in dcases:
        got = real_decls(decls)
        case = {"scope": "decls", "input": [list(d) for d in decls]}
        if got is None:
            obs = "None"
        else:
            tab, errs = got
            if any(isinstance(e, str) and e.startswith("other:") for _, e in tab):
                run.violation("correspondence", {"scope_case": case, "impl": got, "note": "unexpected entry kind in classes_by_name"})
                continue
            tt = "[" + "; ".join(centry_term(c, e) for c, e in tab) + "]" if tab else "(@nil (str * centry))"
            ee = "[" + "; ".join(cdecl(d) for d, _ in errs) + "]" if errs else "(@nil cdecl)"
            obs = f"(Some ({tt}, {ee}))"
        dd = "[" + "; ".join(cdecl(d) for d in decls) + "]"
        terms.append(f"decls_ok {dd} {obs}")
        meta.append((case, got, dd))
        run.note_case({**case, "impl": got}, nontrivial=True, kind="scope-decls" + ("/crash" if got is None else ("/reported" if got[1] else "")))
        if got is not None:
            _enum_tables_oracle(run, case, [(d[3], d) for d in decls if d[0] == "enum"], [(c, e) for c, e in got[0] if e != "model"], [d for d, _ in got[1]])
    for comps in docs:
        got = real_enum_doc(comps)
        case = {"scope": "enumdoc", "input": comps}
        run.note_case({**case, "impl": got}, nontrivial=True, kind="scope-enumdoc")
        if got is None:
            run.violation("oracle", {"scope_case": case, "note": "document of plain enums / object schemas rejected"})
            continue
        enums, models, errs = got
        declared = []
        for nm, sch in comps.items():
            if "enum" in sch:
                declared.append((sch["enum"], ("component", nm), sch.get("description")))
            for pn, ps in (sch.get("properties") or {}).items():
                if "enum" in ps:
                    declared.append((ps["enum"], ("inline", nm, pn), ps.get("description")))
        reported = {d for d, _ in errs}
        _enum_tables_oracle(run, case, [(vs, who) for vs, who, desc in declared if desc not in reported], enums, [], declared_all=[vs for vs, _, _ in declared])
        # correspondence for documents without a holder: components in document order are exactly the fold of Scopes.model_decls
        if not any(s.get("description") == "holder" for s in comps.values()):
            order = list(comps.items())
            decls = [("model", nm) if "enum" not in sch else ("enum", "", nm, sch["enum"]) for nm, sch in order]
            by_desc = {sch["description"]: d for (nm, sch), d in zip(order, decls)}
            if any(d not in by_desc for d, _ in errs):
                run.violation("correspondence", {"scope_case": case, "impl": got, "note": "diagnostic that does not name a declared component"})
                continue
            # classes_by_name order is not observable through GeneratorData (models and enums are separate iterators): compare per kind
            dd = "[" + "; ".join(cdecl(d) for d in decls) + "]"
            et = "[" + "; ".join(centry_term(c, e) for c, e in enums) + "]" if enums else "(@nil (str * centry))"
            mt = "[" + "; ".join(centry_term(c, "model") for c in models) + "]" if models else "(@nil (str * centry))"
            ee = "[" + "; ".join(cdecl(by_desc[d]) for d, _ in errs) + "]" if errs else "(@nil cdecl)"
            terms.append(f"match model_decls fp {dd} with None => false | Some (t, e) => "
                         f"tabs_ok (filter is_enum t ++ filter (fun x => negb (is_enum x)) t) ({et} ++ {mt}) && errs_ok e {ee} end")
            meta.append((case, got, dd))
    bad = run_cases(HDR3, terms, shard=120)
    run.corr["cases"] += len(terms)
    run.corr["mismatches"] += len(bad)
    run.corr["what"] += ("; classes_by_name after a sequence of real property_from_data calls on enums / object schemas (EnumProperty.build, ModelProperty.build), and the enums / models / "
                         "diagnostics of GeneratorData.from_dict on documents of component enums and object schemas == Scopes.model_decls")
    for i in bad[:10]:
        case, got, dd = meta[i]
        model = coq_eval(HDR3, f"model_decls fp {dd}")
        run.violation("correspondence", {"scope_case": case, "impl": got, "model": model[-500:],
                                         "note": "the class-name scope (enum twins: equal table shared, different table / enum vs model reported) no longer computes Scopes.model_decls"})


def _enum_tables_oracle(run, case, surviving_declared, enum_classes, reported, declared_all=None):
    """Every generated enum class holds exactly the values of ONE declared value list; every declared list that was not reported
    is held by some generated class."""
    all_lists = declared_all if declared_all is not None else [vs for vs, _ in surviving_declared]
    want = [[_esc(v) for v in vs] for vs in all_lists]
    for c, items in enum_classes:
        vals = [v for _, v in items]
        if not any(vals == w and all(type(a) is type(b) for a, b in zip(vals, w)) for w in want):
            run.violation("oracle", {"scope_case": case, "class": c, "members": items, "declared": all_lists,
                                     "note": "a generated enum class holds values that are not exactly one declared value list"})
    held = [[v for _, v in items] for _, items in enum_classes]
    for vs, who in surviving_declared:
        if who in reported:
            continue
        w = [_esc(v) for v in vs]
        if not any(sorted(map(repr, h)) == sorted(map(repr, w)) for h in held):
            run.violation("oracle", {"scope_case": case, "declared": vs, "by": who, "classes": enum_classes,
                                     "note": "a declared enum is neither reported nor held by any generated class with exactly its values: it was merged silently into another enum"})


# ------------------------------------------------------------------ one operation's parameters split between the path item and the operation
LONE_POOL = ["client", "url", "Client", "URL", "class", "self", "import", "None", "id", "user_id", "2fa", "$$", "a-b"]


def gen_param2_case(rng):
    """(operation-level list | None, path-item-level list | None): the parameters of one operation split in every proportion
    (0+1, 1+0, 1+1, 1+n, n+1, n+m, absent vs empty list), with derived names colliding ACROSS the two lists in the same and in
    different locations, reserved names alone in a list, and keys present in both lists (the operation-level one wins)."""
    mode = rng.choice(["0+1", "0+1", "1+0", "1+1", "1+1", "1+n", "1+n", "n+1", "n+1", "n+m", "n+m", "dupkey"])
    if mode in ("0+1", "1+0"):
        lone = [(rng.choice(LOC_ORDER), rng.choice(LONE_POOL) if rng.random() < 0.8 else (S.rand_str(rng, S.ORD, 5) or "x"))]
        other = rng.choice([None, None, []])
        return (other, lone) if mode == "0+1" else (lone, other)
    full = gen_param_list(rng)
    if mode == "1+1":
        loc0, nm0 = full[0]
        r = rng.random()
        if r < 0.35:
            twin = (rng.choice([l for l in LOC_ORDER if l != loc0]), rng.choice([nm0, nm0.upper(), nm0.capitalize()]))      # location twin
        elif r < 0.7:
            twin = (loc0, _variants(rng, [w for w in nm0.replace("-", " ").replace("_", " ").split(" ") if w] or ["x"]))    # same location, other spelling
        elif r < 0.85:
            twin = (rng.choice(LOC_ORDER), rng.choice(["client", "url", "Client", "URL"]))
        else:
            twin = full[1]
        if twin == full[0] or not twin[1]:
            twin = (loc0, nm0 + "_x")
        return ([full[0]], [twin]) if rng.random() < 0.5 else ([twin], [full[0]])
    if mode == "1+n":
        k = rng.randrange(len(full))
        return [full[k]], full[:k] + full[k + 1:]
    if mode == "n+1":
        k = rng.randrange(len(full))
        return full[:k] + full[k + 1:], [full[k]]
    if mode == "dupkey":
        k = rng.randrange(len(full))
        return full, [full[k]] + ([(rng.choice(LOC_ORDER), rng.choice(LONE_POOL))] if rng.random() < 0.5 else [])
    cut = rng.randint(1, len(full) - 1)
    op, item = full[:cut], full[cut:]
    if rng.random() < 0.3 and op:
        item = item + [rng.choice(op)]            # also present at the operation level: ignored there
    item = list(dict.fromkeys(item))
    return op, item


def real_params2(op, item):
    """The two real Endpoint.add_parameters calls of one operation (operation data first, then the path item), as from_data makes them."""
    from openapi_python_client import schema as oai
    from openapi_python_client.parser.properties import Schemas, Parameters
    from openapi_python_client.parser.openapi import Endpoint
    from openapi_python_client.parser.errors import ParseError

    def plist(ps):
        return [{"name": n, "in": l, "required": True, "schema": {"type": "string"}} for l, n in ps]
    opd = {"responses": {}}
    if op is not None:
        opd["parameters"] = plist(op)
    itd = {}
    if item is not None:
        itd["parameters"] = plist(item)
    ep = Endpoint(path="/p", method="get", summary="", description="", name="op", requires_security=False, tags=[])
    r, sch, par = Endpoint.add_parameters(endpoint=ep, data=oai.Operation.model_validate(opd), schemas=Schemas(), parameters=Parameters(), config=_cfg())
    if isinstance(r, ParseError):
        return ("ERR", str(r.detail))
    r, _, _ = Endpoint.add_parameters(endpoint=r, data=oai.PathItem.model_validate(itd), schemas=sch, parameters=par, config=_cfg())
    if isinstance(r, ParseError):
        return ("ERR", str(r.detail))
    return [(str(l), p.name, str(p.python_name)) for l, p in r.iter_all_parameters()]


def copt_params(ps):
    return "None" if ps is None else f"(Some {cparams(ps)})"


_PATH_OK = __import__("re").compile(r"[a-zA-Z_-][a-zA-Z0-9_-]*\Z")


def param2_doc(op, item):
    """The same split as a document (None when a path parameter's name cannot appear in a path template)."""
    keys = list(dict.fromkeys((op or []) + (item or [])))
    pnames = [n for l, n in keys if l == "path"]
    if any(not _PATH_OK.match(n) for n in pnames) or len(set(pnames)) != len(pnames):
        return None
    if any(not ch.isprintable() or ch in '"\\' for _, n in keys for ch in n):
        return None   # quoting of names inside generated string literals is C05's subject (findings nul_char, name_backslash)
    def plist(ps):
        return [{"name": n, "in": l, "required": True, "schema": {"type": "string"}} for l, n in ps]
    path = "/p" + "".join("/{%s}" % n for n in pnames)
    opd = {"operationId": "op", "responses": {"200": {"description": "ok"}}}
    if op is not None:
        opd["parameters"] = plist(op)
    pi = {"get": opd}
    if item is not None:
        pi["parameters"] = plist(item)
    return impl.base_doc(paths={path: pi})


def params2_corr(run, tier, replay_cases=None):
    rng = run.rng
    n = 700 if tier == "quick" else 8000
    ngen = 50 if tier == "quick" else 500
    if replay_cases is not None:
        def lt(x):
            return None if x is None else [tuple(y) for y in x]
        cases = [(lt(c["input"][0]), lt(c["input"][1])) for c in replay_cases]
    else:
        cases = [([("query", "userId"), ("query", "limit")], [("header", "user_id")]),
                 ([("query", "userId"), ("query", "limit")], [("query", "user_id")]),
                 (None, [("query", "client")]), ([], [("header", "url")]), ([("path", "url")], None), ([("query", "client")], []),
                 ([("query", "x")], [("header", "x")]), ([("query", "a b")], [("query", "a_b")]), ([("query", "class")], [("header", "Class")]),
                 ([("query", "id"), ("header", "id")], [("cookie", "id_query")]),
                 ([("path", "x_header_path"), ("path", "x_header"), ("query", "X")], [("header", "x")])]
        def _sigma_free(case):
            # U+03A3: str.lower() picks final or medial sigma by context, the model always gives the medial one (documented limitation, see the
            # string stage); .upper() / .capitalize() twins can introduce a capital sigma, so such cases are redrawn
            return not any("\u03a3" in nm for lst in case if lst for _loc, nm in lst)
        drawn = []
        while len(drawn) < n:
            c = gen_param2_case(rng)
            if _sigma_free(c):
                drawn.append(c)
        cases += drawn
    terms, meta = [], []
    for op, item in cases:
        case = {"scope": "params2", "input": [op, item]}
        for lst in (op, item):
            assert lst is None or len(set(lst)) == len(lst)
        got = real_params2(op, item)
        if isinstance(got, tuple):
            if "Parameters with same Python identifier" not in got[1]:
                run.violation("correspondence", {"scope_case": case, "impl": got, "note": "unexpected error kind from Endpoint.add_parameters"})
                continue
            obs = "Err"
        else:
            obs = f"Ok {cstrs([g[2] for g in got])}"
        terms.append(f"rse (param_pys (model_params2 fp {copt_params(op)} {copt_params(item)})) ({obs})")
        meta.append((case, op, item, got))
        shape = "%s+%s" % tuple("-" if l is None else ("n" if len(l) > 1 else str(len(l))) for l in (item, op))
        run.note_case({**case, "impl": got}, nontrivial=True, kind="scope-params2/item+op=" + shape)
    bad = run_cases(HDR2, terms, shard=120)
    run.corr["cases"] += len(terms)
    run.corr["mismatches"] += len(bad)
    run.corr["what"] += ("; the two real Endpoint.add_parameters calls of one operation (operation list, then path-item list; every split 0+1 .. n+m, absent / empty lists) "
                         "-> python names of all parameters or ParseError == Scopes.model_params2")
    for i in bad[:10]:
        case, op, item, got = meta[i]
        model = coq_eval(HDR2, f"param_pys (model_params2 fp {copt_params(op)} {copt_params(item)})")
        run.violation("correspondence", {"scope_case": case, "impl": got, "model": model[-400:],
                                         "note": "parameters split between path item and operation: the conflict check no longer computes Scopes.model_params2 (model_params2_distinct_quiet does not apply)"})
    badset = set(bad)
    # ---- oracle on the threaded outputs, classified by the Coq guard on exactly the failing inputs
    fails = []
    for k, (case, op, item, got) in enumerate(meta):
        if k in badset or isinstance(got, tuple):
            continue
        py = [g[2] for g in got]
        dup = len(set(py)) != len(py) or any(x in ("client", "url") for x in py)
        invalid = [x for x in py if not x.isidentifier() or keyword.iskeyword(x)]
        if dup or invalid:
            fails.append((case, op, item, got, py, dup, invalid))
    quiet_false = set()
    if fails:
        gb = run_cases(HDR2, [f"g_params2_quiet fp {copt_params(op)} {copt_params(item)}" for _, op, item, _, _, _, _ in fails] +
                       [f"forallb g_xid {cstrs([g[1] for g in got])}" for _, _, _, got, _, _, _ in fails], shard=100)
        quiet_false = {i for i in gb if i < len(fails)}
        xid_false = {i - len(fails) for i in gb if i >= len(fails)}
    known_dup_inputs = []
    from openapi_python_client.utils import PythonIdentifier
    for k, (case, op, item, got, py, dup, invalid) in enumerate(fails):
        if dup:
            if k not in quiet_false:
                run.violation("oracle", {"scope_case": case, "python_names": py, "note": "inside the proved domain (g_params2_quiet true) yet the python names of one operation's parameters are not pairwise distinct / reserved"})
            elif run.known_finding("param_rename_unchecked", f"operation parameters op={op!r} path-item={item!r} -> python names {py!r}: a rename made in the last run of _check_parameters_for_conflicts is not re-checked"):
                known_dup_inputs.append((op, item))
            else:
                run.violation("oracle", {"scope_case": case, "python_names": py, "note": "two parameters silently share one python name"})
        if invalid:
            rawfb = all(any(x == str(PythonIdentifier(g[1], "field_", skip_snake_case=True)) and x != str(PythonIdentifier(g[1], "field_")) and g[2] == x for g in got) for x in invalid)
            if rawfb and run.known_finding("raw_fallback", f"params2: {op!r} + {item!r} collide after snake_case; raw-name fallback yields {invalid!r} (not identifiers)"):
                continue
            if k in xid_false and run.known_finding("xid_gap", f"params2: {op!r} + {item!r} -> {invalid!r} not identifiers (\\w character outside XID_Continue survives sanitize)"):
                continue
            run.violation("oracle", {"scope_case": case, "python_names": py, "invalid": invalid, "note": "python name is not a valid non-keyword identifier (not a raw-name fallback, no xid-gap character)"})
    # ---- the same splits as documents through the whole generator: parser result == threaded result, generated endpoint module compiles
    docs = []
    for case, op, item, got in meta:
        d = param2_doc(op, item)
        if d is not None:
            docs.append((case, op, item, got, d))
    if replay_cases is None and len(docs) > ngen:
        docs = docs[:11] + rng.sample(docs[11:], ngen - 11)
    for case, op, item, got, doc in docs:
        with impl.Gen(doc) as g:
            diags = g.diag()
            if g.exc is not None:
                run.violation("oracle", {"scope_case": case, "note": "generation raised", "error": repr(g.exc)})
                continue
            mods = {k: v for k, v in g.files().items() if k.startswith("api/") and k.endswith(".py")}
        run.note_case({"scope": "params2-doc", "input": [op, item]}, nontrivial=True, kind="scope-params2/generated")
        opmods = [k for k in mods if k.endswith("/op.py")]
        if isinstance(got, tuple):
            if opmods or not diags:
                run.violation("oracle", {"scope_case": case, "impl": got, "diagnostics": diags, "modules": sorted(mods),
                                         "note": "the conflict check reports an error for this split but the document generates the endpoint / prints no diagnostic"})
            continue
        if not opmods:
            if not diags:
                run.violation("oracle", {"scope_case": case, "note": "endpoint dropped without diagnostic"})
            continue
        src = mods[opmods[0]].decode("utf-8")
        try:
            tree = compile(src, opmods[0], "exec", flags=__import__("ast").PyCF_ONLY_AST)
            compile(src, opmods[0], "exec")
        except SyntaxError as e:
            py = [g_[2] for g_ in got]
            if (op, item) in known_dup_inputs or any(not x.isidentifier() for x in py):
                continue   # already reported above as a listed finding of this very input
            run.violation("oracle", {"scope_case": case, "python_names": py, "error": str(e), "note": "generated endpoint module does not compile"})
            continue
        import ast as _ast
        fn = [f for f in tree.body if isinstance(f, _ast.FunctionDef) and f.name == "_get_kwargs"]
        args = [a.arg for a in fn[0].args.args + fn[0].args.kwonlyargs] if fn else []
        import unicodedata as _ud
        want = [_ud.normalize("NFKC", g_[2]) for g_ in got]   # CPython NFKC-normalises identifiers
        if any(not x.isidentifier() for x in want):
            continue   # reported above (raw_fallback / xid_gap) for this very input
        if sorted(args) != sorted(want):
            run.violation("oracle", {"scope_case": case, "signature": args, "python_names": want,
                                     "note": "_get_kwargs of the generated module does not take exactly the python names the two add_parameters calls produce for this split"})


# ------------------------------------------------------------------ the class-name scope under literal_enums: true (Scopes.model_decls_lit)
HDR4 = HDR3 + """
Definition vals_same (t : list (str * evalue)) (obs : list evalue) := Nat.eqb (length t) (length obs) && forallb (fun v => existsb (fun kv => evalue_eqb (snd kv) v) t) obs.
Definition lent_same (a : str * centry) (b : str * option (list evalue)) := eqf (fst a) (fst b) &&
  match snd a, snd b with CModel, None => true | CEnum t, Some o => vals_same t o | _, _ => false end.
Definition ldecls_ok (ds : list cdecl) (t' : list (str * option (list evalue))) (e' : list cdecl) := match model_decls_lit fp ds with
  | None => false
  | Some (t, e) => Nat.eqb (length t) (length t') && forallb (fun p => lent_same (fst p) (snd p)) (combine t t') && errs_ok e e' end.
"""
LIT_BASES = [["x", "y", "z"], ["on", "off"], [1, 2, 3], ["a b", "c"], ["1", "2"], [0, 1]]
_CFG_LIT = None


def _cfg_lit():
    global _CFG_LIT
    if _CFG_LIT is None:
        import tempfile, pathlib, shutil
        d = pathlib.Path(tempfile.mkdtemp(prefix="opc_c09_"))
        try:
            _CFG_LIT = impl.make_config(d / "doc.json", d / "out", cfg={"literal_enums": True})
        finally:
            shutil.rmtree(d, ignore_errors=True)
    return _CFG_LIT


def _set_variant(rng, base):
    """equal (permuted) / proper subset / superset / overlapping / disjoint value sets, same or other value type."""
    new = ["w", "q"] if isinstance(base[0], str) else [7, 9]
    mode = rng.choice(["equal", "perm", "subset", "subset", "superset", "overlap", "disjoint", "othertype"])
    if mode == "equal":
        return list(base)
    if mode == "perm":
        b = list(base); rng.shuffle(b); return b
    if mode == "subset":
        k = rng.randint(1, max(1, len(base) - 1))
        return rng.sample(base, k)
    if mode == "superset":
        return list(base) + [new[0]]
    if mode == "overlap":
        return [base[0], new[1]]
    if mode == "disjoint":
        return list(new)
    return [str(v) for v in base] if not isinstance(base[0], str) else list(range(len(base)))


def gen_ldecls(rng):
    words = rng.choice(CLS_BASES)
    base = rng.choice(LIT_BASES)
    out = []
    for _ in range(rng.randint(2, 5)):
        r = rng.random()
        vs = _set_variant(rng, base) if out else list(base)
        if r < 0.12:
            out.append(("model", _cls_variant(rng, words)))
        elif r < 0.45:
            out.append(("enum", words[0].capitalize(), rng.choice([words[1], words[1].capitalize()]), vs))
        else:
            out.append(("enum", "", _cls_variant(rng, words), vs))
    if rng.random() < 0.5:
        out.reverse()
    return out


def real_ldecls(decls):
    from openapi_python_client import schema as oai
    from openapi_python_client.parser.properties import property_from_data, Schemas, LiteralEnumProperty, ModelProperty
    from openapi_python_client.parser.errors import ParseError
    schemas = Schemas()
    errs = []
    for d in decls:
        data = oai.Schema.model_validate({"type": "object"} if d[0] == "model" else {"enum": list(d[3])})
        name, parent = (d[1], "") if d[0] == "model" else (d[2], d[1])
        p, schemas = property_from_data(name=name, required=True, data=data, schemas=schemas, parent_name=parent, config=_cfg_lit(), process_properties=True, roots={"root"})
        if isinstance(p, ParseError):
            errs.append(d)
    tab = []
    for c, prop in schemas.classes_by_name.items():
        if isinstance(prop, LiteralEnumProperty):
            tab.append((str(c), sorted(prop.values, key=repr)))
        elif isinstance(prop, ModelProperty):
            tab.append((str(c), None))
        else:
            tab.append((str(c), "other:" + type(prop).__name__))
    return tab, errs


def gen_lit_doc(rng):
    """Component enums, a holder model with an inline enum property and an operation with an enum PARAMETER, all deriving one class name."""
    a, b = rng.choice([("a", "b_c"), ("item", "kind"), ("foo", "bar")])
    base = rng.choice(LIT_BASES)
    cls_words = [a] + b.split("_")
    comps, k = {}, 0
    if rng.random() < 0.7:
        comps[a.capitalize()] = {"type": "object", "description": "holder", "properties": {b: {"enum": list(base), "description": "inline"}}}
    for _ in range(rng.randint(0, 2)):
        nm = rng.choice(["_", "-", " ", ""]).join(rng.choice([w, w.capitalize()]) for w in cls_words)
        if nm not in comps:
            comps[nm] = {"enum": _set_variant(rng, base), "description": str(k)}
            k += 1
    if rng.random() < 0.5:
        # a second holder whose class name + property name derive the same class: AB{c} vs A{b_c}
        h2 = "".join(w.capitalize() for w in cls_words[:-1])
        if h2 not in comps and len(cls_words) > 2:
            comps[h2] = {"type": "object", "description": "holder2", "properties": {cls_words[-1]: {"enum": _set_variant(rng, base), "description": "inline2"}}}
    paths = {}
    if rng.random() < 0.6:
        opid = "".join(w.capitalize() for w in cls_words[:-1]) if len(cls_words) > 2 else a
        paths["/p"] = {"get": {"operationId": opid, "parameters": [{"name": cls_words[-1] if len(cls_words) > 2 else b, "in": "query", "required": True,
                                                                     "schema": {"enum": _set_variant(rng, base), "description": "param"}}],
                               "responses": {"200": {"description": "ok"}}}}
    if rng.random() < 0.5:
        comps = dict(reversed(list(comps.items())))
    return impl.base_doc(paths=paths, components={"schemas": comps})


def literal_scope_corr(run, tier, replay_cases=None):
    from lib.vals import cevalue
    rng = run.rng
    n = 250 if tier == "quick" else 3000
    m = 100 if tier == "quick" else 1000
    dcases, docs = [], []
    if replay_cases is not None:
        for c in replay_cases:
            (dcases if c["scope"] == "ldecls" else docs).append([tuple(x) for x in c["input"]] if c["scope"] == "ldecls" else c["input"])
    else:
        dcases += [[("enum", "A", "b_c", ["x", "y"]), ("enum", "AB", "c", ["x"])], [("enum", "AB", "c", ["x"]), ("enum", "A", "b_c", ["x", "y"])],
                   [("enum", "", "ABC", ["x", "y"]), ("enum", "", "a_b_c", ["y", "x"])], [("enum", "", "ABC", [1, 2]), ("enum", "", "a_b_c", ["1", "2"])],
                   [("model", "ABC"), ("enum", "A", "b_c", ["x"])], [("enum", "", "ABC", ["x", "y"]), ("enum", "", "a_b_c", ["x", "q"]), ("model", "A-B-C")]]
        dcases += [gen_ldecls(rng) for _ in range(n)]
        docs += [impl.base_doc(components={"schemas": {"A": {"type": "object", "description": "holder", "properties": {"b_c": {"enum": ["x", "y"], "description": "inline"}}},
                                                       "AB": {"type": "object", "description": "holder2", "properties": {"c": {"enum": ["x"], "description": "inline2"}}}}})]
        docs += [gen_lit_doc(rng) for _ in range(m)]
    terms, meta = [], []
    for decls in dcases:
        tab, errs = real_ldecls(decls)
        case = {"scope": "ldecls", "input": [list(d) for d in decls]}
        run.note_case({**case, "impl": (tab, errs)}, nontrivial=True, kind="scope-ldecls" + ("/reported" if errs else ""))
        if any(isinstance(e, str) for _, e in tab):
            run.violation("correspondence", {"scope_case": case, "impl": tab, "note": "unexpected entry kind in classes_by_name under literal_enums"})
            continue
        tt = "[" + "; ".join(f"({cstr(c)}, " + ("None" if e is None else "Some [" + "; ".join(cevalue(v) for v in e) + "]") + ")" for c, e in tab) + "]" if tab else "(@nil (str * option (list evalue)))"
        ee = "[" + "; ".join(cdecl(d) for d in errs) + "]" if errs else "(@nil cdecl)"
        dd = "[" + "; ".join(cdecl(d) for d in decls) + "]"
        terms.append(f"ldecls_ok {dd} {tt} {ee}")
        meta.append((case, (tab, errs), dd))
        _literal_oracle(run, case, [d[3] for d in decls if d[0] == "enum"], [d[3] for d in decls if d[0] == "enum" and d not in errs], [(c, e) for c, e in tab if e is not None])
    bad = run_cases(HDR4, terms, shard=120)
    run.corr["cases"] += len(terms)
    run.corr["mismatches"] += len(bad)
    run.corr["what"] += "; classes_by_name after a sequence of real property_from_data calls under literal_enums: true (LiteralEnumProperty.build) == Scopes.model_decls_lit (value sets)"
    for i in bad[:10]:
        case, got, dd = meta[i]
        model = coq_eval(HDR4, f"model_decls_lit fp {dd}")
        run.violation("correspondence", {"scope_case": case, "impl": got, "model": model[-500:],
                                         "note": "LiteralEnumProperty.build's class-name guard (equal value set shared, different set / enum vs model reported) no longer computes Scopes.model_decls_lit"})
    # documents through GeneratorData.from_dict with literal_enums: true: oracle only (inline x component x parameter)
    for doc in docs:
        case = {"scope": "litdoc", "input": doc}
        data, _ = impl.parse_doc(doc, cfg={"literal_enums": True})
        run.note_case(case, nontrivial=True, kind="scope-litdoc")
        if not hasattr(data, "models"):
            run.violation("oracle", {"scope_case": case, "note": "document rejected", "error": str(data)})
            continue
        classes = [(str(e.class_info.name), sorted(e.values, key=repr)) for e in data.enums if isinstance(getattr(e, "values", None), (set, frozenset))]
        reported = {getattr(e.data, "description", None) for e in data.errors}
        removed = " ".join(str(e.detail) for e in data.errors)
        declared = []
        for nm, sch in doc["components"]["schemas"].items():
            if "enum" in sch:
                declared.append((sch["enum"], sch["description"] in reported))
            for pn, ps in (sch.get("properties") or {}).items():
                if "enum" in ps:
                    declared.append((ps["enum"], ps["description"] in reported or f"/components/schemas/{nm}" in removed))
        eps = [e for c in data.endpoint_collections_by_tag.values() for e in c.endpoints]
        perr = [e for c in data.endpoint_collections_by_tag.values() for e in c.parse_errors]
        for p in doc["paths"].values():
            for prm in p["get"].get("parameters", []):
                declared.append((prm["schema"]["enum"], not eps and bool(perr)))
        _literal_oracle(run, case, [vs for vs, _ in declared], [vs for vs, rep in declared if not rep], classes)


def _literal_oracle(run, case, all_lists, unreported_lists, classes):
    """Every generated Literal alias holds exactly the value set of one declared list; every unreported declaration is represented."""
    def key(vs):
        return sorted({(type(v).__name__, v) for v in vs}, key=repr)
    want = [key(vs) for vs in all_lists]
    have = [key(e) for _, e in classes]
    for (c, e), h in zip(classes, have):
        if h not in want:
            run.violation("oracle", {"scope_case": case, "class": c, "values": e, "declared": all_lists, "note": "a generated Literal alias holds a value set that is not exactly one declared value list"})
    for vs in unreported_lists:
        if key(vs) not in have:
            run.violation("oracle", {"scope_case": case, "declared": vs, "classes": classes,
                                     "note": "a declared enum is neither reported nor represented by a Literal alias with exactly its values: silently replaced by another enum of the same class name"})


# ------------------------------------------------------------------ generated trees: module / package names
OPID_POOL = ["2fa_verify", "$$", "", "class", "import", "None", "getUser", "get-x", "get_x2", "List Items", "1", "_private", "a.b", "é", "match", "def", "x" * 3, "HTTPGet", "9to5", "@@@", "-", "true", "self"]
TAG_POOL = ["default", "1tag", "$$", "class", "My Tag", "users", "2fa", "_x", "None", "a-b"]
SCHEMA_POOL = ["Pet", "2fa", "class", "$$", "a b", "None", "HTTPResponse", "import", "9", "_m", "x-y", "é"]


def gen_tree_doc(rng):
    ops, paths = [], {}
    k = rng.randint(3, 7)
    ids = []
    while len(ids) < k:
        r = rng.random()
        oid = rng.choice(OPID_POOL) if r < 0.6 else (S.rand_str(rng, S.HOSTILE, 6) if r < 0.8 else rng.choice("0123456789$-") + S.rand_str(rng, S.ORD, 5))
        if oid not in ids and "Σ" not in oid:
            ids.append(oid)
    for i, oid in enumerate(ids):
        tags = [rng.choice(TAG_POOL)] if rng.random() < 0.8 else [S.rand_str(rng, S.HOSTILE, 4) or "t"]
        tags = [t for t in tags if "Σ" not in t] or ["default"]
        paths[f"/p{i}"] = {"get": {"operationId": oid, "tags": tags, "responses": {"200": {"description": "ok"}}}}
    schemas = {}
    for nm in rng.sample(SCHEMA_POOL, rng.randint(1, 4)):
        schemas[nm] = {"type": "object", "properties": {"v": {"type": "string"}}} if rng.random() < 0.7 else {"enum": ["a", "b"]}
    return impl.base_doc(paths=paths, components={"schemas": schemas})


def tree_oracle(run, tier, replay_cases=None):
    """Stage C on generated trees: every directory and every .py stem under the package root is a valid non-keyword identifier, and
    the api/<tag>/<module>.py and models/<module>.py names are exactly Names.python_identifier of the parsed tag / operation / class names."""
    rng = run.rng
    n = 30 if tier == "quick" else 300
    docs = [c["input"] for c in replay_cases] if replay_cases is not None else (
        [impl.base_doc(paths={f"/p{i}": {"get": {"operationId": o, "tags": [t], "responses": {"200": {"description": "ok"}}}}
                              for i, (o, t) in enumerate([("2fa_verify", "1tag"), ("$$", "$$"), ("class", "class"), ("getUser", "My Tag"), ("", "default")])},
                       components={"schemas": {"2fa": {"type": "object"}, "class": {"enum": ["a"]}}})] + [gen_tree_doc(rng) for _ in range(n)])
    terms, meta = [], []
    for doc in docs:
        case = {"scope": "tree", "input": doc}
        data, _ = impl.parse_doc(doc)
        if not hasattr(data, "models"):
            run.violation("oracle", {"scope_case": case, "note": "document rejected", "error": str(data)})
            continue
        want_tags = {str(t): [e.name for e in c.endpoints] for t, c in data.endpoint_collections_by_tag.items()}
        raw_tags = sorted({t for p in doc["paths"].values() for op in p.values() for t in op.get("tags") or ["default"]})
        classes = [str(m.class_info.name) for m in data.models] + [str(e.class_info.name) for e in data.enums]
        with impl.Gen(doc) as g:
            if g.exc is not None:
                run.violation("oracle", {"scope_case": case, "note": "generation raised", "error": repr(g.exc)})
                continue
            files = sorted(g.files())
        run.note_case({"scope": "tree", "operationIds": [e for v in want_tags.values() for e in v], "tags": raw_tags, "classes": classes}, nontrivial=True, kind="tree")
        comps = set()
        for f in files:
            parts = f.split("/")
            if not f.endswith(".py"):
                continue
            for j, part in enumerate(parts):
                comps.add(("/".join(parts[:j]), part[:-3] if j == len(parts) - 1 else part))
        for where, comp in sorted(comps):
            if not comp.isidentifier() or keyword.iskeyword(comp):
                import re as _re
                if any(_re.fullmatch(r"\w", ch) and not ("a" + ch).isidentifier() for ch in comp):
                    if run.known_finding("xid_gap", f"generated path component {comp!r} under {where!r} is not an identifier (\\w character outside XID_Continue)"):
                        continue
                run.violation("oracle", {"scope_case": case, "component": comp, "under": where, "files": files[:40],
                                         "note": "a generated module / package name is not a valid non-keyword Python identifier (not importable)"})
        # exact names, evaluated in Coq
        tag_dirs = sorted({f.split("/")[1] for f in files if f.startswith("api/") and f.count("/") >= 2})
        tg = "[" + "; ".join(cstr(t) for t in raw_tags) + "]"
        terms.append(f"forallb (fun d => existsb (fun t => eqf (python_identifier t {cstr('tag')} false) d) {tg}) {cstrs(tag_dirs)} && "
                     f"forallb (fun t => existsb (fun d => eqf (python_identifier t {cstr('tag')} false) d) {cstrs(tag_dirs)}) {tg}")
        meta.append((case, "tag directories", raw_tags, tag_dirs))
        for t, names in want_tags.items():
            stems = sorted(f.split("/")[2][:-3] for f in files if f.startswith(f"api/{t}/") and f.endswith(".py") and not f.endswith("__init__.py"))
            terms.append(f"forallb (fun s => existsb (fun n => eqf (python_identifier n fp false) s) {cstrs(names)}) {cstrs(stems)} && "
                         f"forallb (fun n => existsb (fun s => eqf (python_identifier n fp false) s) {cstrs(stems)}) {cstrs(names)}")
            meta.append((case, f"endpoint modules of api/{t}", names, stems))
        stems = sorted(f.split("/")[1][:-3] for f in files if f.startswith("models/") and f.endswith(".py") and not f.endswith("__init__.py"))
        terms.append(f"forallb (fun s => existsb (fun n => eqf (python_identifier n fp false) s) {cstrs(classes)}) {cstrs(stems)} && "
                     f"forallb (fun n => existsb (fun s => eqf (python_identifier n fp false) s) {cstrs(stems)}) {cstrs(classes)}")
        meta.append((case, "model modules", classes, stems))
    bad = run_cases(HDR2, terms, shard=60)
    run.corr["cases"] += len(terms)
    run.corr["mismatches"] += len(bad)
    run.corr["what"] += "; names of api/<tag>/, api/<tag>/<operation>.py and models/<class>.py of generated trees == Names.python_identifier of the parsed tag / operation / class names"
    for i in bad[:10]:
        case, what, names, stems = meta[i]
        run.violation("correspondence", {"scope_case": case, "what": what, "names": names, "generated": stems,
                                         "note": "generated module / package names are not PythonIdentifier(name) as modelled by Names.python_identifier (python_identifier_valid does not apply to them)"})


# ------------------------------------------------------------------ name sets per scope through the parser
def _collide_sets(rng, n):
    """Name sets whose members share (or nearly share) a snake_case image."""
    base = ["item id", "http response", "a b", "x", "user name", "v 1", "class", "self", "client", "url", "id"]
    out = []
    for _ in range(n):
        w = rng.choice(base).split(" ")
        variants = set()
        for _ in range(rng.randint(2, 4)):
            sep = rng.choice(["_", "-", " ", ".", "", "__"])
            ws = [rng.choice([x, x.upper(), x.capitalize()]) for x in w]
            v = sep.join(ws)
            if rng.random() < 0.3:
                v = rng.choice(["_", "", "$", " "]) + v
            if rng.random() < 0.3:
                v = v + rng.choice(["_", "$", "!", " "])
            variants.add(v)
        if rng.random() < 0.5:
            variants.add(S.rand_str(rng, S.ORD, 6))
        out.append(sorted(v for v in variants if v))
    return out


def scopes(run, tier):
    import ast
    rng = run.rng
    n = 60 if tier == "quick" else 600
    sets = [["a-b", "a_b"], ["Self", "self!", "$Self"], ["itemId", "item_id", "ItemID"], ["client", "Client"], ["url", "URL", "Url"], ["a", "A"], ["x y", "x_y", "x-y", "x.y"]] + _collide_sets(rng, n)
    for names in sets:
        if len(names) < 2:
            continue
        # (1) model attributes
        props = {nm: {"type": "string"} for nm in names}
        # (2) parameters in mixed locations
        params = []
        for nm in names:
            loc = rng.choice(["query", "header", "cookie"])
            params.append({"name": nm, "in": loc, "required": True, "schema": {"type": "string"}})
        doc = impl.base_doc(
            components={"schemas": {"M": {"type": "object", "properties": props}}},
            paths={"/p": {"get": {"operationId": "op", "parameters": params, "responses": {"200": {"description": "ok"}}}}},
        )
        data, cfg = impl.parse_doc(doc)
        case = {"scope_names": names}
        run.note_case(case, kind="scope-set")
        if not hasattr(data, "models"):
            run.violation("oracle", {"names": names, "note": "document rejected", "error": str(data)})
            continue
        diags = [str(e.detail) + str(getattr(e, "header", "")) for e in data.errors] + [str(e.detail) for c in data.endpoint_collections_by_tag.values() for e in c.parse_errors]
        models = list(data.models)
        if models:
            m = models[0]
            if m.required_properties is None or m.optional_properties is None:
                run.violation("oracle", {"names": names, "note": "model left unprocessed (required_properties None) in final output", "diags": diags})
                continue
            pn = [str(p.python_name) for p in list(m.required_properties) + list(m.optional_properties)]
            _judge_scope(run, "model attributes", names, pn, diags)
        elif not diags:
            run.violation("oracle", {"names": names, "note": "model dropped without diagnostic"})
        eps = [e for c in data.endpoint_collections_by_tag.values() for e in c.endpoints]
        if eps:
            e = eps[0]
            pn = [str(p.python_name) for _, p in e.iter_all_parameters()]
            _judge_scope(run, "operation parameters", names, pn, diags, reserved=("client", "url"))
        elif not diags:
            run.violation("oracle", {"names": names, "note": "endpoint dropped without diagnostic"})


def _judge_scope(run, scope, names, pn, diags, reserved=()):
    dup = len(set(pn)) != len(pn)
    invalid = [x for x in pn if not x.isidentifier() or keyword.iskeyword(x) or x in reserved]
    from openapi_python_client.utils import PythonIdentifier
    default = {str(PythonIdentifier(n, "field_")) for n in names}
    dups = {x for x in pn if pn.count(x) > 1}
    # a duplicate is attributable to the raw-name fallback only when the duplicated python name is not a default (snake-cased) name
    if dup and scope == "model attributes" and not (dups & default) and run.known_finding("attr_rename_unchecked", f"{scope}: names {names!r} -> python names {pn!r}: a raw-name fallback rename is not re-checked against third parties"):
        dup = False
    if dup:
        run.violation("oracle", {"scope": scope, "names": names, "python_names": pn, "note": "two document names silently share one python name"})
    if invalid:
        # raw-name fallback keeps delimiters: known finding when every invalid name arises from skip_snake_case on a delimiter-carrying or xid-gap name
        if all(any(ch in x for ch in "-. ") or not x.isidentifier() for x in invalid):
            if run.known_finding("raw_fallback", f"{scope}: names {names!r} collide after snake_case; raw-name fallback yields {invalid!r} (not identifiers)"):
                return
        run.violation("oracle", {"scope": scope, "names": names, "python_names": pn, "invalid": invalid})


# ------------------------------------------------------------------ stage B/C for ProcProps.v: allOf merging x python-name conflicts
# A case is a small description of a components-only document: leaf object schemas A0..Ak (the referenced allOf members) and the
# composed schema Z = allOf[$ref | inline object]* + own properties.  kind: "any" | "string" | "date" | "date-time" | "integer" |
# "number" | ["enum_s", [..]] | ["enum_i", [..]] | ["ref", <component enum>].
PP_ENUMS = {"ES1": ("s", ["a", "b"]), "ES2": ("s", ["a", "b", "c"]), "ES3": ("s", ["x", "y"]), "EI1": ("i", [1, 2]), "EI2": ("i", [1, 2, 3])}
PP_FAMS = [   # short names: the model's name functions are evaluated character by character inside Coq
    (["toDo", "to_do", "ToDo", "to-do", "To_Do", "toDo$"], "s"),
    (["endT", "end_t", "EndT", "end t"], "s"),
    (["aBc", "ABc", "A_bc", "$a_Bc", "a_Bc", "a_bc"], "s"),
    (["Self", "self!", "$Self", "self"], "s"),
    (["cnT", "cn_t", "CnT", "cn.t"], "n"),
    (["id", "ID", "Id", "_id"], "n"),
    (["mV", "m_v", "M_V"], "n"),
    (["x"], "n"), (["lb"], "s"), (["class"], "s"),
]
PP_CLUSTER = {"s": ["any", "string", "string", "date", "date-time", "enum_s", "ref_s"], "n": ["any", "integer", "number", "number", "enum_i", "ref_i"]}
PP_SIMPLE = {"any": ({}, "MAny"), "string": ({"type": "string"}, "MStr"), "date": ({"type": "string", "format": "date"}, "MDate"),
             "date-time": ({"type": "string", "format": "date-time"}, "MDateTime"), "integer": ({"type": "integer"}, "MInt"),
             "number": ({"type": "number"}, "MFloat")}
PP_HDR = HDR + """
Require Import OPC.PyLit OPC.Values OPC.Merge OPC.Scopes OPC.ProcProps.
Definition fp : str := [102;105;101;108;100;95].
Definition o0 : oracles := {| parse_float := fun _ => None; float_of_int := fun _ => None; isoparse_ok := fun _ => false; uuid_ok := fun _ => false |}.
Definition P (k : mkind) : mprop := MP k false None None None PL_none.
Definition ES (vs : list str) : mprop := MP MEnum false None None None (PL_enum VStr (map (fun v => (@nil N, EStr v)) vs) []).
Definition EI (vs : list Z) : mprop := MP MEnum false None None None (PL_enum VInt (map (fun v => (@nil N, EInt v)) vs) []).
Definition R (p : mprop) : mprop := set_required true p.
Definition ev_eqb (a b : str * evalue) : bool := evalue_eqb (snd a) (snd b).
Definition oprop_eqb (a b : mprop) : bool :=
  mkind_eqb (mp_kind a) (mp_kind b) && Bool.eqb (mp_required a) (mp_required b) &&
  match mp_pl a, mp_pl b with
  | PL_none, PL_none => true
  | PL_enum v1 m1 _, PL_enum v2 m2 _ => vtype_eqb v1 v2 && list_eqb ev_eqb m1 m2
  | _, _ => false
  end.
Definition oinp_eqb (a b : inp) : bool := str_eqb (i_name a) (i_name b) && str_eqb (i_py a) (i_py b) && oprop_eqb (i_prop a) (i_prop b).
Definition pp_eqb (a b : pres (list inp)) : bool :=
  match a, b with
  | POk x, POk y => list_eqb oinp_eqb x y
  | PErrMerge, PErrMerge | PErrName, PErrName | PErrRef, PErrRef => true
  | _, _ => false
  end.
Definition pp_model (d : cdoc) : pres (list inp) := pres_map req_first (process_doc o0 fp d).
"""


def _pp_palette(rng, cluster):
    """Kinds one name family draws from in one document: mostly a chain that merge_properties can narrow (any < string < date,
    any < number < integer < int enum, ...), so that re-declarations usually merge and the python-name logic is reached."""
    if cluster == "s":
        top = rng.choice([["date"], ["date-time"], ["enum_s", "ref_s"], ["enum_s"], ["ref_s"]])
        return ["any", "string", "string"] + top + top
    top = rng.choice([["integer"], ["integer", "enum_i"], ["integer", "ref_i"]])
    return ["any", "number"] * (1 if len(top) > 1 else 2) + top + top


def _pp_kind(rng, palette, owner, fam_key, inline_enums):
    k = rng.choice(palette) if rng.random() < 0.93 else rng.choice(PP_CLUSTER["s"] + PP_CLUSTER["n"])
    if k in ("enum_s", "enum_i"):
        # one inline enum per (owner class, name family): the enum class name is derived from both, and two different value lists
        # under one class name are rejected by EnumProperty.build before the loop under test is reached
        key = (owner, fam_key)
        if key not in inline_enums:
            inline_enums[key] = [k, list(rng.choice([["a", "b"], ["a", "b", "c"], ["a", "b"], ["b"], ["x", "y"]]) if k == "enum_s" else rng.choice([[1, 2], [1, 2, 3], [2], [7, 8]]))]
        if inline_enums[key][0] == k:
            return inline_enums[key]
        k = "string" if k == "enum_s" else "integer"
    if k == "ref_s":
        return ["ref", rng.choice(["ES1", "ES2", "ES2", "ES3"])]
    if k == "ref_i":
        return ["ref", rng.choice(["EI1", "EI2"])]
    return k


def gen_pp_case(rng):
    fams = rng.sample(range(len(PP_FAMS)), rng.randint(1, 3))
    pool = []
    for fi in fams:
        names, cl = PP_FAMS[fi]
        pal = _pp_palette(rng, cl)
        for nm in rng.sample(names, min(len(names), rng.randint(1, 3))):
            pool.append((nm, pal, fi))
    inline_enums = {}

    def obj(owner, lo, hi):
        chosen = rng.sample(pool, min(len(pool), rng.randint(lo, hi)))
        props = [[nm, _pp_kind(rng, pal, owner, fi, inline_enums)] for nm, pal, fi in chosen]
        req = [nm for nm, _, _ in pool if rng.random() < (0.3 if any(nm == p[0] for p in props) else 0.08)]
        return {"props": props, "required": req}

    k = rng.randint(1, 3)
    parents = [obj(f"A{i}", 1, 4) for i in range(k)]
    members = []
    for j in range(rng.randint(2, 4)):
        if rng.random() < 0.5:
            members.append({"ref": rng.randrange(k)})
        else:
            members.append(obj("Z", 1, 4))
    own = obj("Z", 1, 3) if rng.random() < 0.45 else {"props": [], "required": []}
    return {"parents": parents, "members": members, "own": own}


def _pp_schema(kind):
    if isinstance(kind, str):
        return dict(PP_SIMPLE[kind][0])
    if kind[0] == "ref":
        return {"$ref": "#/components/schemas/" + kind[1]}
    return {"type": "string" if kind[0] == "enum_s" else "integer", "enum": list(kind[1])}


def _pp_object(o):
    d = {"type": "object", "properties": {n: _pp_schema(kd) for n, kd in o["props"]}}
    if o["required"]:
        d["required"] = list(o["required"])
    return d


def pp_doc(case):
    """The composed schema comes FIRST: _process_models then attempts it exactly once after its members (a failed attempt of a
    schema listed after its members is repeated on property objects whose python names the first attempt already changed)."""
    z = {"allOf": [({"$ref": f"#/components/schemas/A{m['ref']}"} if "ref" in m else _pp_object(m)) for m in case["members"]]}
    if case["own"]["props"]:
        z["type"] = "object"
        z["properties"] = _pp_object(case["own"])["properties"]
    if case["own"]["required"]:
        z["required"] = list(case["own"]["required"])
    comps = {"Z": z}
    for i, p in enumerate(case["parents"]):
        comps[f"A{i}"] = _pp_object(p)
    for en, (t, vals) in PP_ENUMS.items():
        comps[en] = {"type": "string" if t == "s" else "integer", "enum": list(vals)}
    return impl.base_doc(components={"schemas": comps})


def _pp_mprop(kind):
    if isinstance(kind, str):
        return f"(P {PP_SIMPLE[kind][1]})"
    if kind[0] == "ref":
        t, vals = PP_ENUMS[kind[1]]
        kind = ["enum_s" if t == "s" else "enum_i", vals]
    if kind[0] == "enum_s":
        return f"(ES {cstrs(kind[1])})"
    return "(EI [" + "; ".join(f"({v})%Z" for v in kind[1]) + "])"


def _pp_cschema(o):
    ds = "[" + "; ".join(f"({cstr(n)}, {_pp_mprop(kd)})" for n, kd in o["props"]) + "]" if o["props"] else "(@nil decl)"
    return f"({ds}, {cstrs(o['required'])})"


def pp_cdoc(case):
    ps = "[" + "; ".join(_pp_cschema(p) for p in case["parents"]) + "]"
    ms = "[" + "; ".join((f"MRef {m['ref']}" if "ref" in m else f"MInl {_pp_cschema(m)}") for m in case["members"]) + "]"
    return f"(mk_cdoc {ps} {ms} {_pp_cschema(case['own'])})"


_PP_TYPES = {"AnyProperty": "MAny", "StringProperty": "MStr", "DateProperty": "MDate", "DateTimeProperty": "MDateTime", "IntProperty": "MInt", "FloatProperty": "MFloat"}


def real_pp(case):
    """The composed model Z through the real document parser: ('ok', [(name, python_name, kind term, type name, required)]) in
    required-then-optional order | ('err', 'merge'|'name'|'ref', detail) | ('other', text)."""
    data, _ = impl.parse_doc(pp_doc(case))
    if not hasattr(data, "models"):
        return ("other", str(data)[:300])
    z = [m for m in data.models if str(m.class_info.name) == "Z"]
    zerr = [e for e in data.errors if "/components/schemas/Z:" in str(getattr(e, "header", ""))]
    if z and not zerr:
        m = z[0]
        if m.required_properties is None or m.optional_properties is None:
            return ("other", "Z left unprocessed")
        out = []
        for p in list(m.required_properties) + list(m.optional_properties):
            tn = type(p).__name__
            if tn in _PP_TYPES:
                t = f"(P {_PP_TYPES[tn]})"
            elif tn == "EnumProperty":
                vals = list(p.values.values())
                t = f"(ES {cstrs(vals)})" if p.value_type is str else "(EI [" + "; ".join(f"({v})%Z" for v in vals) + "])"
            else:
                return ("other", "unexpected property class " + tn)
            out.append((p.name, str(p.python_name), f"(R {t})" if p.required else t, tn, bool(p.required)))
        return ("ok", out)
    if zerr and not z:
        det = str(zerr[-1].detail or "")
        if det.startswith("Properties ") and "have the same python_name" in det:
            return ("err", "name", det[:160])
        if det.startswith("Reference ") and "in allOf was not processed" in det:
            return ("err", "ref", det[:160])
        if "can't be merged with" in det or "can't redefine an enum property" in det or "can't combine enum of type" in det:
            return ("err", "merge", det[:160])
        return ("other", det[:300])
    return ("other", f"Z: {len(z)} model(s), {len(zerr)} error(s); errors: " + "; ".join(str(e.detail)[:100] for e in data.errors))


PP_FIXED = [
    # later member re-declares the first of two snake-case twins with a narrower type: the merged property takes the new declaration's python name
    {"parents": [{"props": [["startDate", "string"]], "required": []}],
     "members": [{"ref": 0}, {"props": [["start_date", "string"]], "required": []}, {"props": [["startDate", "date"]], "required": ["startDate"]}], "own": {"props": [], "required": []}},
    {"parents": [{"props": [["itemCount", "number"], ["item_count", "number"]], "required": []}, {"props": [["itemCount", "integer"]], "required": []}],
     "members": [{"ref": 0}, {"ref": 1}], "own": {"props": [], "required": []}},
    {"parents": [{"props": [["startDate", "any"], ["x", "integer"]], "required": ["x"]}],
     "members": [{"ref": 0}, {"props": [["StartDate", "string"]], "required": []}], "own": {"props": [["startDate", ["enum_s", ["a", "b"]]], ["start_date", "string"]], "required": []}},
    {"parents": [{"props": [["id", "integer"]], "required": []}, {"props": [["ID", "integer"]], "required": ["ID"]}],
     "members": [{"ref": 0}, {"ref": 1}, {"props": [["id", ["ref", "EI1"]]], "required": []}], "own": {"props": [], "required": []}},
    # the merge step whose rename of a third party is not re-checked (attr_rename_unchecked reached through a re-declaration)
    {"parents": [{"props": [["fooBar", "string"], ["FooBar", "string"]], "required": []}],
     "members": [{"ref": 0}, {"props": [["Foo_bar", "string"], ["$foo_Bar", "string"], ["foo_Bar", "string"]], "required": []}, {"props": [["fooBar", "date"]], "required": []}],
     "own": {"props": [], "required": []}},
    # raw names collide too -> diagnostic; incompatible kinds -> diagnostic; failed member -> diagnostic
    {"parents": [{"props": [["startDate", "string"]], "required": []}], "members": [{"ref": 0}, {"props": [["startDate$", "string"]], "required": []}], "own": {"props": [], "required": []}},
    {"parents": [{"props": [["startDate", "date"]], "required": []}], "members": [{"ref": 0}, {"props": [["startDate", "date-time"]], "required": []}], "own": {"props": [], "required": []}},
    {"parents": [{"props": [["startDate", "string"], ["startDate$", "string"]], "required": []}], "members": [{"ref": 0}, {"props": [["x", "integer"]], "required": []}], "own": {"props": [], "required": []}},
]


def procprops_corr(run, tier, replay_cases=None):
    import time
    from openapi_python_client.utils import PythonIdentifier
    rng = run.rng
    n = 1000 if tier == "quick" else 14000
    cases = list(replay_cases) if replay_cases is not None else PP_FIXED + [gen_pp_case(rng) for _ in range(n)]
    terms, meta, rejected = [], [], 0
    for case in cases:
        got = real_pp(case)
        if got[0] == "other":
            rejected += 1
            run.note_case({"pp_case": case, "impl": got}, nontrivial=False, kind="allOf/rejected-by-parser")
            if replay_cases is not None or case in PP_FIXED:
                run.violation("correspondence", {"pp_case": case, "impl": got, "note": "the composed schema Z is neither a processed model nor reported with one of the three diagnostics of the property loop"})
            continue
        if got[0] == "ok":
            obs = "POk [" + "; ".join(f"mk_inp {cstr(nm)} {cstr(py)} {t}" for nm, py, t, _, _ in got[1]) + "]" if got[1] else "POk (@nil inp)"
        else:
            obs = {"merge": "PErrMerge", "name": "PErrName", "ref": "PErrRef"}[got[1]]
        terms.append(f"pp_eqb (pp_model {pp_cdoc(case)}) ({obs})")
        meta.append((case, got))
        kind = "allOf/diagnostic-" + got[1] if got[0] == "err" else "allOf"
        if got[0] == "ok":
            decls = [nm for p in case["parents"] for nm, _ in p["props"]] + [nm for m in case["members"] if "ref" not in m for nm, _ in m["props"]] + [nm for nm, _ in case["own"]["props"]]
            merged = len(decls) != len(set(decls))
            renamed = any(py != str(PythonIdentifier(nm, "field_")) for nm, py, _, _, _ in got[1])
            kind += ("/merge" if merged else "") + ("/raw-fallback" if renamed else "") + ("" if merged or renamed else "/plain")
        run.note_case({"pp_case": case, "impl": [list(x[:2]) + [x[3], x[4]] for x in got[1]] if got[0] == "ok" else list(got)}, nontrivial=True, kind=kind)
    if replay_cases is None and rejected > len(cases) // 20:
        run.violation("correspondence", {"note": f"{rejected} of {len(cases)} generated allOf documents were not processed by the parser in the expected way (generator no longer fits the parser)"}, no_input=True)
    bad = run_cases(PP_HDR, terms, shard=90, jobs=16)
    run.corr["cases"] += len(terms)
    run.corr["mismatches"] += len(bad)
    run.corr["what"] += ("; GeneratorData.from_dict on components-only documents (composed schema Z = allOf of referenced / inline objects + own properties): Z's (name, python_name, "
                         "property class, enum values, required) in required-then-optional order, or the kind of its diagnostic == ProcProps.process_doc")
    for i in bad[:10]:
        case, got = meta[i]
        model = coq_eval(PP_HDR, f"pres_map (map (fun i => (i_name i, i_py i, mp_kind (i_prop i), mp_required (i_prop i)))) (pp_model {pp_cdoc(case)})")
        run.violation("correspondence", {"pp_case": case, "impl": [list(x[:2]) + [x[3], x[4]] for x in got[1]] if got[0] == "ok" else list(got), "model": model[-700:],
                                         "note": "_process_properties (allOf merge x python-name conflict resolution) no longer computes the function modelled in ProcProps.v (theorems of ProcPropsThm.v do not apply)"})
    # ---- stage C on the same outputs: the python names of Z are pairwise distinct valid identifiers; failures are classified by the model
    fails = []
    for case, got in meta:
        if got[0] != "ok":
            continue
        py = [x[1] for x in got[1]]
        dup = len(set(py)) != len(py)
        invalid = [(x[0], x[1]) for x in got[1] if not x[1].isidentifier() or keyword.iskeyword(x[1])]
        if dup or invalid:
            fails.append((case, got, py, dup, invalid))
    explained = set()
    dups = [f for f in fails if f[3]]
    if dups:
        notexpl = set(run_cases(PP_HDR, [f"has_dup_py (process_doc o0 fp {pp_cdoc(f[0])}) && negb (g_quiet_doc o0 fp {pp_cdoc(f[0])})" for f in dups], shard=60, jobs=16))
        explained = {id(f[0]) for k, f in enumerate(dups) if k not in notexpl}
    for case, got, py, dup, invalid in fails:
        if dup:
            if id(case) not in explained:
                run.violation("oracle", {"pp_case": case, "python_names": py, "note": "two properties of the composed model share one python name, no diagnostic; the unchanged algorithm (ProcProps.process_doc) "
                                         "does not produce a duplicate on this input or the run is inside the domain of process_quiet_distinct"})
            elif not run.known_finding("attr_rename_unchecked", f"allOf model: properties {[x[0] for x in got[1]]!r} -> python names {py!r}: a raw-name fallback rename is not re-checked against third parties"):
                run.violation("oracle", {"pp_case": case, "python_names": py, "note": "two attributes silently share one python name"})
        if invalid:
            rawfb = all(x == str(PythonIdentifier(nm, "field_", skip_snake_case=True)) and x != str(PythonIdentifier(nm, "field_")) for nm, x in invalid)
            if not (rawfb and run.known_finding("raw_fallback", f"allOf model: properties {[x[0] for x in got[1]]!r} collide after snake_case; raw-name fallback yields {[x for _, x in invalid]!r} (not identifiers)")):
                run.violation("oracle", {"pp_case": case, "python_names": py, "invalid": invalid, "note": "python name is not a valid non-keyword identifier and is not the raw-name fallback of its own document name"})
