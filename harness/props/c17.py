"""C17 — equivalent documents generate identical clients.
Stage B (correspondence with coq/Norm.v, vm_compute):
  B1  the real pydantic validators (handle_nullable, handle_exclusive_min_max) on random schemas  ==  Norm.pre / Norm.hx
  B2  the real parse (build_schemas -> property objects at component-root and model-attribute positions, default and
      literal_enums config)  ==  Norm.norm (kind tree, derived member names, class names, member order, raw default)
  B3  the real _get_document (file and patched httpx.get, JSON / YAML text, content-type header variants): which parser ran
      ==  Norm.choose_parser (Norm.content_type_of source)
Stage C (metamorphic, byte level): atlas + random documents; every rewrite family applied at a random subset of its
applicable positions; both documents generated; whole trees compared byte for byte.  A difference is classified by the Coq
guards (Norm.g_enum_null / g_wrapper evaluated on the rewritten site) and the position class into a listed finding or VIOLATION."""
import copy, io, json, os, random, re, sys, time, concurrent.futures as cf
from lib.common import cstr, cbool, copt, run_cases, coq_eval, REPO
from lib import impl
from lib.vals import cjval
from gen import schemas as G
from gen import normgen as NG

REF = NG.REF
HDR = ("Require Import OPC.gen.GenTables OPC.Uni OPC.Names OPC.Values OPC.Enums OPC.Norm.\nOpen Scope N_scope.\n"
       "Definition C0 : cfg := {| literal_enums := false; field_prefix := %s |}.\n"
       "Definition C1 : cfg := {| literal_enums := true; field_prefix := %s |}.\n" % (cstr("field_"), cstr("field_")))


def env_header():
    """Coq definitions ENV0 / ENV1: the base components built by the model itself, in document order"""
    out = []
    for ci in (0, 1):
        simple = [n for n in NG.BASE_ORDER if n not in ("L", "U")]
        for n in simple:
            out.append(f"Definition B{ci}_{n} := norm C{ci} (envl []) [] true {NG.csch(NG.BASE[n])} {cstr('/components/schemas/' + n)}.")
        out.append(f"Definition ENVa{ci} := envl [" + "; ".join(f"({cstr(REF + n)}, B{ci}_{n})" for n in simple) + "].")
        for n in ("L", "U"):
            out.append(f"Definition B{ci}_{n} := norm C{ci} ENVa{ci} [] true {NG.csch(NG.BASE[n])} {cstr('/components/schemas/' + n)}.")
        out.append(f"Definition ENV{ci} := envl [" + "; ".join(f"({cstr(REF + n)}, B{ci}_{n})" for n in NG.BASE_ORDER) + "].")
    return "\n".join(out) + "\n"


# ------------------------------------------------------------------ stage B workers
def b_work(args):
    """one stage-B document: returns terms (as strings) + case descriptions.
    Positions: root (components.schemas.<C>), prop (attribute of a holder model), param (Parameter.schema), media (MediaType.schema)."""
    seed, n_sites, literal = args
    rng = random.Random(seed)
    from openapi_python_client import schema as oai
    from openapi_python_client.parser.properties import build_schemas, Schemas
    sg = NG.SGen(rng, literal=literal)
    comps = dict(copy.deepcopy(NG.BASE))
    sites, params, medias = [], [], {}
    for i in range(n_sites):
        s = sg.schema(rng.randint(1, 3))
        r = rng.random()
        if r < 0.22 and "$ref" not in s:
            cname = f"C{i}"
            comps[cname] = s
            sites.append(("root", cname, None, s))
        elif r < 0.32:
            params.append({"name": f"q{i}", "in": "query", "schema": s})
            sites.append(("param", len(params) - 1, None, s))
        elif r < 0.42:
            medias[f"application/x{i}+json"] = {"schema": s}
            sites.append(("media", f"application/x{i}+json", None, s))
        else:
            pn = rng.choice(NG.PNAMES)
            hname = f"H{i}"
            comps[hname] = {"type": "object", "properties": {pn: s}, **({"required": [pn]} if rng.random() < 0.5 else {})}
            sites.append(("prop", hname, pn, s))
    paths = {"/x": {"get": {"operationId": "opx", "parameters": params, "responses": {"200": {"description": "d", "content": medias}}}}}
    doc = G.doc_with(comps, paths=paths)
    out = {"seed": seed, "literal": literal, "pre": [], "tree": [], "error": None}
    try:
        o = oai.OpenAPI.model_validate(copy.deepcopy(doc))
        # B1: validators, at the position the schema really sits
        op = o.paths["/x"].get
        for kind, cn, pn, s in sites:
            if "$ref" in s:
                continue
            if kind == "root":
                v, top = o.components.schemas[cn], True
            elif kind == "prop":
                v, top = o.components.schemas[cn].properties[pn], False
            elif kind == "param":
                v, top = op.parameters[cn].param_schema, True
            else:
                v, top = op.responses["200"].content[cn].media_type_schema, True
            out["pre"].append({"schema": s, "position": kind, "term": f"sch_eqb (pre_at {cbool(top)} {NG.csch(s)}) {NG.csch_validated(v)}",
                               "obs": NG.csch_validated(v), "model": f"pre_at {cbool(top)} {NG.csch(s)}"})
        # B2: trees
        cfg = {"literal_enums": True} if literal else None
        config = impl.make_config("/tmp/none.json", "/tmp/none_out", cfg=cfg)
        with impl.contextlib.redirect_stdout(io.StringIO()):
            schemas = build_schemas(components=o.components.schemas, schemas=Schemas(), config=config)
        by_ref = schemas.classes_by_reference
        ci = 1 if literal else 0
        for kind, cn, pn, s in sites:
            if kind == "root":
                p = by_ref.get("/components/schemas/" + cn)
                name, parent, top = "/components/schemas/" + cn, "", True
            elif kind == "prop":
                h = by_ref.get("/components/schemas/" + cn)
                p = None
                if h is not None and type(h).__name__ == "ModelProperty" and h.required_properties is not None:
                    ps = list(h.required_properties) + list(h.optional_properties)
                    p = ps[0] if len(ps) == 1 else None
                name, parent, top = pn, cn, False
            else:
                continue
            obs = NG.ctree(p)
            model = f"norm C{ci} ENV{ci} {cstr(parent)} {cbool(top)} {NG.csch(s)} {cstr(name)}"
            out["tree"].append({"schema": s, "position": kind, "name": name, "parent": parent, "literal": literal, "term": f"tree_eqb ({model}) {obs}",
                                "obs": obs, "model": model})
    except BaseException as e:  # noqa
        import traceback
        out["error"] = repr(e) + traceback.format_exc()[-1200:]
    return out


def bounds_cases(rng, n):
    """handle_exclusive_min_max on one bound"""
    from openapi_python_client import schema as oai
    cases = []
    for _ in range(n):
        lim = rng.choice([None, 0, 5, -3])
        ex = rng.choice([None, True, False, 2.0, 7.0])
        side = rng.choice(["min", "max"])
        kl, ke = ("minimum", "exclusiveMinimum") if side == "min" else ("maximum", "exclusiveMaximum")
        s = {"type": "integer"}
        if lim is not None:
            s[kl] = lim
        if ex is not None:
            s[ke] = ex
        v = oai.Schema.model_validate(s)
        gl, ge = getattr(v, kl), getattr(v, ke)
        def cex(x):
            return "XAbsent" if x is None else (f"(XBool {cbool(x)})" if isinstance(x, bool) else f"(XNum ({int(x)})%Z)")
        def cb(l, x):
            return "{| b_lim := %s; b_excl := %s |}" % (copt(None if l is None else int(l), lambda z: f"({z})%Z"), cex(x))
        cases.append(({"schema": s}, f"bound_eqb (hx {cb(lim, ex)}) {cb(gl, ge)}"))
    return cases


# ------------------------------------------------------------------ loader (B3 + used by stage C)
def ydump(doc, flow=None):
    from ruamel.yaml import YAML
    y = YAML(typ="safe")
    y.sort_base_mapping_type_on_output = False
    if flow is not None:
        y.default_flow_style = flow
    s = io.StringIO()
    y.dump(doc, s)
    return s.getvalue()


class Source:
    """how a document reaches the generator: ("file", suffix) | ("url", url_path, content_type_header | None)"""
    def __init__(self, kind, text, suffix=".json", url="http://spec.invalid/openapi.json", ctype=None):
        self.kind, self.text, self.suffix, self.url, self.ctype = kind, text, suffix, url, ctype

    def describe(self):
        return {"kind": self.kind, "suffix": self.suffix, "url": self.url, "ctype": self.ctype}


def generate_from(src: Source, cfg=None, spy=None):
    """Generate through the real generate(): file on disk, or URL with httpx.get replaced in-process (no network).
    spy: dict that receives which parser ran ("json" / "yaml"). Returns (files, diag, exc)."""
    import httpx, tempfile, shutil, contextlib
    from pathlib import Path
    import openapi_python_client as opc
    root = Path(tempfile.mkdtemp(prefix="opc_c17_"))
    orig_get, orig_loads, orig_yaml = httpx.get, opc.json.loads, opc.YAML
    try:
        out = root / "out"
        if src.kind == "file":
            p = root / ("doc" + src.suffix)
            p.write_bytes(src.text.encode("utf-8"))
            source = p
        else:
            source = src.url
            def fake_get(url, timeout=None, **kw):
                headers = {} if src.ctype is None else {"content-type": src.ctype}
                return httpx.Response(200, content=src.text.encode("utf-8"), headers=headers, request=httpx.Request("GET", url))
            httpx.get = fake_get
        if spy is not None:
            import json as _json
            class SpyJson:
                def __getattr__(self, k):
                    return getattr(_json, k)
                @staticmethod
                def loads(*a, **k):
                    spy["parser"] = "json"
                    return _json.loads(*a, **k)
            class SpyYaml(orig_yaml):
                def load(self, *a, **k):
                    spy["parser"] = "yaml"
                    return super().load(*a, **k)
            opc.json, opc.YAML = SpyJson(), SpyYaml
        config = impl.make_config(source, out, cfg=cfg)
        exc, errors = None, []
        try:
            with contextlib.redirect_stdout(io.StringIO()):
                errors = list(opc.generate(config=config))
        except BaseException as e:  # noqa
            exc = repr(e)
        files = {}
        if out.exists():
            for f in sorted(out.rglob("*")):
                if f.is_file():
                    files[str(f.relative_to(out))] = f.read_bytes()
        diag = [(str(getattr(e.level, "name", e.level)), e.header, e.detail) for e in errors]
        return files, diag, exc
    finally:
        httpx.get = orig_get
        if spy is not None:
            import json as _json
            opc.json, opc.YAML = _json, orig_yaml
        shutil.rmtree(root, ignore_errors=True)


# ------------------------------------------------------------------ run
def stage_b(run, tier, rng):
    n_docs, n_sites = (14, 40) if tier == "quick" else (120, 50)
    jobs = [(rng.randrange(1 << 30), n_sites, (i % 4 == 3)) for i in range(n_docs)]
    t0 = time.time()
    with cf.ProcessPoolExecutor(max_workers=14) as ex:
        results = list(ex.map(b_work, jobs))
    hdr = HDR + env_header()
    terms, meta = [], []
    for r in results:
        if r["error"]:
            run.violation("harness-or-parser", {"seed": r["seed"], "error": r["error"]})
            continue
        for c in r["pre"]:
            if "term" in c:
                terms.append(c["term"]); meta.append(("pre", c))
                run.note_case({"stage": "B1", "schema": c["schema"], "position": c["position"]}, nontrivial=bool(c["schema"].get("nullable")), kind="B1-validator-" + c["position"])
        for c in r["tree"]:
            terms.append(c["term"]); meta.append(("tree", c))
            run.note_case({"stage": "B2", "schema": c["schema"], "position": c["position"], "name": c["name"], "literal": c["literal"]},
                          nontrivial=c["obs"] != "TErr", kind="B2-" + c["position"] + ("-literal" if c["literal"] else ""))
    for case, term in bounds_cases(rng, 40 if tier == "quick" else 200):
        terms.append(term); meta.append(("bound", case))
        run.note_case({"stage": "B1", **case}, nontrivial=True, kind="B1-bounds")
    print("phase B gen %.1fs (%d terms)" % (time.time() - t0, len(terms))); t0 = time.time()
    bad = run_cases(hdr, terms, shard=250)
    print("phase B coq %.1fs" % (time.time() - t0))
    for i in bad[:8]:
        kind, c = meta[i]
        if kind == "tree":
            mv = coq_eval(hdr, c["model"])
            run.violation("correspondence", {"what": "property tree", "schema": c["schema"], "position": c["position"], "name": c["name"], "parent": c["parent"],
                                             "literal_enums": c["literal"], "impl": c["obs"][:1500], "model": mv[-1500:],
                                             "note": "the parser no longer builds the property tree Norm.norm computes (for which the C17 equivalences are proved)"})
        elif kind == "pre":
            mv = coq_eval(hdr, c["model"])
            run.violation("correspondence", {"what": "schema validators (handle_nullable)", "schema": c["schema"], "position": c["position"], "impl": c["obs"][:1200], "model": mv[-1200:]})
        else:
            run.violation("correspondence", {"what": "handle_exclusive_min_max", **c, "term": terms[i]})
    return len(terms), len(bad)


def run(run, tier, replay=None):
    rng = run.rng
    nb, bad = stage_b(run, tier, rng)
    run.corr = {"cases": nb, "mismatches": bad, "what": "B1 validators == Norm.pre/hx; B2 parsed property objects == Norm.norm"}
