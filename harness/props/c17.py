"""C17 — equivalent documents generate identical clients.
Stage B (correspondence with coq/Norm.v, vm_compute):
  B1  the real pydantic validators (handle_nullable, handle_exclusive_min_max) on random schemas  ==  Norm.pre / Norm.hx
  B2  the real parse (build_schemas -> property objects at component-root and model-attribute positions, default and
      literal_enums config)  ==  Norm.norm (kind tree, derived member names, class names, member order, raw default)
  B3  the real _get_document (file and patched httpx.get, JSON / YAML text, content-type header variants): which parser ran
      ==  Norm.choose_parser (Norm.content_type_of source)
Stage C (metamorphic, byte level): atlas + random documents; every rewrite family applied at a random subset of its
applicable positions; both documents generated; whole trees compared byte for byte.  A difference is classified by the Coq
guards (Norm.g_enum_null / g_wrapper evaluated on the rewritten site) and the position class into a listed finding or VIOLATION."""
import copy, io, json, os, random, re, sys, time, concurrent.futures as cf
from lib.common import cstr, cbool, copt, run_cases, coq_eval, REPO
from lib import impl
from lib.vals import cjval
from gen import schemas as G
from gen import normgen as NG
from gen import rewrites as RW

REF = NG.REF
HDR = ("Require Import OPC.gen.GenTables OPC.Uni OPC.Names OPC.Values OPC.Enums OPC.Norm.\nOpen Scope N_scope.\n"
       "Definition C0 : cfg := {| literal_enums := false; field_prefix := %s |}.\n"
       "Definition C1 : cfg := {| literal_enums := true; field_prefix := %s |}.\n" % (cstr("field_"), cstr("field_")))


def env_header():
    """Coq definitions ENV0 / ENV1: the base components built by the model itself, in document order"""
    out = []
    for ci in (0, 1):
        simple = [n for n in NG.BASE_ORDER if n not in ("L", "U")]
        for n in simple:
            out.append(f"Definition B{ci}_{n} := norm C{ci} (envl []) [] true {NG.csch(NG.BASE[n])} {cstr('/components/schemas/' + n)}.")
        out.append(f"Definition ENVa{ci} := envl [" + "; ".join(f"({cstr(REF + n)}, B{ci}_{n})" for n in simple) + "].")
        for n in ("L", "U"):
            out.append(f"Definition B{ci}_{n} := norm C{ci} ENVa{ci} [] true {NG.csch(NG.BASE[n])} {cstr('/components/schemas/' + n)}.")
        out.append(f"Definition ENV{ci} := envl [" + "; ".join(f"({cstr(REF + n)}, B{ci}_{n})" for n in NG.BASE_ORDER) + "].")
    return "\n".join(out) + "\n"


# ------------------------------------------------------------------ stage B workers
def b_work(args):
    """one stage-B document: returns terms (as strings) + case descriptions.
    Positions: root (components.schemas.<C>), prop (attribute of a holder model), param (Parameter.schema), media (MediaType.schema)."""
    seed, n_sites, literal = args
    rng = random.Random(seed)
    sg = NG.SGen(rng, literal=literal)
    plan = []
    for i in range(n_sites):
        s = sg.schema(rng.randint(1, 3))
        r = rng.random()
        if r < 0.22 and "$ref" not in s:
            plan.append(("root", s, None, False))
        elif r < 0.32:
            plan.append(("param", s, None, False))
        elif r < 0.42:
            plan.append(("media", s, None, False))
        else:
            plan.append(("prop", s, rng.choice(NG.PNAMES), rng.random() < 0.5))
    return b_eval(plan, literal, seed)


def b_eval(plan, literal, seed=None):
    """plan: [(position, schema, attribute name | None, required)]"""
    from openapi_python_client import schema as oai
    from openapi_python_client.parser.properties import build_schemas, Schemas
    comps = dict(copy.deepcopy(NG.BASE))
    sites, params, medias = [], [], {}
    for i, (pos, s, pn, req) in enumerate(plan):
        if pos == "root":
            cname = f"C{i}"
            comps[cname] = s
            sites.append(("root", cname, None, s))
        elif pos == "param":
            params.append({"name": f"q{i}", "in": "query", "schema": s})
            sites.append(("param", len(params) - 1, None, s))
        elif pos == "media":
            medias[f"application/x{i}+json"] = {"schema": s}
            sites.append(("media", f"application/x{i}+json", None, s))
        else:
            hname = f"H{i}"
            comps[hname] = {"type": "object", "properties": {pn: s}, **({"required": [pn]} if req else {})}
            sites.append(("prop", hname, pn, s))
    paths = {"/x": {"get": {"operationId": "opx", "parameters": params, "responses": {"200": {"description": "d", "content": medias}}}}}
    doc = G.doc_with(comps, paths=paths)
    out = {"seed": seed, "literal": literal, "pre": [], "tree": [], "error": None}
    try:
        o = oai.OpenAPI.model_validate(copy.deepcopy(doc))
        # B1: validators, at the position the schema really sits
        op = o.paths["/x"].get
        for kind, cn, pn, s in sites:
            if "$ref" in s:
                continue
            if kind == "root":
                v, top = o.components.schemas[cn], True
            elif kind == "prop":
                v, top = o.components.schemas[cn].properties[pn], False
            elif kind == "param":
                v, top = op.parameters[cn].param_schema, True
            else:
                v, top = op.responses["200"].content[cn].media_type_schema, True
            out["pre"].append({"schema": s, "position": kind, "term": f"sch_eqb (pre_at {cbool(top)} {NG.csch(s)}) {NG.csch_validated(v)}",
                               "obs": NG.csch_validated(v), "model": f"pre_at {cbool(top)} {NG.csch(s)}"})
        # B2: trees
        cfg = {"literal_enums": True} if literal else None
        config = impl.make_config("/tmp/none.json", "/tmp/none_out", cfg=cfg)
        with impl.contextlib.redirect_stdout(io.StringIO()):
            schemas = build_schemas(components=o.components.schemas, schemas=Schemas(), config=config)
        by_ref = schemas.classes_by_reference
        ci = 1 if literal else 0
        for kind, cn, pn, s in sites:
            if kind == "root":
                p = by_ref.get("/components/schemas/" + cn)
                name, parent, top = "/components/schemas/" + cn, "", True
            elif kind == "prop":
                h = by_ref.get("/components/schemas/" + cn)
                p = None
                if h is not None and type(h).__name__ == "ModelProperty" and h.required_properties is not None:
                    ps = list(h.required_properties) + list(h.optional_properties)
                    p = ps[0] if len(ps) == 1 else None
                name, parent, top = pn, cn, False
            else:
                continue
            if NG.rebuilt_tuple(s):
                continue      # stateful growth of prefixItems on repeated builds: listed finding, outside the model
            obs = NG.ctree(p)
            model = f"norm C{ci} ENV{ci} {cstr(parent)} {cbool(top)} {NG.csch(s)} {cstr(name)}"
            out["tree"].append({"schema": s, "position": kind, "name": name, "parent": parent, "literal": literal, "term": f"tree_eqb ({model}) {obs}",
                                "obs": obs, "model": model})
    except BaseException as e:  # noqa
        import traceback
        out["error"] = repr(e) + traceback.format_exc()[-1200:]
    return out


def bounds_cases(rng, n):
    """handle_exclusive_min_max on one bound"""
    from openapi_python_client import schema as oai
    cases = []
    for _ in range(n):
        lim = rng.choice([None, 0, 5, -3])
        ex = rng.choice([None, True, False, 2.0, 7.0])
        side = rng.choice(["min", "max"])
        kl, ke = ("minimum", "exclusiveMinimum") if side == "min" else ("maximum", "exclusiveMaximum")
        s = {"type": "integer"}
        if lim is not None:
            s[kl] = lim
        if ex is not None:
            s[ke] = ex
        v = oai.Schema.model_validate(s)
        gl, ge = getattr(v, kl), getattr(v, ke)
        def cex(x):
            return "XAbsent" if x is None else (f"(XBool {cbool(x)})" if isinstance(x, bool) else f"(XNum ({int(x)})%Z)")
        def cb(l, x):
            return "{| b_lim := %s; b_excl := %s |}" % (copt(None if l is None else int(l), lambda z: f"({z})%Z"), cex(x))
        cases.append(({"schema": s}, f"bound_eqb (hx {cb(lim, ex)}) {cb(gl, ge)}"))
    return cases


# ------------------------------------------------------------------ loader (B3 + used by stage C)
def ydump(doc, flow=None):
    from ruamel.yaml import YAML
    y = YAML(typ="safe")
    y.sort_base_mapping_type_on_output = False
    if flow is not None:
        y.default_flow_style = flow
    s = io.StringIO()
    y.dump(doc, s)
    return s.getvalue()


class Source:
    """how a document reaches the generator: ("file", suffix) | ("url", url_path, content_type_header | None)"""
    def __init__(self, kind, text, suffix=".json", url="http://spec.invalid/openapi.json", ctype=None):
        self.kind, self.text, self.suffix, self.url, self.ctype = kind, text, suffix, url, ctype

    def describe(self):
        return {"kind": self.kind, "suffix": self.suffix, "url": self.url, "ctype": self.ctype}


def generate_from(src: Source, cfg=None, spy=None):
    """Generate through the real generate(): file on disk, or URL with httpx.get replaced in-process (no network).
    spy: dict that receives which parser ran ("json" / "yaml"). Returns (files, diag, exc)."""
    import httpx, tempfile, shutil, contextlib
    from pathlib import Path
    import openapi_python_client as opc
    root = Path(tempfile.mkdtemp(prefix="opc_c17_"))
    orig_get, orig_loads, orig_yaml = httpx.get, opc.json.loads, opc.YAML
    try:
        out = root / "out"
        if src.kind == "file":
            p = root / ("doc" + src.suffix)
            p.write_bytes(src.text.encode("utf-8"))
            source = p
        else:
            source = src.url
            def fake_get(url, timeout=None, **kw):
                headers = {} if src.ctype is None else {"content-type": src.ctype}
                return httpx.Response(200, content=src.text.encode("utf-8"), headers=headers, request=httpx.Request("GET", url))
            httpx.get = fake_get
        if spy is not None:
            import json as _json
            class SpyJson:
                def __getattr__(self, k):
                    return getattr(_json, k)
                @staticmethod
                def loads(*a, **k):
                    spy["parser"] = "json"
                    return _json.loads(*a, **k)
            class SpyYaml(orig_yaml):
                def load(self, *a, **k):
                    spy["parser"] = "yaml"
                    return super().load(*a, **k)
            opc.json, opc.YAML = SpyJson(), SpyYaml
        config = impl.make_config(source, out, cfg=cfg)
        exc, errors = None, []
        try:
            with contextlib.redirect_stdout(io.StringIO()):
                errors = list(opc.generate(config=config))
        except BaseException as e:  # noqa
            exc = repr(e)
        files = {}
        if out.exists():
            for f in sorted(out.rglob("*")):
                if f.is_file():
                    files[str(f.relative_to(out))] = f.read_bytes()
        diag = [(str(getattr(e.level, "name", e.level)), e.header, e.detail) for e in errors]
        return files, diag, exc
    finally:
        httpx.get = orig_get
        if spy is not None:
            import json as _json
            opc.json, opc.YAML = _json, orig_yaml
        shutil.rmtree(root, ignore_errors=True)


# ------------------------------------------------------------------ B3: which parser runs
def loader_cases():
    """(source description, Coq source term builder) — JSON text that both parsers accept, so the spy sees which one ran"""
    import mimetypes
    from pathlib import Path
    cases = []
    for suffix in [".json", ".yaml", ".yml", ".JSON", ".txt", "", ".json.bak", ".jsonl"]:
        g = mimetypes.guess_type(Path("/tmp/x/doc" + suffix).absolute().as_uri(), strict=True)[0]
        cases.append((("file", suffix, None, None), f"(SFile [] {copt(g, cstr)})"))
    for url, ct in [("http://spec.invalid/openapi.json", "application/json"), ("http://spec.invalid/openapi.json", "application/json; charset=utf-8"),
                    ("http://spec.invalid/openapi.json", "application/json ;charset=utf-8"), ("http://spec.invalid/openapi.json", "Application/JSON"),
                    ("http://spec.invalid/openapi.yaml", "application/yaml"), ("http://spec.invalid/openapi", "text/yaml"), ("http://spec.invalid/openapi.json", "text/plain"),
                    ("http://spec.invalid/openapi.json", None), ("http://spec.invalid/openapi.yaml", None), ("http://spec.invalid/openapi", None),
                    ("http://spec.invalid/openapi.yaml", "application/json;"), ("http://spec.invalid/openapi.json", ";application/json"),
                    ("http://spec.invalid/openapi.json", "application/json;application/yaml"), ("http://spec.invalid/a.yaml", "application/vnd.oai.openapi+json")]:
        g = mimetypes.guess_type(url, strict=True)[0]
        cases.append((("url", None, url, ct), f"(SUrl (Some {{| r_content := []; r_ctype := {copt(ct, cstr)} |}}) {copt(g, cstr)})"))
    return cases


def loader_work(desc):
    kind, suffix, url, ct = desc
    doc = impl.base_doc()
    spy = {}
    src = Source("file", json.dumps(doc), suffix=suffix) if kind == "file" else Source("url", json.dumps(doc), url=url, ctype=ct)
    files, diag, exc = generate_from(src, spy=spy)
    return {"desc": desc, "parser": spy.get("parser"), "nfiles": len(files), "exc": exc, "diag": diag}


# ------------------------------------------------------------------ stage C: pairs
TEXT_FORMATS = ("json", "json-nonascii", "json-indent", "yaml", "yaml-block")


def make_text(doc, fmt):
    if fmt == "json":
        return json.dumps(doc)
    if fmt == "json-nonascii":
        return json.dumps(doc, ensure_ascii=False)
    if fmt == "json-indent":
        return json.dumps(doc, indent=2, ensure_ascii=False)
    if fmt == "yaml":
        return ydump(doc)
    if fmt == "yaml-block":
        return ydump(doc, flow=False)
    raise ValueError(fmt)


def make_source(doc, spec):
    """spec: {"via": "file"|"url", "fmt": one of TEXT_FORMATS, "suffix": str, "url": str, "ctype": str|None}"""
    text = make_text(doc, spec["fmt"])
    if spec["via"] == "file":
        return Source("file", text, suffix=spec.get("suffix", ".json"))
    return Source("url", text, url=spec.get("url", "http://spec.invalid/openapi.json"), ctype=spec.get("ctype"))


JSON_FILE = {"via": "file", "fmt": "json", "suffix": ".json"}


def first_diff(fa, fb):
    for k in sorted(set(fa) | set(fb)):
        if fa.get(k) != fb.get(k):
            if k not in fa or k not in fb:
                return {"file": k, "only_in": "first" if k in fa else "second"}
            la, lb = fa[k].decode("utf-8", "replace").split("\n"), fb[k].decode("utf-8", "replace").split("\n")
            for i, (x, y) in enumerate(zip(la, lb)):
                if x != y:
                    return {"file": k, "line": i + 1, "first": x[:200], "second": y[:200]}
            return {"file": k, "line": min(len(la), len(lb)) + 1, "first": "<length %d>" % len(la), "second": "<length %d>" % len(lb)}
    return None


def c_work(args):
    idx, doc_a, spec_a, doc_b, spec_b, cfg = args
    out = {"idx": idx, "error": None}
    try:
        fa, da, xa = generate_from(make_source(doc_a, spec_a), cfg=cfg)
        fb, db, xb = generate_from(make_source(doc_b, spec_b), cfg=cfg)
        ha, hb = [(l, h) for l, h, _ in da], [(l, h) for l, h, _ in db]
        out.update({"same": fa == fb and ha == hb and xa == xb, "nfiles": (len(fa), len(fb)), "exc": (xa, xb), "diag": (ha[:6], hb[:6]),
                    "diag_detail": ([str(d)[:300] for _, _, d in da[:3]], [str(d)[:300] for _, _, d in db[:3]])})
        if not out["same"]:
            out["first_diff"] = first_diff(fa, fb) or {"file": None, "note": "diagnostics / exception differ only"}
    except BaseException as e:  # noqa
        import traceback
        out["error"] = repr(e) + traceback.format_exc()[-1200:]
    return out


YAML_STRINGS = ["on", "yes", "no", "off", "y", "n", "null", "~", "true", "1", "1e3", "2001-12-14", "0x1F", "0o7", "1_000", "=", "<<", "a: b", "# c", " lead", "é中"]


def yaml_sensitive(doc, rng):
    """add strings that a different YAML loader type would coerce (booleans of YAML 1.1, dates, octal ...) as enum values,
    descriptions and defaults"""
    d = copy.deepcopy(doc)
    comps = d.setdefault("components", {}).setdefault("schemas", {})
    vals = rng.sample(YAML_STRINGS, 8)
    comps["YamlStrings"] = {"type": "string", "enum": vals, "description": rng.choice(YAML_STRINGS), "default": vals[0]}
    comps["YamlHolder"] = {"type": "object", "properties": {"yes": {"type": "string", "default": rng.choice(YAML_STRINGS)}, "when": {"type": "string", "default": "2001-12-14"},
                                                             "e": {"$ref": REF + "YamlStrings"}}, "description": "2002-12-14"}
    return d


FINDING_TEXT = {
    "enum_null_typelist_double_expansion": "enum containing null under a type list / nullable typed schema is expanded once more per listed type (three enum classes) and differs from the explicit union",
    "root_bare_ref_unsupported": "components/schemas/<X>: a single-reference wrapper is accepted, the bare $ref it stands for is rejected (Reference schemas are not supported)",
    "wrapper_under_single_member": "a wrapper that is the only member of an anyOf/oneOf/allOf is not seen as a reference by the parent: the parent becomes a one-member union instead of the referenced class",
    "wrapper_as_allof_member": "a wrapper listed as a member of a composed model's allOf contributes nothing (only properties/required of inline members are read): the referenced model's properties are dropped",
    "json_via_yaml_surrogate_escape": "JSON text served under a content type other than application/json is parsed by the YAML loader, which rejects the surrogate-pair escapes json.dumps emits for non-BMP characters",
}


def witness_pairs():
    """fixed pairs, one per listed finding: (finding id, label, doc_a, spec_a, doc_b, spec_b)"""
    R = {"$ref": REF + "R"}
    base = lambda s, extra=None: G.doc_with({"R": G.obj({"a": {"type": "integer"}}), "H": G.obj({"p": s}, required=["p"]), **(extra or {})})
    en = {"type": "string", "nullable": True, "enum": ["a", "b", None]}
    ex = {"oneOf": [{"type": "null"}, {"type": "string", "nullable": True, "enum": ["a", "b"]}]}
    emoji = impl.base_doc(paths={"/x": {"get": {"responses": {"200": {"description": "ok \U0001F600"}}}}})
    return [
        ("enum_null_typelist_double_expansion", "witness", base(en), JSON_FILE, base(ex), JSON_FILE),
        ("root_bare_ref_unsupported", "witness", base(R, {"W": {"allOf": [R]}}), JSON_FILE, base(R, {"W": R}), JSON_FILE),
        ("wrapper_under_single_member", "witness", base({"anyOf": [R]}), JSON_FILE, base({"anyOf": [{"allOf": [R]}]}), JSON_FILE),
        ("wrapper_as_allof_member", "witness", base({"allOf": [R, G.obj({"k": {"type": "string"}})]}), JSON_FILE,
         base({"allOf": [{"allOf": [R]}, G.obj({"k": {"type": "string"}})]}), JSON_FILE),
        ("json_via_yaml_surrogate_escape", "witness", emoji, JSON_FILE, emoji, {"via": "url", "fmt": "json", "url": "http://spec.invalid/raw/openapi.json", "ctype": "text/plain"}),
    ]


def plan_pairs(run, tier, rng):
    """list of pair dicts: label, family, doc_a, spec_a, doc_b, spec_b, sites, expect (None | finding id)"""
    pairs = []
    atlas = G.atlas_docs()
    n_site, n_rand = (10, 4) if tier == "quick" else (70, 30)
    site_docs = [(f"site{i}", RW.site_doc(random.Random(rng.randrange(1 << 30)), version=rng.choice(["3.1.0", "3.0.3"]))) for i in range(n_site)]
    rand_docs = [(f"rand{i}", G.random_doc(random.Random(rng.randrange(1 << 30)), n_models=rng.randint(3, 6), depth=rng.randint(1, 3))) for i in range(n_rand)]
    if tier == "quick":
        atlas = [d for d in atlas if not d[0].startswith("unions")] + [d for d in atlas if d[0].startswith("unions")][:2]
    # referenced components with their own defaults, reached through bare references and through wrappers
    rd_docs = [("refdefaults0", RW.refdefaults_doc(random.Random(rng.randrange(1 << 30)))),
               ("refdefaults1", RW.refdefaults_doc(random.Random(rng.randrange(1 << 30)), wrapped=set(rng.sample(RW.DEFAULTED, 5))))]
    if tier == "thorough":
        rd_docs += [(f"refdefaults{i}", RW.refdefaults_doc(random.Random(rng.randrange(1 << 30)), wrapped=set(rng.sample(RW.DEFAULTED, rng.randint(0, 8))))) for i in range(2, 10)]
    docs = atlas + rd_docs + site_docs + rand_docs

    def add(label, family, a, sa, b, sb, sites=None, expect=None, cfg=None):
        pairs.append({"label": label, "family": family, "doc_a": a, "spec_a": sa, "doc_b": b, "spec_b": sb, "sites": sites or [], "expect": expect, "cfg": cfg})

    # (a) serialisation and source: every document once, variant drawn at random; the site documents get all of them in thorough
    variants = [
        ("a:yaml-file", {"via": "file", "fmt": "yaml", "suffix": ".yaml"}),
        ("a:yaml-block-file", {"via": "file", "fmt": "yaml-block", "suffix": ".yml"}),
        ("a:url-json", {"via": "url", "fmt": "json", "ctype": "application/json"}),
        ("a:url-json-charset", {"via": "url", "fmt": "json-indent", "ctype": "application/json; charset=utf-8"}),
        ("a:url-yaml", {"via": "url", "fmt": "yaml", "url": "http://spec.invalid/openapi.yaml", "ctype": "application/yaml"}),
        ("a:url-noheader-json", {"via": "url", "fmt": "json", "url": "http://spec.invalid/v1/openapi.json", "ctype": None}),
        ("a:json-text-through-yaml-loader", {"via": "url", "fmt": "json-nonascii", "ctype": "text/plain"}),
        ("a:json-text-as-yaml-file", {"via": "file", "fmt": "json-indent", "suffix": ".yaml"}),
    ]
    for label, d in docs:
        dy = yaml_sensitive(d, rng)
        ks = range(len(variants)) if tier == "thorough" and label.startswith("site") else rng.sample(range(len(variants)), 2 if tier == "quick" else 3)
        for k in ks:
            add(label, variants[k][0], dy, JSON_FILE, dy, variants[k][1])
    # (v) the version string alone
    for label, d in docs[:: (3 if tier == "quick" else 1)]:
        b = copy.deepcopy(d)
        b["openapi"] = "3.0.3" if d.get("openapi", "3.1.0").startswith("3.1") else "3.1.0"
        add(label, "v:version-string", d, JSON_FILE, b, JSON_FILE)
    # (b)(c)(d)(e) schema rewrites inside the proved domain, at random subsets of positions
    reps = 1 if tier == "quick" else 3
    for label, d in docs:
        fam_sets = [("b",), ("c",), ("d",), ("e",), ("b", "c", "d", "e")] if label.startswith("site") else [("b", "d"), ("d",)]
        if label.startswith("refdefaults"):
            fam_sets = [("d!",), ("d",), ("d",)]
        for fams in fam_sets:
            for _ in range(reps):
                pr = rng.choice([0.3, 0.6, 1.0])
                if fams == ("d!",):       # every reference <-> wrapper at once
                    fams, pr = ("d",), 1.0
                b, sites = RW.apply_family(d, fams, rng, p=pr)
                if sites:
                    cfg = {"literal_enums": True} if rng.random() < 0.15 else None
                    add(label, "+".join(fams), d, JSON_FILE, b, JSON_FILE, sites=sites, cfg=cfg)
    # guard-false rewrites: expected to differ, each class is a listed finding
    for cls, fams in [("enum_null_typelist_double_expansion", ("c",)), ("root_bare_ref_unsupported", ("d",)),
                      ("wrapper_under_single_member", ("d",)), ("wrapper_as_allof_member", ("d",))]:
        n = 0
        for label, d in docs:
            b, sites = RW.apply_family(d, fams, rng, p=1.0, want_guard=cls, max_sites=1)
            if sites:
                add(label, "guard-false:" + cls, d, JSON_FILE, b, JSON_FILE, sites=sites, expect=cls)
                n += 1
                if n >= (2 if tier == "quick" else 8):
                    break
    for fid, label, a, sa, b, sb in witness_pairs():
        add(label, "witness:" + fid, a, sa, b, sb, expect=fid)
    return pairs


def guard_terms(pairs):
    """Coq re-check of the python guard mirrors on every rewritten site of families c and d"""
    terms, meta = [], []
    for pi, p in enumerate(pairs):
        for s in p["sites"]:
            rw = s["rewrite"]
            if rw.startswith("c:"):
                sch = s["before"]
                py = RW.g_enum_null(sch)
            elif rw.startswith("cr:"):
                sch = s["after"]
                py = RW.g_enum_null(sch)
            elif rw.startswith("dr:"):
                sch = s["before"]
                py = RW.g_wrapper(sch)
            elif rw.startswith("d:"):
                sch = s["after"]
                py = RW.g_wrapper(sch)
            else:
                continue
            t = sch.get("type")
            ty = "TyAbsent" if t is None else (f"(TyOne {NG.JTY[t]})" if isinstance(t, str) else "(TyList [" + "; ".join(NG.JTY[x] for x in t) + "])")
            nl = cbool(bool(sch.get("nullable")))
            if rw[0] == "c":
                terms.append(f"Bool.eqb (g_enum_null {ty} {nl}) {cbool(py)}")
            else:
                terms.append(f"Bool.eqb (g_wrapper {ty} {nl} {copt(sch.get('default'), cjval)}) {cbool(py)}")
            meta.append((pi, s))
    return terms, meta


def static_anchor_check(run):
    """the model lets the builder ignore `nullable`: true as long as schema.py is its only reader"""
    import pathlib
    readers = []
    for f in pathlib.Path(REPO, "openapi_python_client").rglob("*"):
        if f.suffix in (".py", ".jinja") and f.is_file():
            txt = f.read_text(encoding="utf-8", errors="replace")
            if re.search(r"\.nullable\b", txt) and not str(f).endswith("openapi_schema_pydantic/schema.py"):
                readers.append(str(f.relative_to(REPO)))
    if readers:
        run.violation("anchor", {"note": "`.nullable` is read outside schema.py: Norm.build ignores the flag, the model no longer covers this code", "files": readers}, no_input=True)
    run.note_case({"stage": "A'", "check": "nullable read only by the validator"}, nontrivial=False, kind="anchor")


# ------------------------------------------------------------------ run
def stage_b(run, tier, rng):
    n_docs, n_sites = (14, 40) if tier == "quick" else (160, 50)
    jobs = [(rng.randrange(1 << 30), n_sites, (i % 4 == 3)) for i in range(n_docs)]
    with cf.ProcessPoolExecutor(max_workers=14) as ex:
        results = list(ex.map(b_work, jobs))
    return b_check(run, results, rng, tier, extra=True)


def b_check(run, results, rng, tier, extra=True):
    t0 = time.time()
    lcases, lres = [], []
    if extra:
        lcases = loader_cases()
        with cf.ProcessPoolExecutor(max_workers=14) as ex:
            lres = list(ex.map(loader_work, [c[0] for c in lcases]))
    hdr = HDR + env_header()
    terms, meta = [], []
    for r in results:
        if r["error"]:
            run.violation("harness-or-parser", {"seed": r["seed"], "error": r["error"]})
            continue
        for c in r["pre"]:
            terms.append(c["term"]); meta.append(("pre", c))
            run.note_case({"stage": "B1", "schema": c["schema"], "position": c["position"]}, nontrivial=bool(c["schema"].get("nullable")), kind="B1-validator-" + c["position"])
        for c in r["tree"]:
            terms.append(c["term"]); meta.append(("tree", c))
            run.note_case({"stage": "B2", "schema": c["schema"], "position": c["position"], "name": c["name"], "literal": c["literal"]},
                          nontrivial=c["obs"] != "TErr", kind="B2-" + c["position"] + ("-literal" if c["literal"] else ""))
    for case, term in (bounds_cases(rng, 40 if tier == "quick" else 200) if extra else []):
        terms.append(term); meta.append(("bound", case))
        run.note_case({"stage": "B1", **case}, nontrivial=True, kind="B1-bounds")
    for (desc, src), lr in zip(lcases, lres):
        run.note_case({"stage": "B3", "source": desc}, nontrivial=True, kind="B3-loader")
        if lr["parser"] not in ("json", "yaml") or lr["exc"]:
            run.violation("correspondence", {"what": "loader", "source": desc, "impl": lr, "note": "no parser ran / generation failed on a plain JSON document"})
            continue
        terms.append(f"parser_eqb (choose_parser (content_type_of {src})) {'PJson' if lr['parser'] == 'json' else 'PYaml'}")
        meta.append(("loader", {"source": desc, "impl_parser": lr["parser"], "term": src}))
    # replay of the tree-level finding (no byte of the output depends on it): validators run twice under a non-Schema parent
    try:
        from openapi_python_client import schema as oai
        w = {"oneOf": [{"type": "string"}], "nullable": True}
        o = oai.OpenAPI.model_validate(G.doc_with({"C": copy.deepcopy(w), "H": {"type": "object", "properties": {"p": copy.deepcopy(w)}}}))
        n_top, n_nested = len(o.components.schemas["C"].oneOf), len(o.components.schemas["H"].properties["p"].oneOf)
        if n_top != n_nested:
            run.known_finding("nullable_twice_at_top", f"components/schemas/C = {json.dumps(w)} validates to {n_top} oneOf members, the same schema as an attribute to {n_nested} "
                                                       "(after-validators run twice under a non-Schema parent; tree-level only, generated bytes are equal)")
    except Exception as e:  # noqa
        run.violation("harness-error", {"where": "nullable_twice_at_top replay", "error": repr(e)}, no_input=True)
    try:
        w = {"type": ["integer", "null"], "anyOf": [{"type": "array", "prefixItems": [{"type": "string"}], "items": {"type": "boolean"}}]}
        data, _ = impl.parse_doc(G.doc_with({"H": {"type": "object", "properties": {"p": copy.deepcopy(w)}}}))
        ms = [m for m in getattr(data, "models", [])]
        if ms:
            pr = (list(ms[0].required_properties) + list(ms[0].optional_properties))[0]
            lens = [len(getattr(x.inner_property, "inner_properties", [])) for x in getattr(pr, "inner_properties", []) if type(x).__name__ == "ListProperty"]
            if len(set(lens)) > 1:
                run.known_finding("prefix_items_grow_on_rebuild", f"{json.dumps(w)}: the same tuple array is built {len(lens)} times with {lens} members")
    except Exception as e:  # noqa
        run.violation("harness-error", {"where": "prefix_items_grow_on_rebuild replay", "error": repr(e)}, no_input=True)
    print("phase B gen %.1fs (%d terms)" % (time.time() - t0, len(terms))); t0 = time.time()
    bad = run_cases(hdr, terms, shard=250)
    print("phase B coq %.1fs" % (time.time() - t0))
    for i in bad[:8]:
        kind, c = meta[i]
        if kind == "tree":
            mv = coq_eval(hdr, c["model"])
            run.violation("correspondence", {"what": "property tree", "schema": c["schema"], "position": c["position"], "name": c["name"], "parent": c["parent"],
                                             "literal_enums": c["literal"], "impl": c["obs"][:1500], "model": mv[-1500:],
                                             "note": "the parser no longer builds the property tree Norm.norm computes (for which the C17 equivalences are proved)"})
        elif kind == "pre":
            mv = coq_eval(hdr, c["model"])
            run.violation("correspondence", {"what": "schema validators (handle_nullable)", "schema": c["schema"], "position": c["position"], "impl": c["obs"][:1200], "model": mv[-1200:]})
        elif kind == "loader":
            run.violation("correspondence", {"what": "loader dispatch (_get_document / _load_yaml_or_json)", **c,
                                             "model": coq_eval(hdr, f"choose_parser (content_type_of {c['term']})")[-200:]})
        else:
            run.violation("correspondence", {"what": "handle_exclusive_min_max", **c, "term": terms[i]})
    return len(terms), len(bad)


def stage_c(run, tier, rng, replay=None):
    t0 = time.time()
    if replay:
        rp = json.load(open(replay))
        pairs = [v["pair"] for v in rp["violations"] if "pair" in v]
    else:
        pairs = plan_pairs(run, tier, rng)
    # the python guard mirrors agree with the Coq guards on every rewritten site
    gt, gm = guard_terms(pairs)
    for i in run_cases(HDR, gt, shard=400):
        pi, s = gm[i]
        run.violation("harness", {"note": "python mirror of a Coq guard disagrees with Norm.g_enum_null / g_wrapper", "site": s})
    jobs = [(i, p["doc_a"], p["spec_a"], p["doc_b"], p["spec_b"], p["cfg"]) for i, p in enumerate(pairs)]
    with cf.ProcessPoolExecutor(max_workers=14) as ex:
        results = list(ex.map(c_work, jobs, chunksize=2))
    print("phase C %d pairs %.1fs" % (len(pairs), time.time() - t0))
    fam_hist = {}
    for p, r in zip(pairs, results):
        fam = p["family"]
        fam_hist[fam.split(":")[0] if fam.startswith(("guard-false", "witness")) else fam] = fam_hist.get(fam, 0) + 1
        slim = {"label": p["label"], "family": fam, "spec_b": p["spec_b"], "sites": [{k: s[k] for k in ("path", "position", "rewrite")} for s in p["sites"]][:12]}
        run.note_case({"stage": "C", **slim}, nontrivial=bool(p["sites"]) or fam.startswith(("a:", "v:", "witness")), kind="C-" + (fam if not fam.startswith(("guard-false", "witness")) else fam.split(":")[0]))
        if r["error"]:
            run.violation("harness-or-generator", {"pair": p, "error": r["error"]})
            continue
        nonempty = r["nfiles"][0] > 0
        if p["expect"] is None:
            if not r["same"]:
                # json text pushed through the YAML loader: the listed surrogate-escape finding owns exactly the documents whose JSON text has such an escape
                if fam in ("a:json-text-through-yaml-loader", "a:json-text-as-yaml-file") and re.search(r"\\ud[89ab][0-9a-f]{2}\\ud[c-f][0-9a-f]{2}", make_text(p["doc_b"], p["spec_b"]["fmt"]), re.I):
                    if run.known_finding("json_via_yaml_surrogate_escape", FINDING_TEXT["json_via_yaml_surrogate_escape"] + f" (document {p['label']})"):
                        continue
                run.violation("oracle", {"pair": p, "label": p["label"], "rewrite": fam, "positions": slim["sites"], "first_diff": r.get("first_diff"),
                                         "diag": r["diag"], "diag_detail": r["diag_detail"], "exc": r["exc"],
                                         "note": "equivalent documents (rewrites inside the proved domain) generate different trees"})
            elif not nonempty:
                run.violation("oracle", {"pair": p, "label": p["label"], "rewrite": fam, "diag": r["diag"], "diag_detail": r["diag_detail"], "exc": r["exc"],
                                         "note": "both documents generated nothing: the comparison is vacuous"})
        else:
            if not r["same"]:
                where = r.get("first_diff")
                if not run.known_finding(p["expect"], FINDING_TEXT.get(p["expect"], p["expect"]) + f"; first difference {json.dumps(where)[:220]} (document {p['label']}, {fam})"):
                    run.violation("oracle", {"pair": p, "label": p["label"], "rewrite": fam, "first_diff": where, "note": "difference outside the proved domain in a class that is not listed"})
    run.extra["stage_c_pairs"] = len(pairs)
    run.extra["stage_c_families"] = fam_hist
    return len(pairs)


def run(run, tier, replay=None):
    rng = run.rng
    static_anchor_check(run)
    if replay:
        rp = json.load(open(replay))
        plan0, plan1 = [], []
        for v in rp["violations"]:
            if v.get("kind") == "correspondence" and "schema" in v and v.get("position"):
                pos = v["position"]
                (plan1 if v.get("literal_enums") else plan0).append((pos, v["schema"], v.get("name") if pos == "prop" else None, True))
        results = [b_eval(pl, lit) for pl, lit in ((plan0, False), (plan1, True)) if pl]
        if results:
            n, bad = b_check(run, results, rng, tier, extra=False)
            run.corr = {"cases": n, "mismatches": bad, "what": "replayed correspondence cases"}
        stage_c(run, tier, rng, replay=replay)
        return
    nb, bad = stage_b(run, tier, rng)
    run.corr = {"cases": nb, "mismatches": bad,
                "what": "B1 real pydantic validators at the position the schema sits (nested: once; under a non-Schema object: twice) == Norm.pre_at / hx; "
                        "B2 property objects built by build_schemas at component-root and model-attribute positions (default config and literal_enums) == Norm.norm "
                        "(kinds, derived member names, class names, member order, raw default); B3 parser chosen by _get_document for file/URL sources == Norm.choose_parser"}
    stage_c(run, tier, rng)
    run.rule = ("stage B: random schemas over the notations (single type / nullable:true / type lists / anyOf / oneOf / allOf / enum with null / single-reference wrappers with "
                "and without extra keywords and defaults / hostile shapes) at component-root, attribute, parameter and media-type positions; a case = one (schema, position); "
                "non-trivial = the parser built a property (B2) or the schema is nullable (B1). stage C: atlas + site-rich + random documents; a case = one document pair "
                "(rewrite family applied at a random subset of its applicable positions, or a serialisation/source variant); non-trivial = at least one position rewritten or a "
                "different serialisation/source; distinct by hash of (document label, family, rewritten positions).")
    run.assumptions += ["json.loads and ruamel YAML(typ=safe) are oracles without law: their agreement on a document is sampled (stage C family a), not proved",
                        "mimetypes.guess_type is an oracle: its result is an input of the loader model",
                        "abstraction functions harness/gen/normgen.py (schema dict -> sch, validated oai.Schema -> sch, property object -> tree)",
                        "httpx.get is replaced in-process by a function returning an httpx.Response (no network); the byte comparison ignores diagnostic detail text",
                        "pydantic runs the after-validators of a Schema held by a non-Schema object twice (observed with the pinned pydantic; modelled by pre_at true)"]
