"""C19 — generation writes only where told, never clobbers, converges on overwrite.
Stage B: Project.build's file effects vs Fs.v (the model predicts, from the parser's module/tag names, the exact tree
after every history step); stage C: direct oracle on directory snapshots (bytes), hostile names, sentinel files."""
import hashlib, itertools, json, os, shutil, tempfile
from pathlib import Path
from lib.common import cstr, run_cases, coq_eval
from lib import impl

HDR = r"""Require Import OPC.Uni OPC.Names OPC.Fs.
Open Scope N_scope.
Definition check_tree (t : tree) (obs : list (path * (bool * list N))) : bool :=
  forallb (fun o => match lookup_path t (fst o) with
                    | Some (User u) => fst (snd o) && memN u (snd (snd o))
                    | Some (Gen i) => negb (fst (snd o)) && memN i (snd (snd o))
                    | None => false end) obs
  && forallb (fun kv => mem_path (fst kv) (map fst obs)) t.
"""

FL = {"none": "FNone", "poetry": "FPoetry", "pdm": "FPdm", "setup": "FSetup"}


def docs():
    def op(oid, tags=None):
        o = {"operationId": oid, "responses": {"200": {"description": "ok"}}}
        if tags:
            o["tags"] = tags
        return o
    obj = lambda **p: {"type": "object", "properties": p}
    d0 = impl.base_doc(info={"title": "My API", "version": "1"},
                       components={"schemas": {"Pet": obj(name={"type": "string"}), "Kind": {"type": "string", "enum": ["a", "b"]}}},
                       paths={"/pets": {"get": op("listPets", ["pets"])}, "/admin": {"get": op("getStats", ["admin"]), "post": op("re index", ["admin"])}})
    d1 = impl.base_doc(info={"title": "My API", "version": "2"},
                       components={"schemas": {"Pet": obj(name={"type": "string"}, owner={"$ref": "#/components/schemas/Owner"}), "Owner": obj(id={"type": "integer"})}},
                       paths={"/pets": {"get": op("listPets", ["pets"]), "post": op("addPet", ["pets"])}})
    d2 = impl.base_doc(info={"title": "My API", "version": "3"}, components={"schemas": {"Thing": obj(x={"type": "integer"})}},
                       paths={"/x": {"get": op("getX")}})
    # no component schemas at all: models/ must still be rebuilt (to an empty package) on overwrite
    d3 = impl.base_doc(info={"title": "My API", "version": "4"}, paths={"/ping": {"get": {"operationId": "ping", "responses": {"200": {"description": "ok", "content": {"text/plain": {"schema": {"type": "string"}}}}}}}})
    return [d0, d1, d2, d3]


def snapshot(root: Path):
    out = {}
    if root.exists():
        for f in sorted(root.rglob("*")):
            if f.is_file() or f.is_symlink():
                out[str(f.relative_to(root))] = f.read_bytes()
    return out


def doc_record(doc, meta):
    """(models, tags, package_name) as the parser/Project see them — the model's input."""
    from openapi_python_client import Project
    from openapi_python_client.utils import PythonIdentifier
    data, cfg = impl.parse_doc(doc)
    from openapi_python_client.config import MetaType
    cfg.meta_type = MetaType(meta)
    models = [str(m.class_info.module_name) for m in data.models] + [str(e.class_info.module_name) for e in data.enums]
    tags = [(str(t), [str(PythonIdentifier(e.name, cfg.field_prefix)) for e in c.endpoints]) for t, c in data.endpoint_collections_by_tag.items()]
    pkg = Project(openapi=data, config=cfg).package_name
    return models, tags, pkg


def cdoc(models, tags):
    ms = "[" + ";".join(cstr(m) for m in models) + "]" if models else "[]"
    ts = "[" + ";".join(f"({cstr(t)}, " + ("[" + ";".join(cstr(e) for e in eps) + "]" if eps else "[]") + ")" for t, eps in tags) + "]" if tags else "[]"
    return f"{{| d_models := {ms}; d_tags := {ts} |}}"


def cpath(p: str):
    return "[" + ";".join(cstr(c) for c in p.split("/")) + "]"


# user files: ordinary names, names that OTHER metadata flavours generate (a poetry project's own setup.py, a none-flavour package's
# own pyproject.toml / README.md ...), hidden files, files next to the package
USER_PATHS_OUT = ["NOTES.txt", "{pkg}extra.py", "{pkg}my/own.py", "setup.py", "pyproject.toml", "README.md", ".gitignore", "setup.cfg", "requirements.txt", "tests/test_mine.py",
                  "{pkg}conftest.py", "{pkg}README.md", ".env"]
USER_PATHS_IN = ["{pkg}models/stale_user.py", "{pkg}api/old/thing.py", "{pkg}api/pets/extra.py"]


def run(run, tier, replay=None):
    rng = run.rng
    D = docs()
    metas = ["none", "poetry"] if tier == "quick" else ["none", "poetry", "pdm", "setup"]
    maxlen = 3 if tier == "quick" else 5
    nhist = 14 if tier == "quick" else 120
    run.rule = ("histories over {generate(doc_i, overwrite?), user-write(path)} of length <= %d against one output directory, for each metadata flavour; a case is one history step "
                "(tree listing + bytes compared with the Fs.v model and with a fresh generation); non-trivial = step changes or must not change a non-empty tree; distinct by hash of the "
                "(flavour, history prefix). Plus hostile titles/tags/names generated with sentinel files around the output directory." % maxlen)
    terms, meta_info = [], []
    # quick: the other two flavours get the fixed history only (a generation, user files everywhere, a regeneration of ANOTHER document)
    for meta, nh_ in [(m, nhist) for m in metas] + ([("pdm", 1), ("setup", 1)] if tier == "quick" else []):
        recs = [doc_record(d, meta) for d in D]
        # fresh trees per doc
        fresh = []
        for d in D:
            with impl.Gen(d, meta=meta) as g:
                fresh.append(g.files())
        pkg = recs[0][2]
        pp = "" if meta == "none" else pkg + "/"
        for hi in range(nh_):
            n = rng.randint(2, maxlen)
            steps = [("gen", rng.randrange(len(D)), True)]
            for _ in range(n - 1):
                r = rng.random()
                if r < 0.45:
                    steps.append(("gen", rng.randrange(len(D)), True))
                elif r < 0.6:
                    steps.append(("gen", rng.randrange(len(D)), False))
                elif r < 0.85:
                    steps.append(("user", rng.choice(USER_PATHS_OUT).format(pkg=pp), rng.randrange(1, 9)))
                else:
                    steps.append(("user", rng.choice(USER_PATHS_IN).format(pkg=pp), rng.randrange(1, 9)))
            if hi == 0:
                # fixed history: a generation, a user file at EVERY listed path (incl. the names other flavours generate), a regeneration over it
                steps = [("gen", 0, True)] + [("user", u.format(pkg=pp), 1 + k % 8) for k, u in enumerate(USER_PATHS_OUT + USER_PATHS_IN)] + [("gen", 1 % len(D), True)]
            if steps[-1][0] != "gen" or not steps[-1][2]:
                steps.append(("gen", rng.randrange(len(D)), True))
            root = Path(tempfile.mkdtemp(prefix="opc_h_"))
            try:
                (root / "sentinel.txt").write_text("S")
                (root / "sibling").mkdir()
                (root / "sibling" / "keep.txt").write_text("K")
                model_hist = []
                user_files = {}
                gen_id = 0
                last_gen = None
                for si, st in enumerate(steps):
                    before = snapshot(root / "out")
                    if st[0] == "gen":
                        _, di, ow = st
                        exists = (root / "out").exists()
                        g = impl.Gen(D[di], meta=meta, root=root, overwrite=ow)
                        after = snapshot(root / "out")
                        case = {"meta": meta, "history": steps[: si + 1]}
                        run.note_case(case, nontrivial=bool(before), kind="gen-overwrite" if ow else "gen-no-overwrite")
                        if g.exc is not None:
                            run.violation("oracle", {**case, "note": "generate raised", "error": repr(g.exc)})
                            break
                        if exists and not ow:
                            # T no_overwrite_untouched
                            if after != before or not g.errors:
                                run.violation("oracle", {**case, "note": "existing directory without --overwrite: tree changed or no error reported",
                                                         "changed": sorted(set(after) ^ set(before))[:10]})
                            continue
                        gen_id += 1
                        last_gen = di
                        model_hist.append(f"Build {gen_id} {cdoc(recs[di][0], recs[di][1])}")
                        # ---- oracle: managed subtrees exactly fresh, other generated files fresh, user files outside untouched
                        exp = dict(fresh[di])
                        for p, u in user_files.items():
                            managed = p.startswith(pp + "models/") or p.startswith(pp + "api/")
                            if not managed and p not in exp:
                                exp[p] = b"USER%d" % u
                        # files from earlier generations that are neither managed nor regenerated may legitimately remain (e.g. none here: same flavour)
                        if after != exp:
                            diff = sorted(k for k in set(after) | set(exp) if after.get(k) != exp.get(k))
                            run.violation("oracle", {**case, "note": "tree after overwrite-generation differs from fresh generation + untouched user files", "paths": diff[:10]})
                        user_files = {p: u for p, u in user_files.items() if not (p.startswith(pp + "models/") or p.startswith(pp + "api/"))}
                    else:
                        _, p, u = st
                        f = root / "out" / p
                        f.parent.mkdir(parents=True, exist_ok=True)
                        f.write_bytes(b"USER%d" % u)
                        user_files[p] = u
                        model_hist.append(f"UserWrite {cpath(p)} {u}")
                        after = snapshot(root / "out")
                    # ---- correspondence with the model after this step
                    obs = []
                    for p, b in after.items():
                        if b.startswith(b"USER"):
                            obs.append(f"({cpath(p)}, (true, [{int(b[4:])}]))")
                        else:
                            # which generation ids could have written these bytes: ids whose doc's fresh tree has equal bytes at p
                            ids, k = [], 0
                            for s2 in steps[: si + 1]:
                                if s2[0] == "gen":
                                    pass
                            cand = []
                            gid = 0
                            ex = False
                            for s2 in steps[: si + 1]:
                                if s2[0] == "gen":
                                    if not ex or s2[2]:
                                        gid += 1
                                        if fresh[s2[1]].get(p) == b:
                                            cand.append(gid)
                                    ex = True
                            obs.append(f"({cpath(p)}, (false, [{';'.join(map(str, cand))}]))" if cand else f"({cpath(p)}, (false, []))")
                    term = f"check_tree (run {FL[meta]} {cstr(pkg)} [{'; '.join(model_hist)}] []) [{'; '.join(obs)}]"
                    terms.append(term)
                    meta_info.append({"meta": meta, "history": steps[: si + 1]})
                # sentinels untouched
                if (root / "sentinel.txt").read_text() != "S" or (root / "sibling" / "keep.txt").read_text() != "K" or sorted(x.name for x in root.iterdir()) != ["doc.json", "out", "sentinel.txt", "sibling"]:
                    run.violation("oracle", {"meta": meta, "history": steps, "note": "something outside the output directory was created or modified", "listing": sorted(x.name for x in root.iterdir())})
            finally:
                shutil.rmtree(root, ignore_errors=True)
    bad = run_cases(HDR, terms, shard=60)
    run.corr = {"cases": len(terms), "mismatches": len(bad), "what": "directory tree after each history step == Fs.run on (module names, tags) taken from the parser"}
    for i in bad[:5]:
        run.violation("correspondence", {**meta_info[i], "note": "Project.build no longer has the file effects of Fs.build_steps (proved convergent in FsThm.v)"})
    hostile(run, tier)
    hooks(run, tier)
    preexisting(run, tier)
    path_spellings(run, tier)


def path_spellings(run, tier):
    """--output-path spelt in every way the OS accepts (relative, ./, trailing slash, a/../b, through a symlinked directory, symlink + ..):
    everything is written under the location the OPERATING SYSTEM resolves the given path to, nothing anywhere else"""
    D = docs()
    import contextlib, io
    from openapi_python_client import generate
    from openapi_python_client.config import Config, ConfigFile, MetaType
    for meta in (["none", "poetry"] if tier == "quick" else ["none", "poetry", "pdm", "setup"]):
        for label, spell in [("plain", "{root}/work/client"), ("dot", "{root}/work/./client"), ("slash", "{root}/work/client/"), ("dotdot", "{root}/work/sub/../client"),
                             ("symlink", "{root}/work/current/client"), ("symlink-dotdot", "{root}/work/current/../client"), ("relative", "work/client"), ("relative-dotdot", "work/sub/../client")]:
            for ow in (False, True):
                root = Path(tempfile.mkdtemp(prefix="opc_s_")).resolve()
                old = os.getcwd()
                try:
                    (root / "work" / "sub").mkdir(parents=True)
                    (root / "releases" / "v2").mkdir(parents=True)
                    (root / "work" / "current").symlink_to(root / "releases" / "v2", target_is_directory=True)
                    (root / "doc.json").write_text(json.dumps(D[0]))
                    given = spell.format(root=root)
                    os.chdir(root)
                    target = Path(os.path.realpath(given))            # what the OS means by the path as given
                    if ow:
                        target.mkdir(parents=True, exist_ok=True)
                        (target / "USER.txt").write_text("u")
                    cfg = Config.from_sources(ConfigFile(post_hooks=[]), MetaType(meta), root / "doc.json", "utf-8", ow, output_path=Path(given))
                    errs, exc = [], None
                    try:
                        with contextlib.redirect_stdout(io.StringIO()):
                            errs = list(generate(config=cfg))
                    except BaseException as e:  # noqa
                        exc = e
                    os.chdir(old)
                    case = {"meta": meta, "output_path_spelling": label, "overwrite": ow}
                    run.note_case(case, nontrivial=True, kind="path-spelling")
                    if exc is not None:
                        run.violation("oracle", {**case, "given": given, "note": "generate raised", "error": repr(exc)})
                        continue
                    files = sorted(str(p.relative_to(root)) for p in root.rglob("*") if p.is_file() and not p.is_symlink())
                    trel = str(target.relative_to(root))
                    outside = [f for f in files if not (f == "doc.json" or f.startswith(trel + "/"))]
                    inside = [f for f in files if f.startswith(trel + "/")]
                    if outside or len(inside) < 5 or (ow and not (target / "USER.txt").exists()):
                        run.violation("oracle", {**case, "given": given.replace(str(root), "<root>"), "resolves_to": trel, "outside": outside[:8], "inside_count": len(inside), "errors": [str(getattr(e, "header", e))[:80] for e in errs][:3],
                                                 "note": "files were written somewhere else than the location the given --output-path resolves to (or the user's file there was lost)"})
                finally:
                    os.chdir(old)
                    shutil.rmtree(root, ignore_errors=True)


def preexisting(run, tier):
    """an output directory that already EXISTS - whatever it holds (nothing, only dot files / a .git directory, only sub-directories,
    a single visible file) - is left byte-for-byte untouched without --overwrite, and an error is reported"""
    D = docs()
    shapes = {"empty": {}, "dotfiles": {".git/config": b"[core]\n", ".github/workflows/ci.yml": b"on: push\n", ".gitignore": b"user-ignore\n"},
              "dirs-only": None, "one-file": {"NOTES.txt": b"mine\n"}, "hidden-file": {".env": b"SECRET=1\n"}}
    terms, info = [], []
    for meta in (["none", "poetry"] if tier == "quick" else ["none", "poetry", "pdm", "setup"]):
        models, tags, pkg = doc_record(D[0], meta)
        for shape, files in shapes.items():
            root = Path(tempfile.mkdtemp(prefix="opc_p_"))
            try:
                out = root / "out"
                out.mkdir()
                if files is None:
                    (out / "a" / "b").mkdir(parents=True)
                else:
                    for rel, b in files.items():
                        (out / rel).parent.mkdir(parents=True, exist_ok=True)
                        (out / rel).write_bytes(b)
                before = snapshot(out)
                dirs_before = sorted(str(p.relative_to(out)) for p in out.rglob("*") if p.is_dir())
                g = impl.Gen(D[0], meta=meta, root=root, overwrite=False)
                after = snapshot(out)
                dirs_after = sorted(str(p.relative_to(out)) for p in out.rglob("*") if p.is_dir())
                case = {"meta": meta, "preexisting_output_directory": shape, "overwrite": False}
                run.note_case(case, nontrivial=True, kind="preexisting-dir")
                if g.exc is not None:
                    run.violation("oracle", {**case, "note": "generate raised", "error": repr(g.exc)})
                elif after != before or dirs_after != dirs_before or not g.errors:
                    run.violation("oracle", {**case, "doc": D[0], "note": "an existing output directory was written to without --overwrite, or no error was reported",
                                             "changed": sorted(set(after) ^ set(before))[:10] + [k for k in after if k in before and after[k] != before[k]][:5], "errors": len(g.errors)})
                # model: Fs.build with dir_exists = true and overwrite = false touches nothing and reports the error
                obs_err = "true" if g.errors else "false"
                obs_same = "true" if (after == before and dirs_after == dirs_before) else "false"
                terms.append(f"match build {FL[meta]} {cstr(pkg)} false true {cdoc(models, tags)} 1 [] with (t, err) => Bool.eqb err {obs_err} && Bool.eqb (match t with [] => true | _ => false end) {obs_same} end")
                info.append(case)
            finally:
                shutil.rmtree(root, ignore_errors=True)
    bad = run_cases(HDR, terms, shard=60) if terms else []
    run.corr["cases"] += len(terms)
    run.corr["mismatches"] += len(bad)
    run.corr["what"] += "; existing output directory without --overwrite == Fs.build (error, nothing touched)"
    for i in bad[:3]:
        run.violation("correspondence", {**info[i], "note": "Project.build on an existing directory without --overwrite no longer behaves like Fs.build"})


def hooks(run, tier):
    """post hooks (the default ones are `ruff check --fix .` / `ruff format .`: they rewrite whatever *.py is below their working directory):
    a marker hook must run INSIDE the output directory in every flavour, and leave everything around it untouched"""
    import sys
    marker = "hook_marker.txt"
    hook = f'{sys.executable} -c "import os,glob; open({marker!r},\'w\').write(os.getcwd()); [open(f,\'a\').write(\'#fmt\') for f in glob.glob(\'*.py\')]"'
    D = docs()
    terms, info = [], []
    for meta in ["none", "poetry", "pdm", "setup"]:
        pkg = doc_record(D[0], meta)[2]
        for ow in (False, True):
            root = Path(tempfile.mkdtemp(prefix="opc_k_"))
            try:
                (root / "app.py").write_text("x = 1\n")
                (root / "sibling").mkdir()
                (root / "sibling" / "__init__.py").write_text("y = 2\n")
                if ow:
                    impl.Gen(D[1], meta=meta, root=root)
                g = impl.Gen(D[0], meta=meta, root=root, overwrite=ow, cfg={"post_hooks": [hook]})
                case = {"meta": meta, "post_hook": "marker", "overwrite": ow}
                run.note_case(case, nontrivial=True, kind="post-hook")
                if g.exc is not None:
                    run.violation("oracle", {**case, "note": "generate raised", "error": repr(g.exc)})
                    continue
                found = sorted(str(p.relative_to(root)) for p in root.rglob(marker))
                outside = {"app.py": (root / "app.py").read_text(), "sibling/__init__.py": (root / "sibling" / "__init__.py").read_text(),
                           "listing": sorted(x.name for x in root.iterdir())}
                if outside != {"app.py": "x = 1\n", "sibling/__init__.py": "y = 2\n", "listing": ["app.py", "doc.json", "out", "sibling"]} or found != ["out/" + marker]:
                    run.violation("oracle", {**case, "doc": D[0], "marker_found_at": found, "outside": outside,
                                             "note": "a post hook ran outside the output directory (files next to it were created or rewritten)"})
                for f in found:
                    rel = f.split("/")[1:] if f.startswith("out/") else ["..", *f.split("/")]
                    terms.append(f"path_eqb (hook_cwd {FL[meta]} {cstr(pkg)} ++ [{cstr(marker)}]) [{'; '.join(cstr(c) for c in rel)}]")
                    info.append(case)
            finally:
                shutil.rmtree(root, ignore_errors=True)
    bad = run_cases(HDR, terms, shard=60) if terms else []
    run.corr["cases"] += len(terms)
    run.corr["mismatches"] += len(bad)
    run.corr["what"] += "; working directory of post hooks == Fs.hook_cwd"
    for i in bad[:3]:
        run.violation("correspondence", {**info[i], "note": "post hooks no longer run in Fs.hook_cwd (the output directory)"})


HOSTILE_NAMES = ["../evil", "/abs/evil", "..", ".", "a/../../evil", "..\\evil", "C:\\evil", "evil/", "~/evil", "a\x00b", "....//", "%2e%2e%2fevil", "$ " * 33 + "/tmp/evil"]


def hostile(run, tier):
    rng = run.rng
    names = HOSTILE_NAMES if tier == "thorough" else HOSTILE_NAMES[:6] + [HOSTILE_NAMES[-1]]
    variants = []
    for nm in names:
        for meta in (["poetry"] if tier == "quick" else ["none", "poetry", "setup"]):
            variants.append((nm, meta, None, [nm]))
    # every option that changes which names become path components: all tags of an operation (not only the first), with the
    # hostile name in a secondary position, and operation / tag names that only differ from a benign one
    for nm in names[:4] + [names[-1], "../../../escaped_rel", "../../../../escaped_deep/x"]:
        for cfg in ({"generate_all_tags": True}, {"generate_all_tags": True, "use_path_prefixes_for_title_model_names": False}):
            variants.append((nm, "none" if tier == "quick" else "poetry", cfg, ["pets", nm, "@ROOT@/abs_escape", "admin"]))
    # names that reach the file system from the CONFIGURATION: class_overrides (class and module names of a benign schema)
    for h in names[:5] + ["../../../escaped_rel", "sub/dir/mod", "pkg.mod"]:
        variants.append(("Pet", "none", {"class_overrides": {"Pet": {"module_name": h}}}, ["pets"]))
        variants.append(("Pet", "none" if tier == "quick" else "poetry", {"class_overrides": {"Pet": {"class_name": h, "module_name": h}, "PetPet": {"module_name": h + "2"}}}, ["pets"]))
    for nm, meta, cfg, tags in variants:
        if True:
            doc = impl.base_doc(info={"title": nm, "version": "1"},
                                components={"schemas": {nm: {"type": "object", "title": nm, "properties": {nm: {"type": "string", "enum": [nm, "x"]}}}}},
                                paths={"/p": {"get": {"operationId": nm, "tags": tags, "responses": {"200": {"description": "ok"}}}},
                                       "/q": {"get": {"operationId": "benign", "tags": list(reversed(tags)), "responses": {"200": {"description": "ok"}}}}})
            root = Path(tempfile.mkdtemp(prefix="opc_hh_"))
            try:
                tags = [t.replace("@ROOT@", str(root)) for t in tags]
                for pth in ("/p", "/q"):
                    doc["paths"][pth]["get"]["tags"] = tags if pth == "/p" else list(reversed(tags))
                (root / "sentinel.txt").write_text("S")
                cwd = root / "cwd"
                cwd.mkdir()
                # (a) explicit output path
                g = impl.Gen(doc, meta=meta, root=root, cfg=cfg)
                # the tag directories under api/ are exactly the sanitised tags the options select (independent expectation)
                from openapi_python_client import utils as _u
                sel = tags if (cfg or {}).get("generate_all_tags") else tags[:1]
                sel_q = list(reversed(tags)) if (cfg or {}).get("generate_all_tags") else list(reversed(tags))[:1]
                want_dirs = {str(_u.PythonIdentifier(t, "tag")) for t in sel + sel_q}
                pk = root / "out" if meta == "none" else next((p for p in (root / "out").iterdir() if p.is_dir() and (p / "api").exists()), root / "out") if (root / "out").exists() else root / "out"
                if (pk / "api").exists():
                    got_dirs = {p.name for p in (pk / "api").iterdir() if p.is_dir()}
                    if got_dirs != want_dirs:
                        run.violation("oracle", {"hostile_name": nm, "meta": meta, "cfg": cfg, "tags": tags, "note": "tag packages under api/ are not exactly the sanitised selected tags",
                                                 "got": sorted(got_dirs), "want": sorted(want_dirs)})
                case = {"hostile_name": nm, "meta": meta, "cfg": cfg, "tags": tags}
                run.note_case(case, kind="hostile-name")
                listing = sorted(str(p.relative_to(root)) for p in root.rglob("*") if p.is_file())
                outside = [p for p in listing if not (p.startswith("out/") or p in ("doc.json", "sentinel.txt"))]
                if outside or (root / "sentinel.txt").read_text() != "S":
                    run.violation("oracle", {**case, "note": "files written outside the output directory", "outside": outside[:10]})
                # every path component safe
                for p in listing:
                    if p.startswith("out/"):
                        comps = p.split("/")[1:]
                        if any(c in ("", ".", "..") or "\\" in c or "\x00" in c for c in comps):
                            run.violation("oracle", {**case, "note": "unsafe path component", "path": p})
                # (b) default output location (cwd / project name): run Project in-process with cwd changed
                old = os.getcwd()
                try:
                    os.chdir(cwd)
                    from openapi_python_client import generate
                    from openapi_python_client.config import Config, ConfigFile, MetaType
                    import contextlib, io
                    cfgo = Config.from_sources(ConfigFile(post_hooks=[], **(cfg or {})), MetaType(meta), root / "doc.json", "utf-8", False, output_path=None)
                    try:
                        with contextlib.redirect_stdout(io.StringIO()):
                            generate(config=cfgo)
                    except Exception as e:  # crash is C06's business; here only confinement matters
                        pass
                finally:
                    os.chdir(old)
                listing2 = sorted(str(p.relative_to(root)) for p in root.rglob("*") if p.is_file())
                outside2 = [p for p in listing2 if not (p.startswith("out/") or p.startswith("cwd/") or p in ("doc.json", "sentinel.txt"))]
                top = sorted(x.name for x in cwd.iterdir())
                if outside2 or len(top) > 1:
                    run.violation("oracle", {**case, "note": "default output location: files written outside cwd/<one project dir>", "outside": outside2[:10], "cwd_entries": top})
            finally:
                shutil.rmtree(root, ignore_errors=True)
                ev = Path("/tmp/evil")
                if ev.exists():
                    run.violation("oracle", {"hostile_name": nm, "note": "/tmp/evil created"})
                    shutil.rmtree(ev, ignore_errors=True)
