"""C20 - using a component by reference is equivalent to writing it inline.

Stage B (correspondence with coq/Refs.v, evaluated inside Coq): parse_reference_path / get_reference_simple_name on hostile strings;
bodies._resolve_reference on random request-body tables (chains to length 6, cycles, misses, remote / relative / wrong-section /
percent-encoded / trailing-slash / empty references); build_parameters + Endpoint.from_data/add_parameters on random component
parameter tables and operation + path-item parameter lists (references and inline copies mixed); the reference case of
response_from_data.
Stage C (the property itself): (1) inline <-> reference rewriting of random subsets of parameter / request body / response positions of
random documents: the whole generated tree (in particular every endpoint module) must be byte-identical; (2) schema positions by $ref
vs inline copy: same wire behaviour (from_dict/to_dict round trips and captured requests / parsed responses of both clients) and a
single generated class per referenced schema; (3) malformed / dangling / remote / circular references at every position kind: a
diagnostic for the user of the reference, every other module byte-identical to the document without that item."""
import copy, json, os, random, re, concurrent.futures as cf
from lib.common import cstr, run_cases, coq_eval, REPO
from lib import impl

import contextlib, signal


@contextlib.contextmanager
def deadline(sec):
    """a hang of the implementation (e.g. a reference cycle without guard) becomes a TimeoutError instead of a hung check"""
    def onalarm(signum, frame):
        raise TimeoutError("implementation did not return within %ds" % sec)
    old = signal.signal(signal.SIGALRM, onalarm)
    signal.alarm(sec)
    try:
        yield
    finally:
        signal.alarm(0)
        signal.signal(signal.SIGALRM, old)


def gen_dl(doc, sec=60):
    """impl.Gen under a deadline; a timeout is recorded as the generator's exception"""
    try:
        with deadline(sec):
            return impl.Gen(doc)
    except TimeoutError as e:
        class _G:
            exc = e
            errors = []
            out = None
            def files(self): return {}
            def diag(self): return []
            def close(self): pass
            def __enter__(self): return self
            def __exit__(self, *a): pass
        return _G()


HDR = r"""Require Import OPC.gen.GenParams OPC.Uni OPC.Refs.
Open Scope N_scope.
Definition pref_eqb (a b : pref_result) : bool :=
  match a, b with PROk x, PROk y => str_eqb x y | PRRemote, PRRemote => true | PRCrash, PRCrash => true | PRUnmodelled, _ => true | _, _ => false end.
Definition body_eqb (a b : body_result N) : bool :=
  match a, b with BRNone, BRNone => true | BROk x, BROk y => x =? y | BRCircular x, BRCircular y => str_eqb x y
  | BRMissing x, BRMissing y => str_eqb x y | _, _ => false end.
Definition resp_eqb (a b : resp_result N) : bool :=
  match a, b with RROk x, RROk y => x =? y | RRRemote, RRRemote => true | RRNotAllowed, RRNotAllowed => true | RRNotFound, RRNotFound => true
  | RRTopRef, RRTopRef => true | RRCrash, RRCrash => true | RRUnmodelled, _ => true | _, _ => false end.
Definition pval_eqb (a b : pval) : bool :=
  match a, b with PVnone, PVnone => true | PVbool x, PVbool y => Bool.eqb x y | PVstr x, PVstr y => str_eqb x y | PVloc x, PVloc y => loc_eqb x y
  | PVschema x, PVschema y => x =? y | PVother x, PVother y => x =? y | _, _ => false end.
(* observed table: list (ref path, list (field id, value)) for ALL fields of the registered Parameter *)
Definition param_eqb (p : param) (obs : list (N * pval)) : bool := forallb (fun fv => pval_eqb (pget p (fst fv)) (snd fv)) obs.
Definition table_eqb (t : ptable) (obs : list (str * list (N * pval))) : bool :=
  forallb (fun kv => match assoc (fst kv) t with Some p => param_eqb p (snd kv) | None => false end) obs
  && forallb (fun kv => match assoc (fst kv) obs with Some _ => true | None => false end) t.
Definition strs_eqb (a b : list str) : bool := (length a =? length b)%nat && forallb (fun xy => str_eqb (fst xy) (snd xy)) (combine a b).
Definition build_case (comps : list (str * comp)) (obs : list (str * list (N * pval))) (n_ref_errs : nat) (par_errs : list str) : bool :=
  let r := build_parameters comps in
  table_eqb (fst r) obs && (length (fst (snd r)) =? n_ref_errs)%nat && (length (snd (snd r)) =? length par_errs)%nat.
(* concrete instance of the abstract collaborators: schema ids in `bad` fail to parse; `allow` lists (schema id, locations) *)
(* state = (name, schema id) of the class-minting schemas (inline enum 7 / object 8) built so far in this endpoint: a second class of the same
   name is a duplicate-class error, except that two enums with equal values share one class (by design of EnumProperty.build) *)
Definition c_build (bad mint : list N) (st : list (str * N)) (n : str) (r : bool) (s : N) : option ((N * bool) * list (str * N)) :=
  if memN s bad then None
  else if memN s mint then
    (if existsb (fun k => str_eqb n (fst k) && negb ((s =? 7) && (snd k =? 7))) st then None else Some ((s, r), (n, s) :: st))
  else Some ((s, r), st).
Definition c_validate (allow : list (N * list loc)) (p : N * bool) (l : loc) : bool :=
  match assocN (fst p) allow with Some ls => existsb (loc_eqb l) ls | None => false end && match l with LPath => snd p | _ => true end.
Definition obs_param := (str * (loc * (bool * N)))%type.
Definition pp_eqb (q : pparam (N * bool)) (o : obs_param) : bool :=
  str_eqb (pp_name q) (fst o) && loc_eqb (pp_loc q) (fst (snd o)) && Bool.eqb (pp_required q) (fst (snd (snd o))) && (pp_schema q =? snd (snd (snd o))).
Definition by_loc (l : loc) (e : eparams (N * bool)) := filter (fun q => loc_eqb (pp_loc q) l) e.
Fixpoint list_eqb {A B} (f : A -> B -> bool) (a : list A) (b : list B) : bool :=
  match a, b with [] , [] => true | x :: a', y :: b' => f x y && list_eqb f a' b' | _, _ => false end.
Definition perr_eqb (a b : perr) : bool :=
  match a, b with ERemote, ERemote | ENotFound, ENotFound | EDup, EDup | EBuild, EBuild | ELocation, ELocation | EConflict, EConflict | ECrash, ECrash => true
  | EUnmodelled, _ => true | _, _ => false end.
Definition ep_case (comps : list (str * comp)) (bad : list N) (allow : list (N * list loc)) (ops pis : option (list pitem))
    (obs : (list obs_param * (list obs_param * (list obs_param * list obs_param))) + perr) (nbuilt : N) : bool :=
  let r := endpoint_parameters (list (str * N)) (N * bool) (c_build bad [7; 8]) (c_validate allow) (fun e => inl e) (fun s => Some s) (fst (build_parameters comps)) ops pis [] in
  match fst r, obs with
  | inl e, inl (q, (p, (h, c))) => list_eqb pp_eqb (by_loc LQuery e) q && list_eqb pp_eqb (by_loc LPath e) p && list_eqb pp_eqb (by_loc LHeader e) h && list_eqb pp_eqb (by_loc LCookie e) c
  | inr a, inr b => perr_eqb a b
  | _, _ => false
  end.
(* the theorem's reading of the same case: all references replaced by the components as written *)
Definition ep_inline_case (comps : list (str * comp)) (bad : list N) (allow : list (N * list loc)) (ops pis : list pitem) : bool :=
  match inline_items comps ops, inline_items comps pis with
  | Some ops', Some pis' =>
      let f := endpoint_parameters (list (str * N)) (N * bool) (c_build bad [7; 8]) (c_validate allow) (fun e => inl e) (fun s => Some s) (fst (build_parameters comps)) in
      match fst (f (Some ops) (Some pis) []), fst (f (Some ops') (Some pis') []) with
      | inl a, inl b => list_eqb (fun x y => pp_eqb x (pp_name y, (pp_loc y, (pp_required y, pp_schema y)))) a b
      | inr a, inr b => perr_eqb a b
      | _, _ => false
      end
  | _, _ => true
  end.
"""

# ====================================================================================================================
# reference strings
# ====================================================================================================================
REF_ALPH = ["#", "/", "?", ";", ":", "a", "B", "1", "+", ".", "-", " ", "\t", "\n", "\r", "\x00", "[", "]", "é", "%", "~", "@", "//",
            "#/components/schemas/", "#/components/parameters/", "#/components/responses/", "#/components/requestBodies/", "http", "x.yaml", "%20", "~1"]


def bad_ref_forms(section, name):
    """malformed / non-local variants of the canonical reference '#/components/<section>/<name>' (label, text)"""
    canon = f"#/components/{section}/{name}"
    other = {"parameters": "schemas", "schemas": "parameters", "responses": "requestBodies", "requestBodies": "responses"}[section]
    return [
        ("dangling", f"#/components/{section}/Nope{name}"),
        ("remote-file", f"other.yaml{canon}"),
        ("remote-url", f"https://example.com/api.yaml{canon}"),
        ("relative-path", f"./defs/{name}.yaml"),
        ("bare-name", name),
        ("empty", ""),
        ("empty-fragment", "#"),
        ("wrong-section", f"#/components/{other}/{name}"),
        ("percent-encoded", f"#/components/{section}/" + "".join("%%%02X" % ord(c) for c in name)),
        ("trailing-slash", canon + "/"),
        ("netloc-only", "//example.com" + canon),
        ("query-only", "?v=1" + canon),
        ("extra-segment", f"#/components/{section}/x/{name}"),
        ("no-leading-slash", f"#components/{section}/{name}"),
        ("bracket", "//[" + canon),
    ]


def stage_b_refstrings(run, tier):
    from openapi_python_client.parser.properties.schemas import parse_reference_path as prp, get_reference_simple_name as gsn
    rng = run.rng
    n = 1500 if tier == "quick" else 8000
    cases = [t for _, t in bad_ref_forms("schemas", "Pet")] + [t for _, t in bad_ref_forms("requestBodies", "a b")]
    cases += ["#/components/schemas/Pet", "#/components/schemas/a\tb", " \n#/x", "x:#/a", "1x:#/a", "a+b.c-d:#/x", "//h;p?q#/a", ";#/a", "/;#/a", "a;b#/c", "//℀#/a", "//[::1]#/a"]
    while len(cases) < n:
        cases.append("".join(rng.choice(REF_ALPH) for _ in range(rng.randint(0, 8))))
    terms, meta = [], []
    for s in cases:
        try:
            r = prp(s)
            obs = f"(PROk {cstr(r)})" if isinstance(r, str) else "PRRemote"
        except ValueError:
            obs = "PRCrash"
        terms.append(f"pref_eqb (parse_reference_path {cstr(s)}) {obs} && str_eqb (get_reference_simple_name {cstr(s)}) {cstr(gsn(s))}")
        meta.append({"fn": "parse_reference_path", "input": s, "impl": obs})
        run.note_case({"ref": s}, nontrivial=len(s) > 1, kind="refstring")
    return terms, meta


# ====================================================================================================================
# request-body tables
# ====================================================================================================================
def rand_body_ref(rng, names):
    n = rng.choice(names)
    r = rng.random()
    if r < 0.55:
        return f"#/components/requestBodies/{n}"
    forms = [f"#/components/schemas/{n}", f"other.yaml#/components/requestBodies/{n}", f"http://evil/x#/{n}", n, f"#/components/requestBodies/{n}/", f"//h#/components/requestBodies/{n}",
             f"#/components/requestBodies/x/{n}", "#/components/requestBodies/" + "".join("%%%02X" % ord(c) for c in n), "", "#", f"#/{n}#/{n}"]
    return rng.choice(forms)


def stage_b_bodies(run, tier):
    from openapi_python_client import schema as oai
    from openapi_python_client.parser.bodies import _resolve_reference
    from openapi_python_client.parser.errors import ParseError
    rng = run.rng
    n = 500 if tier == "quick" else 4000
    terms, meta = [], []
    hangs = 0
    for ci in range(n):
        names = [chr(65 + i) for i in range(rng.randint(1, 8))] + rng.sample(["a b", "x.y", "Ü", "p-1", ""], rng.randint(0, 2))
        mode = rng.random()
        comps = {}
        order = list(names)
        rng.shuffle(order)
        if mode < 0.45:
            # a deliberate chain of length 1..6 through canonical references, ending in a body / a miss / a cycle
            k = min(len(order), rng.randint(1, 6))
            chain = order[:k]
            end = rng.choice(["body", "body", "miss", "cycle"])
            for i, nm in enumerate(chain):
                if i + 1 < k:
                    comps[nm] = ("ref", f"#/components/requestBodies/{chain[i + 1]}")
                elif end == "body":
                    comps[nm] = ("body", ci * 10 + i)
                elif end == "miss":
                    comps[nm] = ("ref", "#/components/requestBodies/Missing")
                else:
                    comps[nm] = ("ref", f"#/components/requestBodies/{rng.choice(chain)}")
            for nm in order[k:]:
                comps[nm] = ("body", ci * 10 + 9) if rng.random() < 0.5 else ("ref", rand_body_ref(rng, names))
            start = ("ref", f"#/components/requestBodies/{chain[0]}") if rng.random() < 0.8 else ("ref", rand_body_ref(rng, names))
        else:
            for i, nm in enumerate(order):
                comps[nm] = ("body", ci * 10 + i) if rng.random() < 0.4 else ("ref", rand_body_ref(rng, names + ["Missing"]))
            r = rng.random()
            start = None if r < 0.05 else ("body", ci * 10 + 8) if r < 0.12 else ("ref", rand_body_ref(rng, names + ["Missing"]))
        mk = lambda e: oai.Reference.model_construct(ref=e[1]) if e[0] == "ref" else oai.RequestBody.model_construct(description=str(e[1]), content={})
        table = {k: mk(v) for k, v in comps.items()}
        try:
            if hangs >= 4:
                break               # the implementation hangs on cycles: enough evidence, do not wait for every remaining case
            with deadline(1):
                res = _resolve_reference(None if start is None else mk(start), table)
        except TimeoutError:
            res = "hang"
            hangs += 1
        if res == "hang":
            obs = "BRFuel (* the implementation did not terminate *)"
        elif res is None:
            obs = "BRNone"
        elif isinstance(res, ParseError):
            d = res.detail or ""
            if isinstance(res.data, oai.Reference):
                obs = f"(BRCircular {cstr(res.data.ref)})"
            else:
                m = re.match(r"Could not resolve \$ref (.*) in request body$", d, re.S)
                obs = f"(BRMissing {cstr(m.group(1))})" if m else "BRFuel"
        else:
            obs = f"(BROk {int(res.description)})"
        ce = lambda e: f"(BRef {cstr(e[1])})" if e[0] == "ref" else f"(BBody {e[1]})"
        ctab = "[" + "; ".join(f"({cstr(k)}, {ce(v)})" for k, v in comps.items()) + "]"
        cstart = "None" if start is None else f"(Some {ce(start)})"
        terms.append(f"body_eqb (resolve_body (B:=N) {ctab} {cstart}) {obs}")
        meta.append({"fn": "_resolve_reference", "components": comps, "start": start, "impl": obs})
        run.note_case({"components": comps, "start": start}, nontrivial=start is not None and start[0] == "ref", kind="body-chain" if mode < 0.45 else "body-random")
    return terms, meta


# ====================================================================================================================
# parameters
# ====================================================================================================================
LOCS = ["query", "path", "header", "cookie"]
CLOC = {"query": "LQuery", "path": "LPath", "header": "LHeader", "cookie": "LCookie"}
# schema id -> schema (ids are what the model sees); 9 fails to parse (array without items)
PSCHEMAS = {1: {"type": "integer"}, 2: {"type": "string"}, 3: {"type": "boolean"}, 4: {"type": "number"}, 5: {"type": "array", "items": {"type": "string"}},
            6: {"type": "string", "format": "date"}, 7: {"type": "string", "enum": ["u", "v"]}, 8: {"type": "object", "properties": {"z": {"type": "integer"}}}, 9: {"type": "array"}}
PNAMES = ["id", "q", "limit", "X-Trace", "sess", "kind", "when", "flag"]
FIELD_IDS = {"name": 0, "param_in": 1, "required": 2, "param_schema": 3, "style": 4, "explode": 5, "description": 6, "deprecated": 7, "allowEmptyValue": 8,
             "allowReserved": 9, "example": 10, "examples": 11, "content": 12}


def rand_param(rng, with_schema=None):
    p = {"name": rng.choice(PNAMES), "in": rng.choice(LOCS)}
    if rng.random() < 0.6:
        p["required"] = rng.random() < 0.7
    if p["in"] == "path" and rng.random() < 0.93:
        p["required"] = True
    has_schema = with_schema if with_schema is not None else rng.random() < 0.93
    if has_schema:
        p["_sid"] = rng.choice([8, 9, 5]) if rng.random() < 0.07 else rng.choice([1, 1, 2, 2, 3, 4, 6, 7] + ([5, 5] if p["in"] == "query" else []))
        p["schema"] = PSCHEMAS[p["_sid"]]
    else:
        p["content"] = {"application/json": {"schema": {"type": "string"}}}
    for k, v in (("description", "d%d" % rng.randrange(9)), ("deprecated", True), ("style", rng.choice(["form", "simple", "deepObject"])), ("explode", True),
                 ("allowEmptyValue", True), ("allowReserved", True), ("example", 5)):
        if rng.random() < 0.3:
            p[k] = v
    return p


def cparam(p):
    """Coq `param` (assoc list) of a raw parameter dict"""
    f = [(0, f"PVstr {cstr(p['name'])}"), (1, f"PVloc {CLOC[p['in']]}")]
    if "required" in p:
        f.append((2, f"PVbool {'true' if p['required'] else 'false'}"))
    if "schema" in p:
        f.append((3, f"PVschema {p['_sid']}"))
    for k in ("style", "description"):
        if k in p:
            f.append((FIELD_IDS[k], f"PVstr {cstr(p[k])}"))
    for k in ("explode", "deprecated", "allowEmptyValue", "allowReserved"):
        if k in p:
            f.append((FIELD_IDS[k], f"PVbool {'true' if p[k] else 'false'}"))
    if "example" in p:
        f.append((10, "PVother 1"))
    if "content" in p:
        f.append((12, "PVother 2"))
    return "[" + "; ".join(f"({i}, {v})" for i, v in f) + "]"


def obs_pval(field, v, sid_of):
    if v is None:
        return "PVnone"
    if isinstance(v, bool):
        return f"PVbool {'true' if v else 'false'}"
    if field == "param_in":
        return f"PVloc {CLOC[str(v.value)]}"
    if field == "param_schema":
        return f"PVschema {sid_of(v)}"
    if isinstance(v, str):
        return f"PVstr {cstr(v)}"
    return "PVother 1" if field == "example" else "PVother 2"


def stage_b_params(run, tier):
    from openapi_python_client import schema as oai
    from openapi_python_client.parser.properties import Parameters, Schemas, build_parameters
    from openapi_python_client.parser.openapi import Endpoint
    from openapi_python_client.parser.errors import ParseError, ParameterError
    from openapi_python_client.parser import properties as PR
    rng = run.rng
    _, config = impl.parse_doc(impl.base_doc())
    n = 350 if tier == "quick" else 3000
    # which locations each schema id's property class allows (read from the real classes: validate_location is not this property's subject)
    allow = {}
    for sid, sch in PSCHEMAS.items():
        prop, _ = PR.property_from_data(name="x", required=True, data=oai.Schema.model_validate(sch), schemas=Schemas(), parent_name="p", config=config)
        allow[sid] = None if isinstance(prop, ParseError) else [l for l in LOCS if oai.ParameterLocation(l) in prop._allowed_locations]
    bad = [sid for sid, a in allow.items() if a is None]
    callow = "[" + "; ".join(f"({sid}, [{'; '.join(CLOC[l] for l in a)}])" for sid, a in allow.items() if a is not None) + "]"
    cbad = "[" + "; ".join(str(b) for b in bad) + "]"
    sid_by_json = {json.dumps(v, sort_keys=True): k for k, v in PSCHEMAS.items()}

    def sid_of(schema_obj):
        return sid_by_json[json.dumps(schema_obj.model_dump(by_alias=True, exclude_none=True, exclude_unset=True), sort_keys=True)]

    terms, meta = [], []
    for ci in range(n):
        # ---- component table
        keys = rng.sample(["P1", "P2", "P3", "Q", "a b", "x.y", "Ü", "p-1", "a\tb", "ab", "P1\n", "#h", "k:1"], rng.randint(1, 6))
        comps = {}
        for k in keys:
            r = rng.random()
            comps[k] = ("ref", "#/components/parameters/" + rng.choice(keys)) if r < 0.05 else ("param", rand_param(rng))
        oai_comps = {k: (oai.Reference(ref=v[1]) if v[0] == "ref" else oai.Parameter.model_validate({x: y for x, y in v[1].items() if x != "_sid"})) for k, v in comps.items()}
        ccomps = "[" + "; ".join(f"({cstr(k)}, " + (f"CRef {cstr(v[1])}" if v[0] == "ref" else f"CParam {cparam(v[1])}") + ")" for k, v in comps.items()) + "]"
        params = build_parameters(components=oai_comps, parameters=Parameters(), config=config)
        obs_tab = "[" + "; ".join(f"({cstr(rp)}, [" + "; ".join(f"({FIELD_IDS[f]}, {obs_pval(f, getattr(p, f), sid_of)})" for f in FIELD_IDS) + "])"
                                  for rp, p in params.classes_by_reference.items()) + "]"
        ref_errs = [e for e in params.errors if isinstance(e.data, oai.Reference)]
        par_errs = [e for e in params.errors if not isinstance(e.data, oai.Reference)]
        terms.append(f"build_case {ccomps} {obs_tab} {len(ref_errs)} [{'; '.join(cstr(e.header or '') for e in par_errs)}]")
        meta.append({"fn": "build_parameters", "components": comps, "impl": {"table": sorted(params.classes_by_reference), "errors": len(params.errors)}})
        run.note_case({"components": comps}, nontrivial=len(comps) > 1, kind="param-table")

        # ---- an operation + path item using the table
        def item():
            r = rng.random()
            if r < 0.45:
                k = rng.choice(keys)
                rr = rng.random()
                ref = f"#/components/parameters/{k}" if rr < 0.9 else rng.choice([t for _, t in bad_ref_forms("parameters", k) if "[" not in t or rng.random() < 0.3])
                return ("ref", ref)
            return ("param", rand_param(rng))
        lists = []
        for lvl in range(2):
            lists.append(None if rng.random() < 0.1 else [item() for _ in range(rng.randint(0, 4))])
        mk = lambda it: oai.Reference(ref=it[1]) if it[0] == "ref" else oai.Parameter.model_validate({x: y for x, y in it[1].items() if x != "_sid"})
        op = oai.Operation.model_construct(parameters=None if lists[0] is None else [mk(i) for i in lists[0]], responses={}, operationId="opx", tags=None, summary=None, description=None,
                                           security=None, request_body=None)
        pi = oai.PathItem.model_construct(parameters=None if lists[1] is None else [mk(i) for i in lists[1]])
        cit = lambda it: f"PIRef {cstr(it[1])}" if it[0] == "ref" else f"PIParam {cparam(it[1])}"
        cl = lambda l: "None" if l is None else "(Some [" + "; ".join(cit(i) for i in l) + "])"
        schemas0 = Schemas()
        try:
            ep, schemas1, _ = Endpoint.from_data(data=op, path="/x", method="get", tags=["default"], schemas=schemas0, parameters=params, request_bodies={}, responses={}, config=config)
            if not isinstance(ep, ParseError):
                ep, schemas1, _ = Endpoint.add_parameters(endpoint=ep, data=pi, schemas=schemas1, parameters=params, config=config)
            exc = None
        except ValueError as e:
            ep, exc = None, e
        if exc is not None:
            obs = "(inr ECrash)"
        elif isinstance(ep, ParseError):
            d = ep.detail or ""
            if isinstance(ep, ParameterError):
                kind = "ERemote" if "Remote references" in d else "ENotFound"
            elif "MUST NOT contain duplicates" in d:
                kind = "EDup"
            elif "cannot parse parameter" in d:
                kind = "EBuild"
            elif "is not allowed in" in d or "must be required" in d:
                kind = "ELocation"
            elif "same Python identifier" in d:
                kind = "EConflict"
            else:
                kind = "EUnmodelled (* unclassified: %s *)" % d[:40].replace("*", "")
            obs = f"(inr {kind})"
        else:
            def ol(props, loc):
                out = []
                for p in props:
                    # recover the schema id from the property the real parser built
                    cls = type(p).__name__
                    sid = {"IntProperty": 1, "StringProperty": 2, "BooleanProperty": 3, "FloatProperty": 4, "ListProperty": 5, "DateProperty": 6, "EnumProperty": 7, "ModelProperty": 8}.get(cls, 0)
                    out.append(f"({cstr(p.name)}, ({CLOC[loc]}, ({'true' if p.required else 'false'}, {sid})))")
                return "[" + "; ".join(out) + "]"
            obs = f"(inl ({ol(ep.query_parameters, 'query')}, ({ol(ep.path_parameters, 'path')}, ({ol(ep.header_parameters, 'header')}, {ol(ep.cookie_parameters, 'cookie')}))))"
        terms.append(f"ep_case {ccomps} {cbad} {callow} {cl(lists[0])} {cl(lists[1])} {obs} 0")
        meta.append({"fn": "Endpoint.from_data+add_parameters", "components": comps, "operation_parameters": lists[0], "path_item_parameters": lists[1], "impl": obs})
        run.note_case({"components": comps, "op": lists[0], "pi": lists[1]}, nontrivial=bool(lists[0]) or bool(lists[1]), kind="param-lists")
        # the theorem's statement evaluated on the same case (model-internal; a failure here means the proved statement is not what was modelled)
        if lists[0] is not None and lists[1] is not None:
            terms.append(f"ep_inline_case {ccomps} {cbad} {callow} [{'; '.join(cit(i) for i in lists[0])}] [{'; '.join(cit(i) for i in lists[1])}]")
            meta.append({"fn": "param_ref_inline (model)", "components": comps, "operation_parameters": lists[0], "path_item_parameters": lists[1], "impl": "n/a"})
    return terms, meta


# ====================================================================================================================
# responses
# ====================================================================================================================
def stage_b_responses(run, tier):
    from http import HTTPStatus
    from openapi_python_client import schema as oai
    from openapi_python_client.parser.properties import Schemas
    from openapi_python_client.parser.responses import response_from_data, Response
    rng = run.rng
    _, config = impl.parse_doc(impl.base_doc())
    n = 400 if tier == "quick" else 3000
    terms, meta = [], []
    for ci in range(n):
        names = rng.sample(["R", "S", "T", "a b", "x.y", "Ü", "", "R\n"], rng.randint(1, 5))
        comps = {}
        for i, nm in enumerate(names):
            comps[nm] = ("ref", "#/components/responses/" + rng.choice(names)) if rng.random() < 0.2 else ("resp", ci * 10 + i)
        nm = rng.choice(names + ["Missing"])
        r = rng.random()
        if r < 0.08:
            data = ("resp", ci * 10 + 9)
        elif r < 0.5:
            data = ("ref", f"#/components/responses/{nm}")
        else:
            data = ("ref", rng.choice([t for _, t in bad_ref_forms("responses", nm)] + [f"#/components/responses/{nm}\t", f" #/components/responses/{nm}", f"#/components/responses//{nm}"]))
        mk = lambda e: oai.Reference(ref=e[1]) if e[0] == "ref" else oai.Response(description=str(e[1]))
        table = {k: mk(v) for k, v in comps.items()}
        try:
            res, _ = response_from_data(status_code=HTTPStatus(200), data=mk(data), schemas=Schemas(), responses=table, parent_name="p", config=config)
            if isinstance(res, Response):
                obs = f"(RROk {int(res.data.description)})"
            else:
                d = res.detail or ""
                obs = "RRRemote" if "Remote references" in d else "RRNotAllowed" if "not allowed in responses" in d else "RRNotFound" if "Could not find reference" in d \
                    else "RRTopRef" if "Top-level $ref" in d else "RRUnmodelled (* unclassified *)"
                if obs.startswith("RRUnmodelled"):
                    obs = "RRCrash (* unclassified error: %s *)" % d[:40].replace("*", "")
        except ValueError:
            obs = "RRCrash"
        ce = lambda e: f"(RRefE {cstr(e[1])})" if e[0] == "ref" else f"(RResp {e[1]})"
        ctab = "[" + "; ".join(f"({cstr(k)}, {ce(v)})" for k, v in comps.items()) + "]"
        terms.append(f"resp_eqb (resolve_response (R:=N) {ctab} {ce(data)}) {obs}")
        meta.append({"fn": "response_from_data", "components": comps, "data": data, "impl": obs})
        run.note_case({"components": comps, "data": data}, nontrivial=data[0] == "ref", kind="response-ref")
    return terms, meta


# ====================================================================================================================
# stage C (1): inline <-> reference rewriting of parameters / request bodies / responses
# ====================================================================================================================
SREF = "#/components/schemas/"
BASE_SCHEMAS = {
    "Pet": {"type": "object", "required": ["name"], "properties": {"name": {"type": "string"}, "age": {"type": "integer"}, "kind": {"$ref": SREF + "Kind"}, "born": {"type": "string", "format": "date"}}},
    "Kind": {"type": "string", "enum": ["cat", "dog"]},
    "Tag": {"type": "object", "properties": {"label": {"type": "string"}, "pets": {"type": "array", "items": {"$ref": SREF + "Pet"}}}},
    "Err": {"type": "object", "properties": {"code": {"type": "integer"}, "msg": {"type": "string"}}},
}
OP_PARAM_SCHEMAS = [{"type": "integer"}, {"type": "string"}, {"type": "boolean"}, {"type": "number"}, {"type": "string", "format": "date"}, {"type": "string", "format": "uuid"},
                    {"$ref": SREF + "Kind"}, {"type": "string", "enum": ["x", "y z"]}, {"type": "integer", "default": 3}, {"type": "string", "default": "dflt", "description": "a described schema"}]
QUERY_ONLY_SCHEMAS = [{"type": "array", "items": {"type": "string"}}, {"type": "array", "items": {"$ref": SREF + "Kind"}}, {"$ref": SREF + "Pet"},
                      {"type": ["string", "null"]}, {"anyOf": [{"type": "integer"}, {"type": "string", "format": "date"}]}]


def gen_op_param(rng, loc, name, hostile=False):
    p = {"name": name, "in": loc}
    if loc == "path":
        p["required"] = True
    elif rng.random() < 0.6:
        p["required"] = rng.random() < 0.5
    pool = OP_PARAM_SCHEMAS + (QUERY_ONLY_SCHEMAS if loc == "query" else [])
    if loc == "path":
        pool = OP_PARAM_SCHEMAS[:8]
    p["schema"] = copy.deepcopy(rng.choice(pool))
    for k, v in (("description", "param %s in %s" % (name, loc)), ("deprecated", True), ("style", "form" if loc in ("query", "cookie") else "simple"), ("explode", rng.random() < 0.5),
                 ("example", "e"), ("allowEmptyValue", True)):
        if rng.random() < 0.3:
            p[k] = v
    if hostile and rng.random() < 0.5:
        del p["schema"]
        p["content"] = {"application/json": {"schema": {"type": "string"}}}
    return p


def gen_body(rng):
    r = rng.random()
    json_schemas = [{"$ref": SREF + "Pet"}, {"type": "array", "items": {"$ref": SREF + "Pet"}}, {"type": "object", "properties": {"a": {"type": "string"}, "k": {"$ref": SREF + "Kind"}}},
                    {"type": "string"}, {"type": "object", "additionalProperties": {"type": "integer"}}]
    form = {"type": "object", "properties": {"f1": {"type": "string"}, "f2": {"type": "integer"}}, "required": ["f1"]}
    multi = {"type": "object", "properties": {"file": {"type": "string", "format": "binary"}, "note": {"type": "string"}, "tag": {"$ref": SREF + "Tag"}}, "required": ["file"]}
    content = {}
    kinds = rng.sample(["json", "form", "multipart", "octet", "vjson", "xml"], rng.choice([1, 1, 1, 2, 3]))
    for k in kinds:
        if k == "json":
            content["application/json"] = {"schema": copy.deepcopy(rng.choice(json_schemas))}
        elif k == "vjson":
            content["application/vnd.api+json; charset=utf-8"] = {"schema": {"$ref": SREF + "Tag"}}
        elif k == "form":
            content["application/x-www-form-urlencoded"] = {"schema": copy.deepcopy(rng.choice([form, {"$ref": SREF + "Err"}]))}
        elif k == "multipart":
            content["multipart/form-data"] = {"schema": copy.deepcopy(rng.choice([multi, {"$ref": SREF + "Pet"}]))}
        elif k == "octet":
            content["application/octet-stream"] = {"schema": {"type": "string", "format": "binary"}}
        else:
            content["application/xml"] = {"schema": {"type": "string"}}    # unsupported: a warning in both documents
    b = {"content": content}
    if rng.random() < 0.5:
        b["required"] = rng.random() < 0.7
    if rng.random() < 0.4:
        b["description"] = "the body"
    return b


def gen_response(rng, status):
    r = rng.random()
    resp = {"description": "response %s" % status}
    if status == "204" or r < 0.15:
        return resp
    if r < 0.6:
        sch = rng.choice([{"$ref": SREF + "Pet"}, {"type": "array", "items": {"$ref": SREF + "Tag"}}, {"$ref": SREF + "Err"}, {"type": "object", "properties": {"ok": {"type": "boolean"}}},
                          {"oneOf": [{"$ref": SREF + "Pet"}, {"$ref": SREF + "Err"}]}, {"$ref": SREF + "Kind"}, {"type": "integer"}])
        resp["content"] = {"application/json": {"schema": copy.deepcopy(sch)}}
    elif r < 0.75:
        resp["content"] = {"text/plain": {"schema": {"type": "string"}}}
    elif r < 0.85:
        resp["content"] = {"application/octet-stream": {"schema": {"type": "string", "format": "binary"}}}
    elif r < 0.93:
        resp["content"] = {"application/pdf": {"schema": {"type": "string"}}}     # unsupported: a warning either way
    else:
        resp["content"] = {"application/json": {}}
    if rng.random() < 0.2:
        resp["headers"] = {"X-Rate": {"schema": {"type": "integer"}}}
    return resp


def gen_ops_doc(rng, hostile=False):
    """a document with every component written INLINE at its point of use"""
    paths = {}
    npaths = rng.randint(1, 4)
    opn = 0
    common_resp = []
    for pi_ in range(npaths):
        path = "/r%d" % pi_
        path_names = []
        if rng.random() < 0.6:
            path_names.append(rng.choice(["id", "pid"]))
            path += "/{%s}" % path_names[-1]
            if rng.random() < 0.3:
                path_names.append("sub")
                path += "/s/{sub}"
        item = {}
        # path-item level parameters
        pl = []
        level_for_path = {n: rng.choice(["item", "op", "both"]) for n in path_names}
        for n in path_names:
            if level_for_path[n] in ("item", "both"):
                pl.append(gen_op_param(rng, "path", n))
        for _ in range(rng.choice([0, 0, 1, 2])):
            loc = rng.choice(["query", "header", "cookie"])
            pl.append(gen_op_param(rng, loc, rng.choice(PNAMES[1:]), hostile))
        pl = dedup_params(pl)
        if pl or rng.random() < 0.2:
            item["parameters"] = pl
        for method in rng.sample(["get", "post", "put", "delete", "patch"], rng.randint(1, 2)):
            opn += 1
            op = {"operationId": "op%d%s" % (opn, method.capitalize()), "tags": [rng.choice(["alpha", "beta"])], "responses": {}}
            ol = []
            for n in path_names:
                if level_for_path[n] in ("op", "both"):
                    ol.append(gen_op_param(rng, "path", n))
            for _ in range(rng.choice([0, 1, 2, 3])):
                loc = rng.choice(["query", "query", "header", "cookie"])
                ol.append(gen_op_param(rng, loc, rng.choice(PNAMES[1:]), hostile))
            ol = dedup_params(ol)
            if ol or rng.random() < 0.2:
                op["parameters"] = ol
            if method in ("post", "put", "patch") or rng.random() < 0.15:
                op["requestBody"] = gen_body(rng)
            prev = None
            for st in rng.sample(["200", "201", "204", "400", "404", "500"], rng.randint(1, 3)):
                r = rng.random()
                if st != "204" and prev is not None and r < 0.4:
                    op["responses"][st] = copy.deepcopy(prev)              # the SAME response under another status of this operation
                elif st != "204" and common_resp and r < 0.6:
                    op["responses"][st] = copy.deepcopy(rng.choice(common_resp))     # ... and shared across operations
                else:
                    op["responses"][st] = gen_response(rng, st)
                    if st != "204":
                        prev = op["responses"][st]
                        if len(common_resp) < 2:
                            common_resp.append(prev)
            if rng.random() < 0.2:
                op["summary"] = "summary %d" % opn
            item[method] = op
        paths[path] = item
    return {"openapi": rng.choice(["3.0.3", "3.1.0"]), "info": {"title": "t", "version": "1"}, "paths": paths, "components": {"schemas": copy.deepcopy(BASE_SCHEMAS)}}


def dedup_params(pl):
    seen, out = set(), []
    for p in pl:
        if (p["name"], p["in"]) not in seen:
            seen.add((p["name"], p["in"]))
            out.append(p)
    return out


def positions(doc):
    """every position where a parameter / request body / response component may stand: (kind, path, method|None, index|status)"""
    out = []
    for path, item in doc["paths"].items():
        for i, _ in enumerate(item.get("parameters") or []):
            out.append(("param", path, None, i))
        for m, op in item.items():
            if m == "parameters":
                continue
            for i, _ in enumerate(op.get("parameters") or []):
                out.append(("param", path, m, i))
            if "requestBody" in op:
                out.append(("body", path, m, None))
            for st in op.get("responses", {}):
                out.append(("response", path, m, st))
    return out


COMP_KEYS = ["C%d", "Shared%d", "comp_%d", "c-%d", "x.%d", "K %d", "\u00dc%d"]


def rewrite(doc, chosen, rng, chain_max=6, share=True):
    """the same document with the components at the chosen positions moved to components/* and used by reference"""
    d = copy.deepcopy(doc)
    comps = d.setdefault("components", {})
    counter = [0]
    moved = {}

    def fresh():
        counter[0] += 1
        return rng.choice(COMP_KEYS) % counter[0]

    def move(section, obj):
        key = (section, json.dumps(obj))       # insertion order is significant (order of content types / properties): share only identical texts
        if share and key in moved and rng.random() < 0.7:
            return moved[key]
        name = fresh()
        comps.setdefault(section, {})[name] = obj
        moved[key] = name
        return name

    for pos in chosen:
        kind, path, m, idx = pos
        holder = d["paths"][path] if m is None else d["paths"][path][m]
        if kind == "param":
            name = move("parameters", holder["parameters"][idx])
            holder["parameters"][idx] = {"$ref": "#/components/parameters/" + name}
        elif kind == "response":
            name = move("responses", holder["responses"][idx])
            holder["responses"][idx] = {"$ref": "#/components/responses/" + name}
        else:
            name = move("requestBodies", holder["requestBody"])
            k = rng.randint(0, chain_max - 1)
            for _ in range(k):          # a chain of body references in front of the body
                n2 = fresh()
                comps["requestBodies"][n2] = {"$ref": "#/components/requestBodies/" + name}
                name = n2
            holder["requestBody"] = {"$ref": "#/components/requestBodies/" + name}
    # declaration order of the component sections must not matter: shuffle them
    for sec in ("parameters", "responses", "requestBodies"):
        if sec in comps:
            ks = list(comps[sec])
            rng.shuffle(ks)
            comps[sec] = {k: comps[sec][k] for k in ks}
    return d


def noschema_positions(doc, chosen):
    """chosen parameter positions whose component has no `schema` (known finding param_ref_no_schema)"""
    out = []
    for kind, path, m, idx in chosen:
        if kind == "param":
            holder = doc["paths"][path] if m is None else doc["paths"][path][m]
            if "schema" not in holder["parameters"][idx]:
                out.append((kind, path, m, idx))
    return out


def same_but_orphans(expected, got):
    """`got` is `expected` plus at most: orphan model modules (and their listing in models/__init__.py) and empty tag packages - what a dropped
    endpoint / response leaves behind (the statement allows index files to list additional names)"""
    for k, v in expected.items():
        if k != "models/__init__.py" and got.get(k) != v:
            return False
    for k in got:
        if k not in expected and not (k.startswith("models/") or re.fullmatch(r"api/[^/]+/__init__\.py", k)):
            return False
    return True


def first_diff(fa, fb):
    for k in sorted(set(fa) | set(fb)):
        if fa.get(k) != fb.get(k):
            return k
    return None


def work_meta(args):
    """one inline document and `nrew` rewritings of it; returns plain data"""
    seed, nrew, hostile = args
    rng = random.Random(seed)
    doc = gen_ops_doc(rng, hostile)
    out = {"seed": seed, "doc": doc, "cases": [], "error": None}
    try:
        with gen_dl(doc) as g0:
            if g0.exc is not None:
                out["error"] = "generate raised on the inline document: " + repr(g0.exc)
                return out
            f0, d0 = g0.files(), sorted(g0.diag())
        pos = positions(doc)
        for ri in range(nrew):
            if not pos:
                break
            k = len(pos) if ri == 0 else rng.randint(1, len(pos))
            chosen = rng.sample(pos, k)
            d1 = rewrite(doc, chosen, rng)
            with gen_dl(d1) as g1:
                case = {"positions": chosen, "n_positions": len(pos), "doc_ref": d1, "exc": repr(g1.exc) if g1.exc is not None else None}
                f1, dg1 = g1.files(), sorted(g1.diag())
            case["first_diff"] = first_diff(f0, f1)
            case["endpoint_diff"] = bool(case["first_diff"]) and any(k.startswith("api/") and f0.get(k) != f1.get(k) for k in set(f0) | set(f1))
            case["diag_same"] = [(a, b) for a, b, c in d0] == [(a, b) for a, b, c in dg1] and len(d0) == len(dg1)
            case["diag_inline"], case["diag_ref"] = [list(x) for x in d0][:6], [list(x) for x in dg1][:6]
            case["noschema"] = noschema_positions(doc, chosen)
            if case["noschema"] and case["first_diff"] is not None:
                # the finding explains exactly this: every operation that uses such a parameter by reference is dropped, nothing else changes
                d2 = copy.deepcopy(doc)
                for _, path, m, _ in case["noschema"]:
                    for mm in ([m] if m is not None else [x for x in list(d2["paths"][path]) if x != "parameters"]):
                        d2["paths"][path].pop(mm, None)
                with gen_dl(d2) as g2:
                    f2 = g2.files()
                # (model modules may keep what the dropped endpoint had already contributed, e.g. to_multipart: then they equal the inline document's version)
                case["noschema_explains"] = same_but_orphans({k: v for k, v in f2.items() if not (k.startswith("models/") and f1.get(k) == f0.get(k))}, f1)
            case["n_endpoint_modules"] = sum(1 for k in f0 if k.startswith("api/") and not k.endswith("__init__.py"))
            out["cases"].append(case)
    except BaseException as e:  # noqa
        import traceback
        out["error"] = "harness worker: " + repr(e) + traceback.format_exc()[-800:]
    return out


def stage_c_meta(run, tier, replay_docs=None):
    rng = run.rng
    ndocs = 70 if tier == "quick" else 1200
    jobs = [(rng.randrange(1 << 30), 3 if tier == "quick" else 4, i % 8 == 7) for i in range(ndocs)]
    with cf.ProcessPoolExecutor(max_workers=14) as ex:
        results = list(ex.map(work_meta, jobs, chunksize=2))
    for r in results:
        if r["error"]:
            run.violation("harness-or-generator", {"seed": r["seed"], "error": r["error"], "doc": r["doc"]})
            continue
        for c in r["cases"]:
            kinds = sorted({p[0] for p in c["positions"]})
            run.note_case({"doc_seed": r["seed"], "positions": c["positions"]}, nontrivial=c["n_endpoint_modules"] > 0, kind="rewrite:" + "+".join(kinds))
            if c["exc"]:
                run.violation("oracle", {"doc": r["doc"], "rewritten_positions": c["positions"], "doc_ref": c["doc_ref"], "note": "generation of the by-reference document raised " + c["exc"]})
                continue
            if c["first_diff"] is None and c["diag_same"]:
                continue
            if c["noschema"] and (c.get("noschema_explains") or c["first_diff"] is None):
                if run.known_finding("param_ref_no_schema", "parameter without `schema` (described by `content`) at %s: written inline it is skipped silently, referenced from components/parameters "
                                     "the endpoint is dropped (first differing file %s)" % (c["noschema"][0], c["first_diff"])):
                    continue
            run.violation("oracle", {"doc": r["doc"], "rewritten_positions": c["positions"], "doc_ref": c["doc_ref"], "first_differing_file": c["first_diff"], "endpoint_module_differs": c["endpoint_diff"],
                                     "diagnostics_inline": c["diag_inline"], "diagnostics_by_reference": c["diag_ref"],
                                     "note": "inline and by-reference documents generate different " + ("endpoint code" if c["endpoint_diff"] else "output (non-endpoint file or diagnostics)")})


# ====================================================================================================================
# stage C (3): malformed / dangling / remote / circular references at every position kind
# ====================================================================================================================
def _ok(schema=None, desc="ok"):
    r = {"description": desc}
    if schema is not None:
        r["content"] = {"application/json": {"schema": schema}}
    return r


MAL_KINDS = ["param-op", "param-item", "body", "response", "param-schema", "body-schema", "response-schema", "property", "items", "union-member", "additional", "allof-member"]
MAL_SECTION = {"param-op": "parameters", "param-item": "parameters", "body": "requestBodies", "response": "responses"}


def malformed_docs(kind, ref):
    """(document with `ref` at the position, document with the user of that position - and its dependants - deleted)"""
    S = copy.deepcopy(BASE_SCHEMAS)
    comps = {"schemas": S,
             "parameters": {"Q": {"name": "q", "in": "query", "schema": {"type": "string"}}, "Pid": {"name": "id", "in": "path", "required": True, "schema": {"type": "integer"}}},
             "requestBodies": {"B": {"content": {"application/json": {"schema": {"$ref": SREF + "Pet"}}}}},
             "responses": {"R": _ok({"$ref": SREF + "Pet"})}}
    R = {"$ref": ref}
    paths = {
        "/g": {"get": {"operationId": "unrelatedG", "tags": ["alpha"], "parameters": [{"$ref": "#/components/parameters/Q"}], "responses": {"200": {"$ref": "#/components/responses/R"}}},
               "post": {"operationId": "unrelatedP", "tags": ["beta"], "requestBody": {"$ref": "#/components/requestBodies/B"}, "responses": {"200": _ok({"$ref": SREF + "Tag"})}}},
    }
    dele = None
    if kind == "param-op":
        paths["/a"] = {"get": {"operationId": "victim", "tags": ["alpha"], "parameters": [{"name": "z", "in": "query", "schema": {"type": "integer"}}, R], "responses": {"200": _ok({"$ref": SREF + "Err"})}},
                       "put": {"operationId": "sibling", "tags": ["alpha"], "responses": {"200": _ok()}}}
        dele = lambda d: d["paths"]["/a"].pop("get")
    elif kind == "param-item":
        paths["/a/{id}"] = {"parameters": [R], "get": {"operationId": "victim", "tags": ["alpha"], "parameters": [{"$ref": "#/components/parameters/Pid"}], "responses": {"200": _ok({"$ref": SREF + "Err"})}},
                            "delete": {"operationId": "victim2", "tags": ["beta"], "parameters": [{"$ref": "#/components/parameters/Pid"}], "responses": {"204": _ok()}}}
        dele = lambda d: d["paths"].pop("/a/{id}")
    elif kind == "body":
        paths["/a"] = {"post": {"operationId": "victim", "tags": ["alpha"], "requestBody": R, "responses": {"200": _ok({"$ref": SREF + "Err"})}}}
        dele = lambda d: d["paths"].pop("/a")
    elif kind == "response":
        paths["/a"] = {"get": {"operationId": "victim", "tags": ["alpha"], "responses": {"200": R, "404": _ok({"$ref": SREF + "Err"}, "nf")}}}
        dele = lambda d: d["paths"]["/a"]["get"]["responses"].pop("200")
    elif kind == "param-schema":
        paths["/a"] = {"get": {"operationId": "victim", "tags": ["alpha"], "parameters": [{"name": "k", "in": "query", "schema": R}], "responses": {"200": _ok()}}}
        dele = lambda d: d["paths"].pop("/a")
    elif kind == "body-schema":
        paths["/a"] = {"post": {"operationId": "victim", "tags": ["alpha"], "requestBody": {"content": {"application/json": {"schema": R}}}, "responses": {"200": _ok()}}}
        dele = lambda d: d["paths"].pop("/a")
    elif kind == "response-schema":
        paths["/a"] = {"get": {"operationId": "victim", "tags": ["alpha"], "responses": {"200": _ok(R), "404": _ok({"$ref": SREF + "Err"}, "nf")}}}
        dele = lambda d: d["paths"]["/a"]["get"]["responses"].pop("200")
    else:
        # The failing holder also uses a healthy schema `Shared`; healthy siblings use `Shared` too (through a property, array items,
        # additionalProperties, a union member), half of them declared BEFORE the holder and half AFTER it: none of them depends on the holder,
        # so none may be touched when the holder (and its real dependant `User`) is removed.
        # (two shared schemas, so that the failing holder is the FIRST user of one of them and a LATER user of the other)
        SH, SH2 = {"$ref": SREF + "Shared"}, {"$ref": SREF + "Shared2"}
        both = {"s": SH, "s2": SH2}
        holder = {"property": {"type": "object", "properties": {**both, "h": R, "n": {"type": "integer"}}},
                  "items": {"type": "object", "properties": {**both, "l": {"type": "array", "items": R}}},
                  "union-member": {"type": "object", "properties": {**both, "u": {"anyOf": [R, {"type": "integer"}]}}},
                  "additional": {"type": "object", "properties": both, "additionalProperties": R},
                  "allof-member": {"allOf": [R, {"type": "object", "properties": {**both, "extra": {"type": "string"}}}]}}[kind]
        sibs = lambda sfx, X: {"SibProp" + sfx: {"type": "object", "properties": {"s": X, "n": {"type": "integer"}}},
                               "SibItems" + sfx: {"type": "object", "properties": {"l": {"type": "array", "items": X}}},
                               "SibAddl" + sfx: {"type": "object", "additionalProperties": X},
                               "SibUnion" + sfx: {"type": "object", "properties": {"u": {"anyOf": [X, {"type": "integer"}]}}}}
        S["Shared"] = {"type": "object", "properties": {"label": {"type": "string"}}}
        S["Shared2"] = {"type": "object", "properties": {"label2": {"type": "string"}}}
        S.update(copy.deepcopy(sibs("Before", SH)))
        S["Holder"] = holder
        S["User"] = {"type": "object", "properties": {"holder": {"$ref": SREF + "Holder"}, "w": {"type": "string"}}}      # a dependant of the holder
        S.update(copy.deepcopy(sibs("After", SH2)))
        S["SibPropAfter"]["properties"]["t"] = SH            # ... and one later sibling uses both
        for sfx in ("Before", "After"):
            paths["/sib" + sfx.lower()] = {"get": {"operationId": "siblings" + sfx, "tags": ["beta"],
                                                    "responses": {st: _ok({"$ref": SREF + n}) for st, n in zip(["200", "201", "202", "203"], sibs(sfx, SH))}}}
        paths["/a"] = {"get": {"operationId": "victim", "tags": ["alpha"], "responses": {"200": _ok({"$ref": SREF + "Holder"}), "404": _ok({"$ref": SREF + "Err"}, "nf")}}}
        paths["/u"] = {"get": {"operationId": "victimUser", "tags": ["beta"], "responses": {"200": _ok({"$ref": SREF + "User"}), "404": _ok({"$ref": SREF + "Err"}, "nf")}}}

        def dele(d):
            d["components"]["schemas"].pop("Holder")
            d["components"]["schemas"].pop("User")
            d["paths"]["/a"]["get"]["responses"].pop("200")
            d["paths"]["/u"]["get"]["responses"].pop("200")
    doc = {"openapi": "3.1.0", "info": {"title": "t", "version": "1"}, "paths": paths, "components": comps}
    deleted = copy.deepcopy(doc)
    dele(deleted)
    return doc, deleted


def mal_forms(kind):
    sec = MAL_SECTION.get(kind, "schemas")
    name = {"parameters": "Q", "requestBodies": "B", "responses": "R", "schemas": "Pet"}[sec]
    forms = bad_ref_forms(sec, name)
    if sec != "schemas":
        forms.append(("circular", f"#/components/{sec}/Loop"))
    elif kind == "allof-member":
        forms.append(("self", "#/components/schemas/Holder"))     # (a self reference in a property / item position is legitimate recursion)
    return sec, name, forms


def work_mal_ref(kind):
    """per position kind: output of the canonical-reference document and of the document without the item"""
    sec, name, _ = mal_forms(kind)
    good, deleted = malformed_docs(kind, f"#/components/{sec}/{name}")
    with gen_dl(deleted) as gd:
        fd, dd = gd.files(), gd.diag()
    with gen_dl(good) as gg:
        fg, dg = gg.files(), gg.diag()
    return kind, (fd, dd, fg, dg)


def work_mal(args):
    kind, label, ref, (fd, dd, fg, dg) = args
    out = {"kind": kind, "label": label, "ref": ref, "error": None}
    try:
        sec, name, _ = mal_forms(kind)
        bad, deleted = malformed_docs(kind, ref)
        if label == "circular":
            bad["components"][sec]["Loop"] = {"$ref": f"#/components/{sec}/Loop2"}
            bad["components"][sec]["Loop2"] = {"$ref": f"#/components/{sec}/Loop"}
        out["doc"], out["doc_deleted"] = bad, deleted
        with gen_dl(bad) as gb:
            fb, db, eb = gb.files(), gb.diag(), gb.exc
        out["exc"] = repr(eb) if eb is not None else None
        out["n_diag_bad"], out["n_diag_deleted"], out["n_diag_good"] = len(db), len(dd), len(dg)
        out["diag_bad"] = [list(x) for x in db][:5]
        out["contained"] = same_but_orphans(fd, fb)
        out["first_diff_vs_deleted"] = next((k for k in sorted(set(fb) | set(fd)) if fb.get(k) != fd.get(k) and not (k.startswith("models/") and k not in fd) and k != "models/__init__.py"), None)
        out["same_as_canonical"] = fb == fg and [(a, b) for a, b, c in db] == [(a, b) for a, b, c in dg]
    except BaseException as e:  # noqa
        import traceback
        out["error"] = repr(e) + traceback.format_exc()[-600:]
    return out


def stage_c_malformed(run, tier):
    with cf.ProcessPoolExecutor(max_workers=14) as ex:
        base = dict(ex.map(work_mal_ref, MAL_KINDS))
        jobs = []
        for kind in MAL_KINDS:
            _, _, forms = mal_forms(kind)
            for label, ref in forms:
                jobs.append((kind, label, ref, base[kind]))
        results = list(ex.map(work_mal, jobs, chunksize=3))
    # the model's verdict on each reference string (guards of the C20 theorems), evaluated inside Coq
    gterms = []
    for r in results:
        c = cstr(r["ref"])
        gterms += [f"g_no_authority {c}", f"g_body_ref_local {c}", f"g_single_segment {c}", f"match parse_reference_path {c} with PRCrash => false | _ => true end",
                   f"match parse_reference_path {c} with PROk _ => true | _ => false end"]
    false_idx = set(run_cases(HDR, gterms, shard=400))
    for ri, r in enumerate(results):
        g = {n: (ri * 5 + j) not in false_idx for j, n in enumerate(["no_authority", "body_local", "single_segment", "no_crash", "accepted"])}
        case = {"position": r["kind"], "form": r["label"], "ref": r["ref"]}
        run.note_case(case, nontrivial=True, kind="malformed:" + r["kind"])
        if r["error"]:
            run.violation("harness-or-generator", {**case, "error": r["error"]})
            continue
        payload = {**case, "doc": r["doc"], "doc_deleted": r["doc_deleted"], "diagnostics": r["diag_bad"], "first_differing_file": r["first_diff_vs_deleted"], "exception": r["exc"]}
        if r["exc"] is not None:
            if not g["no_crash"] and r["kind"] != "body" and run.known_finding("ref_urlparse_crash", f"$ref {r['ref']!r} at position {r['kind']}: {r['exc']} escapes generate() (the model's parse_reference_path = PRCrash)"):
                continue
            run.violation("oracle", {**payload, "note": "generation raised instead of reporting a diagnostic for the bad reference"})
            continue
        if r["contained"] and r["n_diag_bad"] > r["n_diag_deleted"]:
            continue          # diagnostic for the user of the reference, everything else as if the item were not there
        if r["same_as_canonical"]:
            # the malformed reference resolved silently, exactly like the canonical one: which listed defect class is it?
            fid = None
            if r["kind"] == "body" and not g["body_local"]:
                fid = "body_ref_prefix_ignored"
            elif r["kind"] != "body" and g["accepted"] and not g["no_authority"]:
                fid = "ref_netloc_ignored"
            elif r["kind"] == "response" and g["accepted"] and not g["single_segment"]:
                fid = "response_ref_segments_ignored"
            if fid and run.known_finding(fid, f"$ref {r['ref']!r} ({r['label']}) at position {r['kind']} resolves silently to the local component (output identical to the canonical reference, no diagnostic)"):
                continue
        run.violation("oracle", {**payload, "guards": g, "note": "malformed reference: " + ("no diagnostic" if r["n_diag_bad"] <= r["n_diag_deleted"] else "diagnostic present but other modules differ from the document without the item")})


# ====================================================================================================================
# stage C (2): schema positions by $ref vs an inline copy: same wire behaviour, one shared class
# ====================================================================================================================
T_MODEL = {"type": "object", "required": ["id"], "properties": {"id": {"type": "integer"}, "when": {"type": "string", "format": "date"}, "kind": {"$ref": SREF + "TEnum"},
                                                                 "tags": {"type": "array", "items": {"type": "string"}}}}
T_ENUM = {"type": "string", "enum": ["cat", "dog"]}
# late targets: declared AFTER every holder, so that a holder's allOf member is a FORWARD reference (resolved by the retry loop of _process_models).
# `Item` -> `BaseItem`: the referenced name merely ENDS WITH the referring class name (must not be mistaken for a recursive allOf); `Zed` -> `Other`: control.
LATE_TARGETS = ["BaseItem", "Other", "BigCat"]
T_BIN = {"type": "string", "format": "binary"}
SCALAR_TARGETS = {"TInt": {"type": "integer"}, "TBool": {"type": "boolean"}, "TStr": {"type": "string"}, "TNum": {"type": "number"},
                  "TIntEnum": {"type": "integer", "enum": [0, 1, 2]}}
T_INST = {"TInt": [0, 5, -1], "TBool": [True, False], "TStr": ["", "x"], "TNum": [0.0, 1.5], "TIntEnum": [0, 1, 7]}
T_MODULE = {"TModel": "t_model", "TEnum": "t_enum", "TIntEnum": "t_int_enum"}


def with_default(X, D):
    """a default at the REFERENCING site: single-reference wrapper for a $ref, plain keyword for the inline copy"""
    return {"allOf": [X], "default": D} if "$ref" in X else {**X, "default": D}


def default_pos(pid, t, D):
    return (pid, t, lambda X: {"type": "object", "properties": {"k": with_default(X, D), "other": {"type": "string"}}}, lambda I: [{"k": i} for i in I] + [{}])


# defaults of every scalar kind incl. every FALSY value (0, false, "", 0.0), enum first / falsy member, plus truthy controls
DEFAULT_POS = [("default0:TInt", "TInt", 0), ("default5:TInt", "TInt", 5), ("defaultF:TBool", "TBool", False), ("defaultT:TBool", "TBool", True), ("defaultE:TStr", "TStr", ""),
               ("defaultX:TStr", "TStr", "x"), ("default00:TNum", "TNum", 0.0), ("default15:TNum", "TNum", 1.5), ("defaultEnum0:TIntEnum", "TIntEnum", 0),
               ("defaultEnum2:TIntEnum", "TIntEnum", 2), ("defaultFirst:TEnum", "TEnum", "cat")]
PARAM_DEFAULTS = {"param-default-zero:TInt": 0, "param-default-false:TBool": False, "param-default-empty:TStr": "", "param-default-zerof:TNum": 0.0,
                  "param-default-enumzero:TIntEnum": 0, "param-default-five:TInt": 5, "param-default-dog:TEnum": "dog", "param-hdr-default-zero:TInt": 0}
TARGETS = {**SCALAR_TARGETS, "TModel": T_MODEL, "TEnum": T_ENUM, "TBin": T_BIN, "BaseItem": T_MODEL, "Other": T_MODEL, "BigCat": T_MODEL}
HOLDER_NAMES = {"fwdallof-suffix:BaseItem": "Item", "fwdallof-control:Other": "Zed", "fwdallof-suffix3:BigCat": "Cat"}
M_INST = [{"id": 3, "when": "2020-01-01", "kind": "cat", "tags": ["a", "b"]}, {"id": 0}, {"id": 1, "zzz": True, "kind": "dog"}, {"id": 2, "kind": "bird"}, {"when": "2020-01-01"}, {"id": 4, "when": "nope"}]
E_INST = ["cat", "dog", "bird", 5]
# (position id, target, holder schema as a function of X, instances as a function of the target instance list)
SCHEMA_POS = [
    ("prop:TModel", "TModel", lambda X: {"type": "object", "required": ["p"], "properties": {"p": X, "n": {"type": "integer"}}}, lambda I: [{"p": i, "n": 1} for i in I] + [{"n": 1}]),
    ("prop:TEnum", "TEnum", lambda X: {"type": "object", "required": ["p"], "properties": {"p": X}}, lambda I: [{"p": i} for i in I]),
    ("optprop:TModel", "TModel", lambda X: {"type": "object", "properties": {"p": X}}, lambda I: [{"p": i} for i in I] + [{}]),
    ("optprop:TEnum", "TEnum", lambda X: {"type": "object", "properties": {"p": X}}, lambda I: [{"p": i} for i in I] + [{}]),
    ("items:TModel", "TModel", lambda X: {"type": "object", "properties": {"l": {"type": "array", "items": X}}}, lambda I: [{"l": I[:2]}, {"l": []}, {"l": [I[0], I[3]]}, {}]),
    ("items:TEnum", "TEnum", lambda X: {"type": "object", "properties": {"l": {"type": "array", "items": X}}}, lambda I: [{"l": I[:2]}, {"l": [I[2]]}, {}]),
    ("union:TModel", "TModel", lambda X: {"type": "object", "properties": {"u": {"anyOf": [X, {"type": "integer"}]}}}, lambda I: [{"u": i} for i in I] + [{"u": 5}, {}]),
    ("union:TEnum", "TEnum", lambda X: {"type": "object", "properties": {"u": {"oneOf": [X, {"type": "integer"}]}}}, lambda I: [{"u": i} for i in I] + [{}]),
    ("nullable:TModel", "TModel", lambda X: {"type": "object", "properties": {"p": {"anyOf": [X, {"type": "null"}]}}}, lambda I: [{"p": i} for i in I[:3]] + [{"p": None}, {}]),
    ("addl:TModel", "TModel", lambda X: {"type": "object", "additionalProperties": X}, lambda I: [{"a": I[0], "b": I[1]}, {}, {"a": I[3]}]),
    ("addl:TEnum", "TEnum", lambda X: {"type": "object", "properties": {"fixed": {"type": "string"}}, "additionalProperties": X}, lambda I: [{"a": I[0], "fixed": "f"}, {"a": I[2]}, {}]),
    ("allof:TModel", "TModel", lambda X: {"allOf": [X, {"type": "object", "properties": {"extra": {"type": "string"}}}]}, lambda I: [{**i, "extra": "e"} for i in I] + I[:2]),
    ("fwdallof-suffix:BaseItem", "BaseItem", lambda X: {"allOf": [X, {"type": "object", "properties": {"extra": {"type": "string"}}}]}, lambda I: [{**i, "extra": "e"} for i in I] + I[:2]),
    ("fwdallof-control:Other", "Other", lambda X: {"allOf": [X, {"type": "object", "properties": {"extra": {"type": "string"}}}]}, lambda I: [{**i, "extra": "e"} for i in I] + I[:2]),
    ("fwdallof-suffix3:BigCat", "BigCat", lambda X: {"allOf": [{"type": "object", "properties": {"pre": {"type": "integer"}}}, X, {"type": "object", "required": ["extra"], "properties": {"extra": {"type": "string"}}}]},
     lambda I: [{**i, "extra": "e", "pre": 1} for i in I] + I[:2]),
    ("default:TEnum", "TEnum", lambda X: {"type": "object", "properties": {"k": ({"allOf": [X], "default": "dog"} if "$ref" in X else {**X, "default": "dog"})}}, lambda I: [{"k": i} for i in I] + [{}]),
]
# every request media type kind; TModel is used by reference as a multipart body AND as json / form body AND as a response: one shared class must serve all
SCHEMA_POS += [default_pos(*d) for d in DEFAULT_POS]
EP_POS = list(PARAM_DEFAULTS) + ["param-query:TEnum", "param-header:TEnum", "param-query-list:TEnum", "body-json:TModel", "body-form:TModel", "body-multipart:TModel", "body-octet:TBin",
          "response:TModel", "response-list:TModel"]


def holder_name(pid):
    if pid in HOLDER_NAMES:
        return HOLDER_NAMES[pid]
    return "H" + "".join(w.capitalize() for w in re.split(r"[:\-]", pid))


def schema_doc(inline_positions):
    """the document with target schemas used by $ref everywhere except at the positions listed (an inline copy there)"""
    X = lambda pid, t: copy.deepcopy(TARGETS[t]) if pid in inline_positions else {"$ref": SREF + t}
    S = {"TModel": copy.deepcopy(T_MODEL), "TEnum": copy.deepcopy(T_ENUM), "TBin": copy.deepcopy(T_BIN), **copy.deepcopy(SCALAR_TARGETS)}
    for pid, t, mk, _ in SCHEMA_POS:
        S[holder_name(pid)] = mk(X(pid, t))
    for t in LATE_TARGETS:
        S[t] = copy.deepcopy(TARGETS[t])
    paths = {}
    for pid in EP_POS:
        kind, t = pid.split(":")
        x = X(pid, t)
        op = {"operationId": "op_" + kind.replace("-", "_"), "tags": ["t"], "responses": {"200": {"description": "ok"}}}
        if pid in PARAM_DEFAULTS:
            op["parameters"] = [{"name": "k", "in": "header" if "hdr" in kind else "query", "schema": with_default(x, PARAM_DEFAULTS[pid])},
                                {"name": "other", "in": "query", "schema": {"type": "string"}}]
        elif kind.startswith("param"):
            loc = "header" if "header" in kind else "query"
            op["parameters"] = [{"name": "k", "in": loc, "required": True, "schema": {"type": "array", "items": x} if kind.endswith("list") else x}]
        elif kind == "body-json":
            op["requestBody"] = {"required": True, "content": {"application/json": {"schema": x}}}
        elif kind == "body-form":
            op["requestBody"] = {"required": True, "content": {"application/x-www-form-urlencoded": {"schema": x}}}
        elif kind == "body-multipart":
            op["requestBody"] = {"required": True, "content": {"multipart/form-data": {"schema": x}}}
        elif kind == "body-octet":
            op["requestBody"] = {"required": True, "content": {"application/octet-stream": {"schema": x}}}
        elif kind == "response":
            op["responses"]["200"]["content"] = {"application/json": {"schema": x}}
        else:
            op["responses"]["200"]["content"] = {"application/json": {"schema": {"type": "array", "items": x}}}
        paths["/" + kind] = {("post" if kind.startswith("body") else "get"): op}
    return {"openapi": "3.1.0", "info": {"title": "t", "version": "1"}, "paths": paths, "components": {"schemas": S}}


def strip_cls(x):
    if isinstance(x, dict):
        return {k: strip_cls(v) for k, v in x.items() if k not in ("cls", "parsed_cls")}
    if isinstance(x, list):
        return [strip_cls(v) for v in x]
    return x


def norm_multipart(reqs):
    """captured requests with the random multipart boundary replaced by a fixed token (header and payload)"""
    out = []
    for q in reqs or []:
        q = dict(q)
        ct = next((v for k, v in q.get("headers", []) if k.lower() == "content-type"), "")
        m = re.search(r"boundary=([^;\s]+)", ct)
        if ct.startswith("multipart/") and m:
            b = m.group(1)
            q["headers"] = [[k, v.replace(b, "BOUNDARY")] for k, v in q["headers"]]
            q["content_hex"] = bytes.fromhex(q.get("content_hex", "")).replace(b.encode(), b"BOUNDARY").hex()
        out.append(q)
    return out


def wire_view(r):
    """what the two clients must agree on: decoded structure modulo class names, re-encoded JSON, exception types, captured requests"""
    v = {}
    for k in ("obj", "out", "py_equal", "dumps_ok", "redecode_equal", "requests", "result"):
        if k in r:
            v[k] = strip_cls(norm_multipart(r[k]) if k == "requests" else r[k])
    if "params" in r:         # inspect.signature: argument names and their default VALUES (annotations carry class names)
        v["params"] = [[q["name"], q["has_default"], strip_cls(q["default"])] for q in r["params"]]
    for k in ("dec_exc", "enc_exc", "exc", "redecode_exc", "fatal_op"):
        if k in r:
            v[k] = r[k].get("type")
    return v


def schema_ops(doc):
    """client operations for one document; class names of parameters / bodies come from this document's own parse"""
    data, _ = impl.parse_doc(doc)
    eps = {e.name: e for c in data.endpoint_collections_by_tag.values() for e in c.endpoints}
    classes = {str(m.class_info.name) for m in data.models} | {str(e.class_info.name) for e in data.enums}
    ops, labels = [], []
    for pid, t, _, mki in SCHEMA_POS:
        h = holder_name(pid)
        if h not in classes:
            labels.append((pid, "missing-class"))
            ops.append({"op": "signature", "module": "models", "name": h})
            continue
        for j in mki(T_INST[t] if t in T_INST else E_INST if t == "TEnum" else M_INST):
            ops.append({"op": "roundtrip", "cls": h, "data": j})
            labels.append((pid, json.dumps(j)))
        if pid.startswith("default"):
            ops.append({"op": "signature", "module": "models", "name": h})
            labels.append((pid, "signature"))
            ops.append({"op": "construct", "cls": h, "kwargs": {}})
            labels.append((pid, "construct()"))
    def pcls(ep, attr):
        props = getattr(eps[ep], attr)
        p = props[0] if attr != "bodies" else props[0].prop
        inner = getattr(p, "inner_property", None) or p
        return str(inner.class_info.name)
    for pid in EP_POS:
        kind, t = pid.split(":")
        name = "op_" + kind.replace("-", "_")
        mod = "api.t." + name
        if name not in eps:
            labels.append((pid, "missing-endpoint"))
            ops.append({"op": "signature", "module": "api.t", "name": name})
            continue
        if pid in PARAM_DEFAULTS:
            # no arguments: the declared default must reach the wire (also: an explicit other argument only)
            for kw, lab in (({}, "no-args"), ({"other": "o"}, "other-only")):
                ops.append({"op": "call", "module": mod, "variant": "sync_detailed", "kwargs": kw, "response": {"status": 200}})
                labels.append((pid, lab))
            ops.append({"op": "signature", "module": mod, "name": "sync_detailed"})
            labels.append((pid, "signature"))
        elif kind.startswith("param"):
            cls = pcls(name, "header_parameters" if "header" in kind else "query_parameters")
            for v in ("cat", "dog"):
                arg = {"@enum": [cls, v]}
                ops.append({"op": "call", "module": mod, "variant": "sync_detailed", "kwargs": {"k": [arg, {"@enum": [cls, "cat"]}] if kind.endswith("list") else arg}, "response": {"status": 200}})
                labels.append((pid, v))
        elif kind == "body-octet":
            for hx in ("0001ff", ""):
                ops.append({"op": "call", "module": mod, "variant": "sync_detailed", "kwargs": {"body": {"@file": hx}}, "response": {"status": 200}})
                labels.append((pid, hx))
        elif kind.startswith("body"):
            cls = pcls(name, "bodies")
            for j in M_INST[:3]:
                ops.append({"op": "call", "module": mod, "variant": "sync_detailed", "kwargs": {"body": {"@model": [cls, j]}}, "response": {"status": 200}})
                labels.append((pid, json.dumps(j)))
        else:
            for j in M_INST:
                ops.append({"op": "call", "module": mod, "variant": "sync_detailed", "kwargs": {}, "response": {"status": 200, "json": [j, M_INST[0]] if kind.endswith("list") else j}})
                labels.append((pid, json.dumps(j)))
    return ops, labels, classes


def work_schema(args):
    seed, inline = args
    out = {"inline": sorted(inline), "error": None}
    try:
        doc = schema_doc(set(inline))
        out["doc"] = doc
        with gen_dl(doc) as g:
            if g.exc is not None:
                out["error"] = "generate raised " + repr(g.exc)
                return out
            out["diag"] = [list(x) for x in g.diag()]
            ops, labels, classes = schema_ops(doc)
            res = impl.run_client(g.out, ops, timeout=300)
            files = g.files()
        if isinstance(res, dict):
            out["error"] = "runner: " + res.get("fatal", "")[:600]
            return out
        out["views"] = [wire_view(r) for r in res]
        out["raw_cls"] = [[r.get("obj"), r.get("result")] for r in res]
        out["labels"] = labels
        out["classes"] = sorted(classes)
        out["model_files"] = {k: v.decode("utf-8", "replace") for k, v in files.items() if k.startswith("models/") or k.startswith("api/t/")}
    except BaseException as e:  # noqa
        import traceback
        out["error"] = "harness worker: " + repr(e) + traceback.format_exc()[-800:]
    return out


def classes_in(x, acc):
    if isinstance(x, dict):
        if x.get("t") in ("obj", "enum") and "cls" in x:
            acc.add(x["cls"])
        for v in x.values():
            classes_in(v, acc)
    elif isinstance(x, list):
        for v in x:
            classes_in(v, acc)
    return acc


def stage_c_schemas(run, tier):
    rng = run.rng
    allpos = [p[0] for p in SCHEMA_POS] + EP_POS
    subsets = [[]] + [[p] for p in allpos] + [list(allpos)]
    for _ in range(4 if tier == "quick" else 60):
        subsets.append(sorted(rng.sample(allpos, rng.randint(2, len(allpos) - 1))))
    with cf.ProcessPoolExecutor(max_workers=14) as ex:
        results = list(ex.map(work_schema, [(i, s) for i, s in enumerate(subsets)]))
    ref = results[0]
    if ref["error"]:
        run.violation("harness-or-generator", {"error": ref["error"], "doc": ref.get("doc")})
        return
    # ---- one shared class per referenced schema (all-by-reference document)
    expected = {"TModel", "TEnum", "TIntEnum"} | set(LATE_TARGETS) | {holder_name(p[0]) for p in SCHEMA_POS}
    share_case = {"check": "shared-class", "classes": ref["classes"]}
    run.note_case(share_case, nontrivial=True, kind="shared-class")
    if set(ref["classes"]) != expected:
        run.violation("oracle", {"doc": ref["doc"], "classes": ref["classes"], "expected": sorted(expected), "diagnostics": ref["diag"],
                                 "note": "all-by-reference document: the generated classes are not exactly one per component schema (a reference minted a second class, or a holder was dropped)"})
    mods = ref["model_files"]
    defs = {t: [k for k, v in mods.items() if re.search(r"^class %s\b" % t, v, re.M)] for t in ("TModel", "TEnum")}
    for t, where in defs.items():
        if where != ["models/" + {"TModel": "t_model", "TEnum": "t_enum"}[t] + ".py"]:
            run.violation("oracle", {"doc": ref["doc"], "target": t, "defined_in": where, "note": "referenced schema is not defined in exactly one module"})
    for pid, t, _, _ in SCHEMA_POS:
        if "allof" in pid.split(":")[0] or t not in T_MODULE:
            continue
        hm = "models/" + re.sub(r"(?<!^)(?=[A-Z])", "_", holder_name(pid)).lower() + ".py"
        src = next((v for k, v in mods.items() if k.replace("_", "") == hm.replace("_", "")), "")
        imp = "from ..models.%s import %s" % (T_MODULE[t], t)
        run.note_case({"check": "import", "holder": holder_name(pid)}, nontrivial=True, kind="shared-class")
        if imp not in src:
            run.violation("oracle", {"doc": ref["doc"], "holder": holder_name(pid), "expected_import": imp, "note": "holder module does not import the single shared class of the referenced schema"})
    for pid in EP_POS:
        kind, t = pid.split(":")
        if t not in T_MODULE:
            continue
        src = mods.get("api/t/op_%s.py" % kind.replace("-", "_"), "")
        imp = "from ...models.%s import %s" % (T_MODULE[t], t)
        if imp not in src:
            run.violation("oracle", {"doc": ref["doc"], "endpoint": pid, "expected_import": imp, "note": "endpoint module does not import the single shared class of the referenced schema"})
    # decoded values are instances of the shared class (by name) wherever a target value was decoded
    for (pid, lab), raw in zip(ref["labels"], ref["raw_cls"]):
        seen = classes_in(raw, set())
        extra = seen - expected
        if extra:
            run.violation("oracle", {"doc": ref["doc"], "position": pid, "instance": lab, "classes_seen": sorted(seen), "note": "a value decoded through a reference is an instance of a class other than the shared one"})
    # ---- same wire behaviour for every subset of positions written inline
    for r in results[1:]:
        case = {"inline_positions": r["inline"]}
        if r["error"]:
            run.violation("harness-or-generator", {**case, "error": r["error"], "doc": r.get("doc")})
            continue
        if r["labels"] != ref["labels"] or len(r["views"]) != len(ref["views"]):
            missing = [l for l in r["labels"] if l[1].startswith("missing")] + [l for l in ref["labels"] if l[1].startswith("missing")]
            run.note_case(case, nontrivial=True, kind="schema-wire")
            run.violation("oracle", {**case, "doc": r["doc"], "doc_ref": ref["doc"], "missing": missing[:5], "diagnostics": r["diag"][:4], "diagnostics_ref": ref["diag"][:4],
                                     "note": "a class / endpoint exists in only one of the two documents (inline copy vs reference)"})
            continue
        for (pid, lab), a, b in zip(r["labels"], r["views"], ref["views"]):
            run.note_case({**case, "position": pid, "instance": lab}, nontrivial=pid in r["inline"], kind="schema-wire:" + pid.split(":")[0])
            if a != b:
                run.violation("oracle", {**case, "doc": r["doc"], "doc_ref": ref["doc"], "position": pid, "instance": lab, "inline_client": a, "reference_client": b,
                                         "first_differing_file": None, "note": "same JSON through the client generated from the inline copy and from the $ref behaves differently on the wire"})


# ====================================================================================================================
# stage C (4): the REFERENCED schema fails after being referenced: by-reference and inline forms must fail alike
# ====================================================================================================================
BROKEN_DEFECTS = {
    "dangling-inner-ref": {"type": "object", "properties": {"product": {"$ref": SREF + "NoSuchSchema"}, "qty": {"type": "integer"}}},
    "array-without-items": {"type": "object", "properties": {"things": {"type": "array"}, "qty": {"type": "integer"}}},
    "invalid-default": {"type": "object", "properties": {"qty": {"type": "integer", "default": "not a number"}}},
}
# (holder, schema as a function of the position content X)
BROKEN_HOLDERS = [
    ("BProp", lambda X: {"type": "object", "properties": {"p": X, "n": {"type": "integer"}}}),
    ("BItems", lambda X: {"type": "object", "properties": {"lines": {"type": "array", "items": X}}}),
    ("BNested", lambda X: {"type": "object", "properties": {"grid": {"type": "array", "items": {"type": "array", "items": X}}}}),
    ("BAddl", lambda X: {"type": "object", "additionalProperties": X}),
    ("BUnion", lambda X: {"type": "object", "properties": {"u": {"anyOf": [X, {"type": "integer"}]}}}),
    ("BUnionList", lambda X: {"type": "object", "properties": {"u": {"oneOf": [{"type": "array", "items": X}, {"type": "string"}]}}}),
    ("BAllOf", lambda X: {"allOf": [X, {"type": "object", "properties": {"extra": {"type": "string"}}}]}),
    ("BTopList", lambda X: {"type": "array", "items": X}),
]
BROKEN_EPS = ["param", "body", "response", "response-list"]


def broken_doc(defect, form, order):
    """form: 'ref' ($ref Broken at every position) | 'inline' (a copy of Broken's schema at every position);
    order: 'holders-first' (the holders are declared, hence processed, BEFORE the schema that fails) | 'broken-first'"""
    broken = BROKEN_DEFECTS[defect]
    X = lambda: {"$ref": SREF + "Broken"} if form == "ref" else copy.deepcopy(broken)
    S = {"Good": {"type": "object", "properties": {"g": {"type": "string"}}}, "Err": copy.deepcopy(BASE_SCHEMAS["Err"])}
    if order == "broken-first" and form == "ref":
        S["Broken"] = copy.deepcopy(broken)
    for h, mk in BROKEN_HOLDERS:
        S[h] = mk(X())
        S["G" + h[1:]] = mk({"$ref": SREF + "Good"})            # healthy control of the same shape
    S["BUser"] = {"type": "object", "properties": {"b": {"$ref": SREF + "BItems"}, "w": {"type": "string"}}}      # second-level dependant
    S["GUser"] = {"type": "object", "properties": {"b": {"$ref": SREF + "GItems"}, "w": {"type": "string"}}}
    if "Broken" not in S and form == "ref":
        S["Broken"] = copy.deepcopy(broken)
    paths = {}
    for h in [x for x, _ in BROKEN_HOLDERS] + ["BUser"]:
        for pre in ("B", "G"):
            n = pre + h[1:]
            paths["/h/" + n] = {"get": {"operationId": "get" + n, "tags": ["t"], "responses": {"200": _ok({"$ref": SREF + n}), "404": _ok({"$ref": SREF + "Err"}, "nf")}}}
    for kind in BROKEN_EPS:
        for pre, x in (("B", X()), ("G", {"$ref": SREF + "Good"})):
            op = {"operationId": pre.lower() + "_" + kind.replace("-", "_"), "tags": ["t"], "responses": {"200": {"description": "ok"}, "404": _ok({"$ref": SREF + "Err"}, "nf")}}
            if kind == "param":
                op["parameters"] = [{"name": "k", "in": "query", "schema": {"type": "array", "items": x}}]
            elif kind == "body":
                op["requestBody"] = {"required": True, "content": {"application/json": {"schema": x}}}
            elif kind == "response":
                op["responses"]["200"]["content"] = {"application/json": {"schema": x}}
            else:
                op["responses"]["200"]["content"] = {"application/json": {"schema": {"type": "array", "items": x}}}
            paths["/e/%s/%s" % (pre, kind)] = {("post" if kind == "body" else "get"): op}
    return {"openapi": "3.1.0", "info": {"title": "t", "version": "1"}, "paths": paths, "components": {"schemas": S}}


def work_broken(args):
    defect, form, order = args
    out = {"defect": defect, "form": form, "order": order, "error": None}
    try:
        doc = broken_doc(defect, form, order)
        out["doc"] = doc
        with gen_dl(doc) as g:
            if g.exc is not None:
                out["error"] = "generate raised " + repr(g.exc)
                return out
            out["diag_text"] = "\n".join((h or "") + "\n" + (d or "") for _, h, d in g.diag())
            data, _ = impl.parse_doc(doc)
            out["classes"] = sorted({str(m.class_info.name) for m in data.models} | {str(e.class_info.name) for e in data.enums})
            eps = {e.name: e for c in data.endpoint_collections_by_tag.values() for e in c.endpoints}
            out["endpoints"] = {n: sorted(int(r.status_code) for r in e.responses) for n, e in eps.items()}
            files = g.files()
            out["api"] = {k: v.decode("utf-8", "replace") for k, v in files.items() if k.startswith("api/")}
            ops = [{"op": "import_all"}] + [{"op": "roundtrip", "cls": c, "data": {}} for c in out["classes"]]
            res = impl.run_client(g.out, ops, timeout=300)
        if isinstance(res, dict):
            out["error"] = "runner: " + res.get("fatal", "")[:600]
            return out
        out["import_failed"] = res[0].get("failed", {})
        out["runtime"] = {c: (r.get("dec_exc") or r.get("enc_exc") or r.get("fatal_op")) for c, r in zip(out["classes"], res[1:])}
    except BaseException as e:  # noqa
        import traceback
        out["error"] = "harness worker: " + repr(e) + traceback.format_exc()[-800:]
    return out


def stage_c_broken_target(run, tier):
    jobs = [(d, f, o) for d in BROKEN_DEFECTS for o in ("holders-first", "broken-first") for f in ("ref", "inline")]
    with cf.ProcessPoolExecutor(max_workers=12) as ex:
        results = {(r["defect"], r["form"], r["order"]): r for r in ex.map(work_broken, jobs)}
    cls_holders = [h for h, _ in BROKEN_HOLDERS if h != "BTopList"]        # (a top-level array component has no class; it is observed through its endpoint)
    named = cls_holders + ["BUser"] + ["G" + h[1:] for h in cls_holders] + ["GUser", "Good", "Err", "Broken"]
    for (defect, form, order), r in results.items():
        case = {"defect": defect, "form": form, "declaration_order": order}
        run.note_case(case, nontrivial=True, kind="broken-target:" + form)
        if r["error"]:
            run.violation("harness-or-generator", {**case, "error": r["error"], "doc": r.get("doc")})
            continue
        # (a) whatever survives must import and run (the lazy imports of from_dict only fail when executed)
        bad_rt = {c: e for c, e in r["runtime"].items() if e and e.get("type") in ("ModuleNotFoundError", "ImportError", "NameError", "AttributeError", "SyntaxError")}
        if r["import_failed"] or bad_rt:
            run.violation("oracle", {**case, "doc": r["doc"], "import_failed": r["import_failed"], "runtime_failures": bad_rt, "surviving_classes": r["classes"],
                                     "note": "a schema that references a FAILED schema survived: its module cannot be imported / from_dict raises (the failure of the referenced schema was not propagated to this user)"})
        # (b) healthy controls untouched; every removed named schema is named by a diagnostic
        for n in named:
            if n.startswith("G") or n == "Err":
                if n not in r["classes"]:
                    run.violation("oracle", {**case, "doc": r["doc"], "missing": n, "note": "a healthy schema that does not depend on the failing one was removed"})
            elif n not in r["classes"] and not (form == "inline" and n == "Broken"):
                if (SREF[1:] + n) not in r["diag_text"] and n not in r["diag_text"]:
                    run.violation("oracle", {**case, "doc": r["doc"], "removed": n, "note": "a schema was removed but no diagnostic names it"})
    # (c) by reference == inline: same surviving named classes, same endpoints with the same response statuses, identical endpoint modules
    for defect in BROKEN_DEFECTS:
        for order in ("holders-first", "broken-first"):
            a, b = results[(defect, "ref", order)], results[(defect, "inline", "holders-first" if order == "holders-first" else "broken-first")]
            if a["error"] or b["error"]:
                continue
            case = {"defect": defect, "declaration_order": order}
            run.note_case({**case, "check": "ref-vs-inline"}, nontrivial=True, kind="broken-target:compare")
            sa = sorted(set(a["classes"]) & set(named) - {"Broken"})
            sb = sorted(set(b["classes"]) & set(named) - {"Broken"})
            if sa != sb or a["endpoints"] != b["endpoints"]:
                run.violation("oracle", {**case, "doc_ref": a["doc"], "doc": b["doc"], "survivors_by_reference": sa, "survivors_inline": sb,
                                         "endpoints_by_reference": a["endpoints"], "endpoints_inline": b["endpoints"], "first_differing_file": None,
                                         "rewritten_positions": [h for h, _ in BROKEN_HOLDERS] + BROKEN_EPS,
                                         "note": "the referenced schema fails: the by-reference and the inline document keep different schemas / endpoints / responses"})
            elif a["api"] != b["api"]:
                run.violation("oracle", {**case, "doc_ref": a["doc"], "doc": b["doc"], "first_differing_file": first_diff(a["api"], b["api"]),
                                         "rewritten_positions": [h for h, _ in BROKEN_HOLDERS] + BROKEN_EPS,
                                         "note": "the referenced schema fails: endpoint modules of the by-reference and the inline document differ"})


# ====================================================================================================================
# stage C (5): ONE component response under several status codes of one operation and across operations: executed
# ====================================================================================================================
def shared_response_doc(form, statuses_a, statuses_b):
    problem = {"description": "a problem", "content": {"application/json": {"schema": {"$ref": SREF + "Err"}}}}
    plain = {"description": "nothing to say"}
    P = (lambda: {"$ref": "#/components/responses/Problem"}) if form == "ref" else (lambda: copy.deepcopy(problem))
    N = (lambda: {"$ref": "#/components/responses/Plain"}) if form == "ref" else (lambda: copy.deepcopy(plain))
    opa = {"operationId": "op_a", "tags": ["t"], "responses": {"200": _ok({"$ref": SREF + "Pet"}), **{st: P() for st in statuses_a}, "202": N(), "204": N()}}
    opb = {"operationId": "op_b", "tags": ["t"], "responses": {**{st: P() for st in statuses_b}, "200": _ok({"type": "array", "items": {"$ref": SREF + "Tag"}})}}
    opc = {"operationId": "op_c", "tags": ["u"], "responses": {st: P() for st in statuses_a[:2]}}
    comps = {"schemas": copy.deepcopy(BASE_SCHEMAS)}
    if form == "ref":
        comps["responses"] = {"Problem": problem, "Plain": plain}
    return {"openapi": "3.1.0", "info": {"title": "t", "version": "1"}, "paths": {"/a": {"get": opa}, "/b": {"get": opb}, "/c": {"delete": opc}}, "components": comps}


def work_shared_response(args):
    form, sa, sb = args
    out = {"form": form, "error": None}
    try:
        doc = shared_response_doc(form, sa, sb)
        out["doc"] = doc
        canned = {"problem": {"code": 7, "msg": "m"}, "pet": {"name": "n", "age": 3, "kind": "cat"}, "tags": [{"label": "l"}]}
        ops, labels = [], []
        for opn, sts in (("op_a", ["200"] + sa + ["202", "204", "418"]), ("op_b", sb + ["200", "418"]), ("op_c", sa[:2] + ["200"])):
            for st in sts:
                body = canned["pet"] if (opn, st) == ("op_a", "200") else canned["tags"] if (opn, st) == ("op_b", "200") else canned["problem"]
                for variant in ("sync_detailed", "sync"):
                    rsp = {"status": int(st)} if st in ("202", "204") else {"status": int(st), "json": body}
                    ops.append({"op": "call", "module": "api.%s.%s" % ("u" if opn == "op_c" else "t", opn), "variant": variant, "kwargs": {}, "response": rsp})
                    labels.append([opn, st, variant])
        with gen_dl(doc) as g:
            if g.exc is not None:
                out["error"] = "generate raised " + repr(g.exc)
                return out
            out["diag"] = [list(x) for x in g.diag()]
            out["files"] = {k: v.decode("utf-8", "replace") for k, v in g.files().items()}
            res = impl.run_client(g.out, ops, timeout=300)
        if isinstance(res, dict):
            out["error"] = "runner: " + res.get("fatal", "")[:600]
            return out
        out["labels"] = labels
        out["views"] = [wire_view(r) for r in res]
        out["parsed_cls"] = [(r.get("result") or {}).get("parsed_cls") for r in res]
    except BaseException as e:  # noqa
        import traceback
        out["error"] = "harness worker: " + repr(e) + traceback.format_exc()[-800:]
    return out


def stage_c_shared_response(run, tier):
    rng = run.rng
    combos = [(["400", "404"], ["404"]), (["400", "404", "500"], ["400", "500"]), (["404", "400"], ["500", "404", "400"])]
    if tier != "quick":
        for _ in range(6):
            combos.append((rng.sample(["400", "401", "403", "404", "409", "500", "503"], rng.randint(2, 4)), rng.sample(["400", "404", "500", "503"], rng.randint(1, 3))))
    jobs = [(f, sa, sb) for sa, sb in combos for f in ("inline", "ref")]
    with cf.ProcessPoolExecutor(max_workers=12) as ex:
        results = list(ex.map(work_shared_response, jobs))
    for k in range(0, len(results), 2):
        a, b = results[k], results[k + 1]              # inline, by reference
        sa, sb = jobs[k][1], jobs[k][2]
        case = {"statuses_op_a": sa, "statuses_op_b": sb}
        if a["error"] or b["error"]:
            run.violation("harness-or-generator", {**case, "error": a["error"] or b["error"], "doc": a.get("doc"), "doc_ref": b.get("doc")})
            continue
        pos = [["response", p, m, st] for p, m, sts in (("/a", "get", sa), ("/b", "get", sb), ("/c", "delete", sa[:2])) for st in sts]
        fd = first_diff(a["files"], b["files"])
        run.note_case({**case, "check": "bytes"}, nontrivial=True, kind="shared-response")
        if fd is not None or a["diag"] != b["diag"]:
            run.violation("oracle", {**case, "doc": a["doc"], "doc_ref": b["doc"], "rewritten_positions": pos, "first_differing_file": fd,
                                     "note": "one component response under several status codes: inline and by-reference documents generate different output"})
        for lab, va, vb, ca, cb in zip(a["labels"], a["views"], b["views"], a["parsed_cls"], b["parsed_cls"]):
            opn, st, variant = lab
            run.note_case({**case, "operation": opn, "status": st, "variant": variant}, nontrivial=True, kind="shared-response:call")
            documented = st in (["200"] + sa + ["202", "204"] if opn == "op_a" else sb + ["200"] if opn == "op_b" else sa[:2])
            want = None if not documented or st in ("202", "204") else ("Pet" if (opn, st) == ("op_a", "200") else "list" if (opn, st) == ("op_b", "200") else "Err")
            if va != vb or ca != cb:
                run.violation("oracle", {**case, "doc": a["doc"], "doc_ref": b["doc"], "rewritten_positions": pos, "operation": opn, "status": st, "variant": variant,
                                         "inline_client": va, "reference_client": vb, "first_differing_file": fd,
                                         "note": "canned response with a documented status is parsed differently by the client generated from the inline and from the by-reference document"})
            elif want is not None and ca != want and "exc" not in va:
                run.violation("oracle", {**case, "doc": a["doc"], "doc_ref": b["doc"], "operation": opn, "status": st, "variant": variant, "parsed_class": ca, "expected_class": want,
                                         "note": "a documented status is not dispatched to its documented response (both forms)"})


def stage_b(run, tier):
    terms, meta = [], []
    for f in (stage_b_refstrings, stage_b_bodies, stage_b_params, stage_b_responses):
        t, m = f(run, tier)
        terms += t
        meta += m
    bad = run_cases(HDR, terms, shard=300)
    run.corr = {"cases": len(terms), "mismatches": len(bad),
                "what": "parse_reference_path / get_reference_simple_name, bodies._resolve_reference, build_parameters (table with ALL fields of every registered Parameter, error counts), "
                        "Endpoint.from_data + add_parameters (per-location (name, required, schema) sequences or error class), response_from_data reference case == coq/Refs.v"}
    for i in bad[:8]:
        mv = coq_eval(HDR, terms[i].split(" && ")[0].replace("pref_eqb (", "(", 1) if meta[i]["fn"] == "parse_reference_path" else "0")
        if meta[i]["fn"].startswith("param_ref_inline"):
            run.violation("proof-obligation", {**meta[i], "term": terms[i][:1500], "note": "the statement of RefsThm.param_ref_inline is false on this input for the model instantiated with the REGENERATED "
                                               "copied-field list (gen_param_copied no longer covers what add_parameters reads)"})
            continue
        run.violation("correspondence", {**meta[i], "term": terms[i][:1500], "model": mv[-400:], "note": "the implementation no longer behaves like coq/Refs.v, about which the C20 theorems are proved"})
    return bad



def stage_c_witnesses(run):
    """fixed witnesses of the two findings the random streams may miss; KNOWN-FINDING is printed only if the defect is still there"""
    op = lambda params: {"operationId": "opx", "parameters": params, "responses": {"200": {"description": "ok"}}}
    qc = {"name": "q", "in": "query", "content": {"application/json": {"schema": {"type": "string"}}}}
    with gen_dl(impl.base_doc(paths={"/x": {"get": op([qc])}})) as gi, \
            gen_dl(impl.base_doc(paths={"/x": {"get": op([{"$ref": "#/components/parameters/Q"}])}}, components={"parameters": {"Q": qc}})) as gr:
        fi, fr = gi.files(), gr.files()
        run.note_case({"witness": "param_ref_no_schema"}, kind="witness")
        if fi != fr:
            if not ("api/default/opx.py" in fi and "api/default/opx.py" not in fr and
                    run.known_finding("param_ref_no_schema", "witness: query parameter described by `content`: inline -> endpoint generated without it, by reference -> endpoint dropped")):
                run.violation("oracle", {"witness": "param_ref_no_schema", "first_differing_file": first_diff(fi, fr), "note": "unexpected shape of the listed finding"})
    comps = {"parameters": {"a\tb": {"name": "first", "in": "query", "schema": {"type": "integer"}}, "ab": {"name": "second", "in": "query", "schema": {"type": "string"}}}}
    with gen_dl(impl.base_doc(paths={"/x": {"get": op([{"$ref": "#/components/parameters/ab"}])}}, components=comps)) as gr, \
            gen_dl(impl.base_doc(paths={"/x": {"get": op([comps["parameters"]["ab"]])}})) as gi:
        fi, fr = gi.files(), gr.files()
        run.note_case({"witness": "param_key_ctrl_collision"}, kind="witness")
        if fi != fr:
            if not (b"first" in fr.get("api/default/opx.py", b"") and
                    run.known_finding("param_key_ctrl_collision", "witness: components/parameters keys `a<TAB>b` and `ab`: the reference to `ab` generates the parameter of `a<TAB>b`")):
                run.violation("oracle", {"witness": "param_key_ctrl_collision", "first_differing_file": first_diff(fi, fr), "note": "unexpected shape of the listed finding"})


def replay_cases(run, replay):
    """re-run the inputs of a replay file written by a previous run"""
    rp = json.load(open(replay))
    for v in rp.get("violations", []):
        if "doc" in v and "doc_ref" in v and "rewritten_positions" in v:
            with gen_dl(v["doc"]) as g0, gen_dl(v["doc_ref"]) as g1:
                f0, f1 = g0.files(), g1.files()
                run.note_case({"replay": v["rewritten_positions"]}, kind="replay")
                if f0 != f1 or g1.exc is not None:
                    run.violation("oracle", {"doc": v["doc"], "doc_ref": v["doc_ref"], "rewritten_positions": v["rewritten_positions"], "first_differing_file": first_diff(f0, f1),
                                             "note": "replayed: inline and by-reference documents generate different output"})
        elif "doc" in v and "doc_deleted" in v:
            with gen_dl(v["doc"]) as gb, gen_dl(v["doc_deleted"]) as gd:
                run.note_case({"replay": v.get("ref")}, kind="replay")
                if gb.exc is not None or not same_but_orphans(gd.files(), gb.files()) or len(gb.diag()) <= len(gd.diag()):
                    run.violation("oracle", {k: v[k] for k in ("doc", "doc_deleted", "position", "form", "ref") if k in v} | {"note": "replayed: malformed reference not contained / not diagnosed"})
        elif "inline_positions" in v:
            res = [work_schema((0, [])), work_schema((1, v["inline_positions"]))]
            run.note_case({"replay": v["inline_positions"]}, kind="replay")
            if res[0]["error"] or res[1]["error"] or res[0]["views"] != res[1]["views"]:
                run.violation("oracle", {"inline_positions": v["inline_positions"], "doc": res[1].get("doc"), "note": "replayed: inline copy and reference differ on the wire"})
        elif "term" in v:
            bad = run_cases(HDR, [v["term"]])
            run.note_case({"replay": v["term"][:200]}, kind="replay")
            if bad:
                run.violation("correspondence", {k: v[k] for k in v if k not in ("kind", "no_failing_input_found")})


def ensure_cone():
    """Recompile this property's own cone when a .vo is older than its source (stage A skips `make` when an unrelated translator fails,
    which would leave a stale Refs.vo / RefsThm.vo behind a regenerated GenParams.v). Returns None or (file, log)."""
    import subprocess
    from lib.common import COQ, _lock
    lock = _lock()
    try:
        stale = False
        for f in ["gen/GenParams.v", "Refs.v", "RefsThm.v", "props/C20.v"]:
            v = COQ / f
            vo = v.with_suffix(".vo")
            if stale or not vo.exists() or vo.stat().st_mtime < v.stat().st_mtime:
                stale = True
                r = subprocess.run(["timeout", "900", "coqc", "-R", ".", "OPC", "-w", "-notation-overridden", f], cwd=COQ, capture_output=True, text=True)
                if r.returncode != 0:
                    return f, (r.stdout + r.stderr)[-1500:]
    finally:
        lock.close()
    return None


def run(run, tier, replay=None):
    cone = ensure_cone()
    try:
        _run(run, tier, replay)
    finally:
        if cone is not None and not [v for v in run.violations if not v.get("no_failing_input_found")]:
            run.violation("proof-obligation", {"obligation": cone[0], "log": cone[1], "note": "a theorem / regenerated fact in the cone of props/C20.v no longer checks"}, no_input=True)


def _run(run, tier, replay=None):
    run.rule = ("stage B: hostile reference strings (15 malformed forms x sections + random strings over a URL-syntax alphabet); random request-body tables (chains of canonical references to "
                "length 6 ending in a body / a miss / a cycle, and random tables with remote / wrong-section / bare / percent-encoded / trailing-slash references); random component-parameter "
                "tables (odd keys, parameters with and without schema, top-level references, all 13 Parameter fields) with operation-level and path-item-level lists mixing references and "
                "inline parameters; random response tables. Stage C: (1) random documents (parameters in all four locations at both levels, json/form/multipart/octet/unsupported bodies, 1-3 "
                "statuses) x random subsets of positions moved to components/* (shared components, body chains to length 6, shuffled sections): whole tree compared byte for byte; (2) 20 schema "
                "positions x {model, enum} by $ref vs inline copy, random subsets inline: round trips and endpoint calls of both generated clients compared, one class per referenced schema; "
                "(3) 15-16 malformed reference forms x 12 position kinds: diagnostic + containment against the document without the item. A case is one (input, observation); non-trivial = "
                "a reference is actually followed / a position actually rewritten; distinct by hash of the input.")
    if replay:
        replay_cases(run, replay)
        return
    if os.environ.get("C20_SKIP_B") != "1":
        stage_b(run, tier)
    stage_c_witnesses(run)
    stage_c_meta(run, tier)
    stage_c_malformed(run, tier)
    stage_c_schemas(run, tier)
    stage_c_broken_target(run, tier)
    stage_c_shared_response(run, tier)
    run.assumptions += [
        "harness/translate/gen_params.py (ast reading of parameter_from_data / add_parameters / _property_from_ref / response_from_data / build_parameters; urllib.parse tables of the running interpreter)",
        "the abstraction of property_from_data / validate_location / _check_parameters_for_conflicts as the parameters build / validate / finish of Refs.add_loop (the theorems hold for ALL such functions; "
        "stage B instantiates them with a table read from the real property classes)",
        "urlsplit authority validation for bracketed hosts and non-ASCII authorities is outside the model (PRUnmodelled; such cases are compared by outcome only)",
        "schema-reference behaviour (class evolution, dependency recording, default re-validation) is covered by the regenerated evolve-field fact + executed-client comparison, not by a model of property_from_data",
        "harness/lib/client_runner.py (serialises run-time values, captures requests through httpx.MockTransport)"]
