"""C20 - using a component by reference is equivalent to writing it inline.

Stage B (correspondence with coq/Refs.v, evaluated inside Coq): parse_reference_path / get_reference_simple_name on hostile strings;
bodies._resolve_reference on random request-body tables (chains to length 6, cycles, misses, remote / relative / wrong-section /
percent-encoded / trailing-slash / empty references); build_parameters + Endpoint.from_data/add_parameters on random component
parameter tables and operation + path-item parameter lists (references and inline copies mixed); the reference case of
response_from_data.
Stage C (the property itself): (1) inline <-> reference rewriting of random subsets of parameter / request body / response positions of
random documents: the whole generated tree (in particular every endpoint module) must be byte-identical; (2) schema positions by $ref
vs inline copy: same wire behaviour (from_dict/to_dict round trips and captured requests / parsed responses of both clients) and a
single generated class per referenced schema; (3) malformed / dangling / remote / circular references at every position kind: a
diagnostic for the user of the reference, every other module byte-identical to the document without that item."""
import copy, json, os, random, re, concurrent.futures as cf
from lib.common import cstr, run_cases, coq_eval, REPO
from lib import impl

HDR = r"""Require Import OPC.gen.GenParams OPC.Uni OPC.Refs.
Open Scope N_scope.
Definition pref_eqb (a b : pref_result) : bool :=
  match a, b with PROk x, PROk y => str_eqb x y | PRRemote, PRRemote => true | PRCrash, PRCrash => true | PRUnmodelled, _ => true | _, _ => false end.
Definition body_eqb (a b : body_result N) : bool :=
  match a, b with BRNone, BRNone => true | BROk x, BROk y => x =? y | BRCircular x, BRCircular y => str_eqb x y
  | BRMissing x, BRMissing y => str_eqb x y | _, _ => false end.
Definition resp_eqb (a b : resp_result N) : bool :=
  match a, b with RROk x, RROk y => x =? y | RRRemote, RRRemote => true | RRNotAllowed, RRNotAllowed => true | RRNotFound, RRNotFound => true
  | RRTopRef, RRTopRef => true | RRCrash, RRCrash => true | RRUnmodelled, _ => true | _, _ => false end.
Definition pval_eqb (a b : pval) : bool :=
  match a, b with PVnone, PVnone => true | PVbool x, PVbool y => Bool.eqb x y | PVstr x, PVstr y => str_eqb x y | PVloc x, PVloc y => loc_eqb x y
  | PVschema x, PVschema y => x =? y | PVother x, PVother y => x =? y | _, _ => false end.
(* observed table: list (ref path, list (field id, value)) for ALL fields of the registered Parameter *)
Definition param_eqb (p : param) (obs : list (N * pval)) : bool := forallb (fun fv => pval_eqb (pget p (fst fv)) (snd fv)) obs.
Definition table_eqb (t : ptable) (obs : list (str * list (N * pval))) : bool :=
  forallb (fun kv => match assoc (fst kv) t with Some p => param_eqb p (snd kv) | None => false end) obs
  && forallb (fun kv => match assoc (fst kv) obs with Some _ => true | None => false end) t.
Definition strs_eqb (a b : list str) : bool := (length a =? length b)%nat && forallb (fun xy => str_eqb (fst xy) (snd xy)) (combine a b).
Definition build_case (comps : list (str * comp)) (obs : list (str * list (N * pval))) (n_ref_errs : nat) (par_errs : list str) : bool :=
  let r := build_parameters comps in
  table_eqb (fst r) obs && (length (fst (snd r)) =? n_ref_errs)%nat && (length (snd (snd r)) =? length par_errs)%nat.
(* concrete instance of the abstract collaborators: schema ids in `bad` fail to parse; `allow` lists (schema id, locations) *)
Definition c_build (bad : list N) (st : N) (n : str) (r : bool) (s : N) : option ((N * bool) * N) := if memN s bad then None else Some ((s, r), N.succ st).
Definition c_validate (allow : list (N * list loc)) (p : N * bool) (l : loc) : bool :=
  match assocN (fst p) allow with Some ls => existsb (loc_eqb l) ls | None => false end && match l with LPath => snd p | _ => true end.
Definition obs_param := (str * (loc * (bool * N)))%type.
Definition pp_eqb (q : pparam (N * bool)) (o : obs_param) : bool :=
  str_eqb (pp_name q) (fst o) && loc_eqb (pp_loc q) (fst (snd o)) && Bool.eqb (pp_required q) (fst (snd (snd o))) && (pp_schema q =? snd (snd (snd o))).
Definition by_loc (l : loc) (e : eparams (N * bool)) := filter (fun q => loc_eqb (pp_loc q) l) e.
Fixpoint list_eqb {A B} (f : A -> B -> bool) (a : list A) (b : list B) : bool :=
  match a, b with [] , [] => true | x :: a', y :: b' => f x y && list_eqb f a' b' | _, _ => false end.
Definition perr_eqb (a b : perr) : bool :=
  match a, b with ERemote, ERemote | ENotFound, ENotFound | EDup, EDup | EBuild, EBuild | ELocation, ELocation | EConflict, EConflict | ECrash, ECrash => true
  | EUnmodelled, _ => true | _, _ => false end.
Definition ep_case (comps : list (str * comp)) (bad : list N) (allow : list (N * list loc)) (ops pis : option (list pitem))
    (obs : (list obs_param * (list obs_param * (list obs_param * list obs_param))) + perr) (nbuilt : N) : bool :=
  let r := endpoint_parameters N (N * bool) (c_build bad) (c_validate allow) (fun e => inl e) (fun s => Some s) (fst (build_parameters comps)) ops pis 0 in
  match fst r, obs with
  | inl e, inl (q, (p, (h, c))) => list_eqb pp_eqb (by_loc LQuery e) q && list_eqb pp_eqb (by_loc LPath e) p && list_eqb pp_eqb (by_loc LHeader e) h && list_eqb pp_eqb (by_loc LCookie e) c
  | inr a, inr b => perr_eqb a b
  | _, _ => false
  end.
(* the theorem's reading of the same case: all references replaced by the components as written *)
Definition ep_inline_case (comps : list (str * comp)) (bad : list N) (allow : list (N * list loc)) (ops pis : list pitem) : bool :=
  match inline_items comps ops, inline_items comps pis with
  | Some ops', Some pis' =>
      let f := endpoint_parameters N (N * bool) (c_build bad) (c_validate allow) (fun e => inl e) (fun s => Some s) (fst (build_parameters comps)) in
      match fst (f (Some ops) (Some pis) 0), fst (f (Some ops') (Some pis') 0) with
      | inl a, inl b => list_eqb (fun x y => pp_eqb x (pp_name y, (pp_loc y, (pp_required y, pp_schema y)))) a b
      | inr a, inr b => perr_eqb a b
      | _, _ => false
      end
  | _, _ => true
  end.
"""

# ====================================================================================================================
# reference strings
# ====================================================================================================================
REF_ALPH = ["#", "/", "?", ";", ":", "a", "B", "1", "+", ".", "-", " ", "\t", "\n", "\r", "\x00", "[", "]", "é", "%", "~", "@", "//",
            "#/components/schemas/", "#/components/parameters/", "#/components/responses/", "#/components/requestBodies/", "http", "x.yaml", "%20", "~1"]


def bad_ref_forms(section, name):
    """malformed / non-local variants of the canonical reference '#/components/<section>/<name>' (label, text)"""
    canon = f"#/components/{section}/{name}"
    other = {"parameters": "schemas", "schemas": "parameters", "responses": "requestBodies", "requestBodies": "responses"}[section]
    return [
        ("dangling", f"#/components/{section}/Nope{name}"),
        ("remote-file", f"other.yaml{canon}"),
        ("remote-url", f"https://example.com/api.yaml{canon}"),
        ("relative-path", f"./defs/{name}.yaml"),
        ("bare-name", name),
        ("empty", ""),
        ("empty-fragment", "#"),
        ("wrong-section", f"#/components/{other}/{name}"),
        ("percent-encoded", f"#/components/{section}/" + "".join("%%%02X" % ord(c) for c in name)),
        ("trailing-slash", canon + "/"),
        ("netloc-only", "//example.com" + canon),
        ("query-only", "?v=1" + canon),
        ("extra-segment", f"#/components/{section}/x/{name}"),
        ("no-leading-slash", f"#components/{section}/{name}"),
        ("bracket", "//[" + canon),
    ]


def stage_b_refstrings(run, tier):
    from openapi_python_client.parser.properties.schemas import parse_reference_path as prp, get_reference_simple_name as gsn
    rng = run.rng
    n = 1500 if tier == "quick" else 12000
    cases = [t for _, t in bad_ref_forms("schemas", "Pet")] + [t for _, t in bad_ref_forms("requestBodies", "a b")]
    cases += ["#/components/schemas/Pet", "#/components/schemas/a\tb", " \n#/x", "x:#/a", "1x:#/a", "a+b.c-d:#/x", "//h;p?q#/a", ";#/a", "/;#/a", "a;b#/c", "//℀#/a", "//[::1]#/a"]
    while len(cases) < n:
        cases.append("".join(rng.choice(REF_ALPH) for _ in range(rng.randint(0, 8))))
    terms, meta = [], []
    for s in cases:
        try:
            r = prp(s)
            obs = f"(PROk {cstr(r)})" if isinstance(r, str) else "PRRemote"
        except ValueError:
            obs = "PRCrash"
        terms.append(f"pref_eqb (parse_reference_path {cstr(s)}) {obs} && str_eqb (get_reference_simple_name {cstr(s)}) {cstr(gsn(s))}")
        meta.append({"fn": "parse_reference_path", "input": s, "impl": obs})
        run.note_case({"ref": s}, nontrivial=len(s) > 1, kind="refstring")
    return terms, meta


# ====================================================================================================================
# request-body tables
# ====================================================================================================================
def rand_body_ref(rng, names):
    n = rng.choice(names)
    r = rng.random()
    if r < 0.55:
        return f"#/components/requestBodies/{n}"
    forms = [f"#/components/schemas/{n}", f"other.yaml#/components/requestBodies/{n}", f"http://evil/x#/{n}", n, f"#/components/requestBodies/{n}/", f"//h#/components/requestBodies/{n}",
             f"#/components/requestBodies/x/{n}", "#/components/requestBodies/" + "".join("%%%02X" % ord(c) for c in n), "", "#", f"#/{n}#/{n}"]
    return rng.choice(forms)


def stage_b_bodies(run, tier):
    from openapi_python_client import schema as oai
    from openapi_python_client.parser.bodies import _resolve_reference
    from openapi_python_client.parser.errors import ParseError
    rng = run.rng
    n = 500 if tier == "quick" else 4000
    terms, meta = [], []
    for ci in range(n):
        names = [chr(65 + i) for i in range(rng.randint(1, 8))] + rng.sample(["a b", "x.y", "Ü", "p-1", ""], rng.randint(0, 2))
        mode = rng.random()
        comps = {}
        order = list(names)
        rng.shuffle(order)
        if mode < 0.45:
            # a deliberate chain of length 1..6 through canonical references, ending in a body / a miss / a cycle
            k = min(len(order), rng.randint(1, 6))
            chain = order[:k]
            end = rng.choice(["body", "body", "miss", "cycle"])
            for i, nm in enumerate(chain):
                if i + 1 < k:
                    comps[nm] = ("ref", f"#/components/requestBodies/{chain[i + 1]}")
                elif end == "body":
                    comps[nm] = ("body", ci * 10 + i)
                elif end == "miss":
                    comps[nm] = ("ref", "#/components/requestBodies/Missing")
                else:
                    comps[nm] = ("ref", f"#/components/requestBodies/{rng.choice(chain)}")
            for nm in order[k:]:
                comps[nm] = ("body", ci * 10 + 9) if rng.random() < 0.5 else ("ref", rand_body_ref(rng, names))
            start = ("ref", f"#/components/requestBodies/{chain[0]}") if rng.random() < 0.8 else ("ref", rand_body_ref(rng, names))
        else:
            for i, nm in enumerate(order):
                comps[nm] = ("body", ci * 10 + i) if rng.random() < 0.4 else ("ref", rand_body_ref(rng, names + ["Missing"]))
            r = rng.random()
            start = None if r < 0.05 else ("body", ci * 10 + 8) if r < 0.12 else ("ref", rand_body_ref(rng, names + ["Missing"]))
        mk = lambda e: oai.Reference.model_construct(ref=e[1]) if e[0] == "ref" else oai.RequestBody.model_construct(description=str(e[1]), content={})
        table = {k: mk(v) for k, v in comps.items()}
        res = _resolve_reference(None if start is None else mk(start), table)
        if res is None:
            obs = "BRNone"
        elif isinstance(res, ParseError):
            d = res.detail or ""
            if isinstance(res.data, oai.Reference):
                obs = f"(BRCircular {cstr(res.data.ref)})"
            else:
                m = re.match(r"Could not resolve \$ref (.*) in request body$", d, re.S)
                obs = f"(BRMissing {cstr(m.group(1))})" if m else "BRFuel"
        else:
            obs = f"(BROk {int(res.description)})"
        ce = lambda e: f"(BRef {cstr(e[1])})" if e[0] == "ref" else f"(BBody {e[1]})"
        ctab = "[" + "; ".join(f"({cstr(k)}, {ce(v)})" for k, v in comps.items()) + "]"
        cstart = "None" if start is None else f"(Some {ce(start)})"
        terms.append(f"body_eqb (resolve_body (B:=N) {ctab} {cstart}) {obs}")
        meta.append({"fn": "_resolve_reference", "components": comps, "start": start, "impl": obs})
        run.note_case({"components": comps, "start": start}, nontrivial=start is not None and start[0] == "ref", kind="body-chain" if mode < 0.45 else "body-random")
    return terms, meta


# ====================================================================================================================
# parameters
# ====================================================================================================================
LOCS = ["query", "path", "header", "cookie"]
CLOC = {"query": "LQuery", "path": "LPath", "header": "LHeader", "cookie": "LCookie"}
# schema id -> schema (ids are what the model sees); 9 fails to parse (array without items)
PSCHEMAS = {1: {"type": "integer"}, 2: {"type": "string"}, 3: {"type": "boolean"}, 4: {"type": "number"}, 5: {"type": "array", "items": {"type": "string"}},
            6: {"type": "string", "format": "date"}, 7: {"type": "string", "enum": ["u", "v"]}, 8: {"type": "object", "properties": {"z": {"type": "integer"}}}, 9: {"type": "array"}}
PNAMES = ["id", "q", "limit", "X-Trace", "sess", "kind", "when", "flag"]
FIELD_IDS = {"name": 0, "param_in": 1, "required": 2, "param_schema": 3, "style": 4, "explode": 5, "description": 6, "deprecated": 7, "allowEmptyValue": 8,
             "allowReserved": 9, "example": 10, "examples": 11, "content": 12}


def rand_param(rng, with_schema=None):
    p = {"name": rng.choice(PNAMES), "in": rng.choice(LOCS)}
    if rng.random() < 0.6:
        p["required"] = rng.random() < 0.7
    if p["in"] == "path" and rng.random() < 0.93:
        p["required"] = True
    has_schema = with_schema if with_schema is not None else rng.random() < 0.93
    if has_schema:
        p["_sid"] = rng.choice([8, 9, 5]) if rng.random() < 0.07 else rng.choice([1, 1, 2, 2, 3, 4, 6, 7] + ([5, 5] if p["in"] == "query" else []))
        p["schema"] = PSCHEMAS[p["_sid"]]
    else:
        p["content"] = {"application/json": {"schema": {"type": "string"}}}
    for k, v in (("description", "d%d" % rng.randrange(9)), ("deprecated", True), ("style", rng.choice(["form", "simple", "deepObject"])), ("explode", True),
                 ("allowEmptyValue", True), ("allowReserved", True), ("example", 5)):
        if rng.random() < 0.3:
            p[k] = v
    return p


def cparam(p):
    """Coq `param` (assoc list) of a raw parameter dict"""
    f = [(0, f"PVstr {cstr(p['name'])}"), (1, f"PVloc {CLOC[p['in']]}")]
    if "required" in p:
        f.append((2, f"PVbool {'true' if p['required'] else 'false'}"))
    if "schema" in p:
        f.append((3, f"PVschema {p['_sid']}"))
    for k in ("style", "description"):
        if k in p:
            f.append((FIELD_IDS[k], f"PVstr {cstr(p[k])}"))
    for k in ("explode", "deprecated", "allowEmptyValue", "allowReserved"):
        if k in p:
            f.append((FIELD_IDS[k], f"PVbool {'true' if p[k] else 'false'}"))
    if "example" in p:
        f.append((10, "PVother 1"))
    if "content" in p:
        f.append((12, "PVother 2"))
    return "[" + "; ".join(f"({i}, {v})" for i, v in f) + "]"


def obs_pval(field, v, sid_of):
    if v is None:
        return "PVnone"
    if isinstance(v, bool):
        return f"PVbool {'true' if v else 'false'}"
    if field == "param_in":
        return f"PVloc {CLOC[str(v.value)]}"
    if field == "param_schema":
        return f"PVschema {sid_of(v)}"
    if isinstance(v, str):
        return f"PVstr {cstr(v)}"
    return "PVother 1" if field == "example" else "PVother 2"


def stage_b_params(run, tier):
    from openapi_python_client import schema as oai
    from openapi_python_client.parser.properties import Parameters, Schemas, build_parameters
    from openapi_python_client.parser.openapi import Endpoint
    from openapi_python_client.parser.errors import ParseError, ParameterError
    from openapi_python_client.parser import properties as PR
    rng = run.rng
    _, config = impl.parse_doc(impl.base_doc())
    n = 350 if tier == "quick" else 3000
    # which locations each schema id's property class allows (read from the real classes: validate_location is not this property's subject)
    allow = {}
    for sid, sch in PSCHEMAS.items():
        prop, _ = PR.property_from_data(name="x", required=True, data=oai.Schema.model_validate(sch), schemas=Schemas(), parent_name="p", config=config)
        allow[sid] = None if isinstance(prop, ParseError) else [l for l in LOCS if oai.ParameterLocation(l) in prop._allowed_locations]
    bad = [sid for sid, a in allow.items() if a is None]
    callow = "[" + "; ".join(f"({sid}, [{'; '.join(CLOC[l] for l in a)}])" for sid, a in allow.items() if a is not None) + "]"
    cbad = "[" + "; ".join(str(b) for b in bad) + "]"
    sid_by_json = {json.dumps(v, sort_keys=True): k for k, v in PSCHEMAS.items()}

    def sid_of(schema_obj):
        return sid_by_json[json.dumps(schema_obj.model_dump(by_alias=True, exclude_none=True, exclude_unset=True), sort_keys=True)]

    terms, meta = [], []
    for ci in range(n):
        # ---- component table
        keys = rng.sample(["P1", "P2", "P3", "Q", "a b", "x.y", "Ü", "p-1", "a\tb", "ab", "P1\n", "#h", "k:1"], rng.randint(1, 6))
        comps = {}
        for k in keys:
            r = rng.random()
            comps[k] = ("ref", "#/components/parameters/" + rng.choice(keys)) if r < 0.05 else ("param", rand_param(rng))
        oai_comps = {k: (oai.Reference(ref=v[1]) if v[0] == "ref" else oai.Parameter.model_validate({x: y for x, y in v[1].items() if x != "_sid"})) for k, v in comps.items()}
        ccomps = "[" + "; ".join(f"({cstr(k)}, " + (f"CRef {cstr(v[1])}" if v[0] == "ref" else f"CParam {cparam(v[1])}") + ")" for k, v in comps.items()) + "]"
        params = build_parameters(components=oai_comps, parameters=Parameters(), config=config)
        obs_tab = "[" + "; ".join(f"({cstr(rp)}, [" + "; ".join(f"({FIELD_IDS[f]}, {obs_pval(f, getattr(p, f), sid_of)})" for f in FIELD_IDS) + "])"
                                  for rp, p in params.classes_by_reference.items()) + "]"
        ref_errs = [e for e in params.errors if isinstance(e.data, oai.Reference)]
        par_errs = [e for e in params.errors if not isinstance(e.data, oai.Reference)]
        terms.append(f"build_case {ccomps} {obs_tab} {len(ref_errs)} [{'; '.join(cstr(e.header or '') for e in par_errs)}]")
        meta.append({"fn": "build_parameters", "components": comps, "impl": {"table": sorted(params.classes_by_reference), "errors": len(params.errors)}})
        run.note_case({"components": comps}, nontrivial=len(comps) > 1, kind="param-table")

        # ---- an operation + path item using the table
        def item():
            r = rng.random()
            if r < 0.45:
                k = rng.choice(keys)
                rr = rng.random()
                ref = f"#/components/parameters/{k}" if rr < 0.9 else rng.choice([t for _, t in bad_ref_forms("parameters", k) if "[" not in t or rng.random() < 0.3])
                return ("ref", ref)
            return ("param", rand_param(rng))
        lists = []
        for lvl in range(2):
            lists.append(None if rng.random() < 0.1 else [item() for _ in range(rng.randint(0, 4))])
        mk = lambda it: oai.Reference(ref=it[1]) if it[0] == "ref" else oai.Parameter.model_validate({x: y for x, y in it[1].items() if x != "_sid"})
        op = oai.Operation.model_construct(parameters=None if lists[0] is None else [mk(i) for i in lists[0]], responses={}, operationId="opx", tags=None, summary=None, description=None,
                                           security=None, request_body=None)
        pi = oai.PathItem.model_construct(parameters=None if lists[1] is None else [mk(i) for i in lists[1]])
        cit = lambda it: f"PIRef {cstr(it[1])}" if it[0] == "ref" else f"PIParam {cparam(it[1])}"
        cl = lambda l: "None" if l is None else "(Some [" + "; ".join(cit(i) for i in l) + "])"
        schemas0 = Schemas()
        try:
            ep, schemas1, _ = Endpoint.from_data(data=op, path="/x", method="get", tags=["default"], schemas=schemas0, parameters=params, request_bodies={}, responses={}, config=config)
            if not isinstance(ep, ParseError):
                ep, schemas1, _ = Endpoint.add_parameters(endpoint=ep, data=pi, schemas=schemas1, parameters=params, config=config)
            exc = None
        except ValueError as e:
            ep, exc = None, e
        if exc is not None:
            obs = "(inr ECrash)"
        elif isinstance(ep, ParseError):
            d = ep.detail or ""
            if isinstance(ep, ParameterError):
                kind = "ERemote" if "Remote references" in d else "ENotFound"
            elif "MUST NOT contain duplicates" in d:
                kind = "EDup"
            elif "cannot parse parameter" in d:
                kind = "EBuild"
            elif "is not allowed in" in d or "must be required" in d:
                kind = "ELocation"
            elif "same Python identifier" in d:
                kind = "EConflict"
            else:
                kind = "EUnmodelled (* unclassified: %s *)" % d[:40].replace("*", "")
            obs = f"(inr {kind})"
        else:
            def ol(props, loc):
                out = []
                for p in props:
                    # recover the schema id from the property the real parser built
                    cls = type(p).__name__
                    sid = {"IntProperty": 1, "StringProperty": 2, "BooleanProperty": 3, "FloatProperty": 4, "ListProperty": 5, "DateProperty": 6, "EnumProperty": 7, "ModelProperty": 8}.get(cls, 0)
                    out.append(f"({cstr(p.name)}, ({CLOC[loc]}, ({'true' if p.required else 'false'}, {sid})))")
                return "[" + "; ".join(out) + "]"
            obs = f"(inl ({ol(ep.query_parameters, 'query')}, ({ol(ep.path_parameters, 'path')}, ({ol(ep.header_parameters, 'header')}, {ol(ep.cookie_parameters, 'cookie')}))))"
        terms.append(f"ep_case {ccomps} {cbad} {callow} {cl(lists[0])} {cl(lists[1])} {obs} 0")
        meta.append({"fn": "Endpoint.from_data+add_parameters", "components": comps, "operation_parameters": lists[0], "path_item_parameters": lists[1], "impl": obs})
        run.note_case({"components": comps, "op": lists[0], "pi": lists[1]}, nontrivial=bool(lists[0]) or bool(lists[1]), kind="param-lists")
        # the theorem's statement evaluated on the same case (model-internal; a failure here means the proved statement is not what was modelled)
        if lists[0] is not None and lists[1] is not None:
            terms.append(f"ep_inline_case {ccomps} {cbad} {callow} [{'; '.join(cit(i) for i in lists[0])}] [{'; '.join(cit(i) for i in lists[1])}]")
            meta.append({"fn": "param_ref_inline (model)", "components": comps, "operation_parameters": lists[0], "path_item_parameters": lists[1], "impl": "n/a"})
    return terms, meta


# ====================================================================================================================
# responses
# ====================================================================================================================
def stage_b_responses(run, tier):
    from http import HTTPStatus
    from openapi_python_client import schema as oai
    from openapi_python_client.parser.properties import Schemas
    from openapi_python_client.parser.responses import response_from_data, Response
    rng = run.rng
    _, config = impl.parse_doc(impl.base_doc())
    n = 400 if tier == "quick" else 3000
    terms, meta = [], []
    for ci in range(n):
        names = rng.sample(["R", "S", "T", "a b", "x.y", "Ü", "", "R\n"], rng.randint(1, 5))
        comps = {}
        for i, nm in enumerate(names):
            comps[nm] = ("ref", "#/components/responses/" + rng.choice(names)) if rng.random() < 0.2 else ("resp", ci * 10 + i)
        nm = rng.choice(names + ["Missing"])
        r = rng.random()
        if r < 0.08:
            data = ("resp", ci * 10 + 9)
        elif r < 0.5:
            data = ("ref", f"#/components/responses/{nm}")
        else:
            data = ("ref", rng.choice([t for _, t in bad_ref_forms("responses", nm)] + [f"#/components/responses/{nm}\t", f" #/components/responses/{nm}", f"#/components/responses//{nm}"]))
        mk = lambda e: oai.Reference(ref=e[1]) if e[0] == "ref" else oai.Response(description=str(e[1]))
        table = {k: mk(v) for k, v in comps.items()}
        try:
            res, _ = response_from_data(status_code=HTTPStatus(200), data=mk(data), schemas=Schemas(), responses=table, parent_name="p", config=config)
            if isinstance(res, Response):
                obs = f"(RROk {int(res.data.description)})"
            else:
                d = res.detail or ""
                obs = "RRRemote" if "Remote references" in d else "RRNotAllowed" if "not allowed in responses" in d else "RRNotFound" if "Could not find reference" in d \
                    else "RRTopRef" if "Top-level $ref" in d else "RRUnmodelled (* unclassified *)"
                if obs.startswith("RRUnmodelled"):
                    obs = "RRCrash (* unclassified error: %s *)" % d[:40].replace("*", "")
        except ValueError:
            obs = "RRCrash"
        ce = lambda e: f"(RRefE {cstr(e[1])})" if e[0] == "ref" else f"(RResp {e[1]})"
        ctab = "[" + "; ".join(f"({cstr(k)}, {ce(v)})" for k, v in comps.items()) + "]"
        terms.append(f"resp_eqb (resolve_response (R:=N) {ctab} {ce(data)}) {obs}")
        meta.append({"fn": "response_from_data", "components": comps, "data": data, "impl": obs})
        run.note_case({"components": comps, "data": data}, nontrivial=data[0] == "ref", kind="response-ref")
    return terms, meta


# ====================================================================================================================
# stage C (1): inline <-> reference rewriting of parameters / request bodies / responses
# ====================================================================================================================
SREF = "#/components/schemas/"
BASE_SCHEMAS = {
    "Pet": {"type": "object", "required": ["name"], "properties": {"name": {"type": "string"}, "age": {"type": "integer"}, "kind": {"$ref": SREF + "Kind"}, "born": {"type": "string", "format": "date"}}},
    "Kind": {"type": "string", "enum": ["cat", "dog"]},
    "Tag": {"type": "object", "properties": {"label": {"type": "string"}, "pets": {"type": "array", "items": {"$ref": SREF + "Pet"}}}},
    "Err": {"type": "object", "properties": {"code": {"type": "integer"}, "msg": {"type": "string"}}},
}
OP_PARAM_SCHEMAS = [{"type": "integer"}, {"type": "string"}, {"type": "boolean"}, {"type": "number"}, {"type": "string", "format": "date"}, {"type": "string", "format": "uuid"},
                    {"$ref": SREF + "Kind"}, {"type": "string", "enum": ["x", "y z"]}, {"type": "integer", "default": 3}, {"type": "string", "default": "dflt", "description": "a described schema"}]
QUERY_ONLY_SCHEMAS = [{"type": "array", "items": {"type": "string"}}, {"type": "array", "items": {"$ref": SREF + "Kind"}}, {"$ref": SREF + "Pet"},
                      {"type": ["string", "null"]}, {"anyOf": [{"type": "integer"}, {"type": "string", "format": "date"}]}]


def gen_op_param(rng, loc, name, hostile=False):
    p = {"name": name, "in": loc}
    if loc == "path":
        p["required"] = True
    elif rng.random() < 0.6:
        p["required"] = rng.random() < 0.5
    pool = OP_PARAM_SCHEMAS + (QUERY_ONLY_SCHEMAS if loc == "query" else [])
    if loc == "path":
        pool = OP_PARAM_SCHEMAS[:8]
    p["schema"] = copy.deepcopy(rng.choice(pool))
    for k, v in (("description", "param %s in %s" % (name, loc)), ("deprecated", True), ("style", "form" if loc in ("query", "cookie") else "simple"), ("explode", rng.random() < 0.5),
                 ("example", "e"), ("allowEmptyValue", True)):
        if rng.random() < 0.3:
            p[k] = v
    if hostile and rng.random() < 0.5:
        del p["schema"]
        p["content"] = {"application/json": {"schema": {"type": "string"}}}
    return p


def gen_body(rng):
    r = rng.random()
    json_schemas = [{"$ref": SREF + "Pet"}, {"type": "array", "items": {"$ref": SREF + "Pet"}}, {"type": "object", "properties": {"a": {"type": "string"}, "k": {"$ref": SREF + "Kind"}}},
                    {"type": "string"}, {"type": "object", "additionalProperties": {"type": "integer"}}]
    form = {"type": "object", "properties": {"f1": {"type": "string"}, "f2": {"type": "integer"}}, "required": ["f1"]}
    multi = {"type": "object", "properties": {"file": {"type": "string", "format": "binary"}, "note": {"type": "string"}, "tag": {"$ref": SREF + "Tag"}}, "required": ["file"]}
    content = {}
    kinds = rng.sample(["json", "form", "multipart", "octet", "vjson", "xml"], rng.choice([1, 1, 1, 2, 3]))
    for k in kinds:
        if k == "json":
            content["application/json"] = {"schema": copy.deepcopy(rng.choice(json_schemas))}
        elif k == "vjson":
            content["application/vnd.api+json; charset=utf-8"] = {"schema": {"$ref": SREF + "Tag"}}
        elif k == "form":
            content["application/x-www-form-urlencoded"] = {"schema": copy.deepcopy(rng.choice([form, {"$ref": SREF + "Err"}]))}
        elif k == "multipart":
            content["multipart/form-data"] = {"schema": copy.deepcopy(rng.choice([multi, {"$ref": SREF + "Pet"}]))}
        elif k == "octet":
            content["application/octet-stream"] = {"schema": {"type": "string", "format": "binary"}}
        else:
            content["application/xml"] = {"schema": {"type": "string"}}    # unsupported: a warning in both documents
    b = {"content": content}
    if rng.random() < 0.5:
        b["required"] = rng.random() < 0.7
    if rng.random() < 0.4:
        b["description"] = "the body"
    return b


def gen_response(rng, status):
    r = rng.random()
    resp = {"description": "response %s" % status}
    if status == "204" or r < 0.15:
        return resp
    if r < 0.6:
        sch = rng.choice([{"$ref": SREF + "Pet"}, {"type": "array", "items": {"$ref": SREF + "Tag"}}, {"$ref": SREF + "Err"}, {"type": "object", "properties": {"ok": {"type": "boolean"}}},
                          {"oneOf": [{"$ref": SREF + "Pet"}, {"$ref": SREF + "Err"}]}, {"$ref": SREF + "Kind"}, {"type": "integer"}])
        resp["content"] = {"application/json": {"schema": copy.deepcopy(sch)}}
    elif r < 0.75:
        resp["content"] = {"text/plain": {"schema": {"type": "string"}}}
    elif r < 0.85:
        resp["content"] = {"application/octet-stream": {"schema": {"type": "string", "format": "binary"}}}
    elif r < 0.93:
        resp["content"] = {"application/pdf": {"schema": {"type": "string"}}}     # unsupported: a warning either way
    else:
        resp["content"] = {"application/json": {}}
    if rng.random() < 0.2:
        resp["headers"] = {"X-Rate": {"schema": {"type": "integer"}}}
    return resp


def gen_ops_doc(rng, hostile=False):
    """a document with every component written INLINE at its point of use"""
    paths = {}
    npaths = rng.randint(1, 4)
    opn = 0
    for pi_ in range(npaths):
        path = "/r%d" % pi_
        path_names = []
        if rng.random() < 0.6:
            path_names.append(rng.choice(["id", "pid"]))
            path += "/{%s}" % path_names[-1]
            if rng.random() < 0.3:
                path_names.append("sub")
                path += "/s/{sub}"
        item = {}
        # path-item level parameters
        pl = []
        level_for_path = {n: rng.choice(["item", "op", "both"]) for n in path_names}
        for n in path_names:
            if level_for_path[n] in ("item", "both"):
                pl.append(gen_op_param(rng, "path", n))
        for _ in range(rng.choice([0, 0, 1, 2])):
            loc = rng.choice(["query", "header", "cookie"])
            pl.append(gen_op_param(rng, loc, rng.choice(PNAMES[1:]), hostile))
        pl = dedup_params(pl)
        if pl or rng.random() < 0.2:
            item["parameters"] = pl
        for method in rng.sample(["get", "post", "put", "delete", "patch"], rng.randint(1, 2)):
            opn += 1
            op = {"operationId": "op%d%s" % (opn, method.capitalize()), "tags": [rng.choice(["alpha", "beta"])], "responses": {}}
            ol = []
            for n in path_names:
                if level_for_path[n] in ("op", "both"):
                    ol.append(gen_op_param(rng, "path", n))
            for _ in range(rng.choice([0, 1, 2, 3])):
                loc = rng.choice(["query", "query", "header", "cookie"])
                ol.append(gen_op_param(rng, loc, rng.choice(PNAMES[1:]), hostile))
            ol = dedup_params(ol)
            if ol or rng.random() < 0.2:
                op["parameters"] = ol
            if method in ("post", "put", "patch") or rng.random() < 0.15:
                op["requestBody"] = gen_body(rng)
            for st in rng.sample(["200", "201", "204", "400", "404", "500"], rng.randint(1, 3)):
                op["responses"][st] = gen_response(rng, st)
            if rng.random() < 0.2:
                op["summary"] = "summary %d" % opn
            item[method] = op
        paths[path] = item
    return {"openapi": rng.choice(["3.0.3", "3.1.0"]), "info": {"title": "t", "version": "1"}, "paths": paths, "components": {"schemas": copy.deepcopy(BASE_SCHEMAS)}}


def dedup_params(pl):
    seen, out = set(), []
    for p in pl:
        if (p["name"], p["in"]) not in seen:
            seen.add((p["name"], p["in"]))
            out.append(p)
    return out


def positions(doc):
    """every position where a parameter / request body / response component may stand: (kind, path, method|None, index|status)"""
    out = []
    for path, item in doc["paths"].items():
        for i, _ in enumerate(item.get("parameters") or []):
            out.append(("param", path, None, i))
        for m, op in item.items():
            if m == "parameters":
                continue
            for i, _ in enumerate(op.get("parameters") or []):
                out.append(("param", path, m, i))
            if "requestBody" in op:
                out.append(("body", path, m, None))
            for st in op.get("responses", {}):
                out.append(("response", path, m, st))
    return out


COMP_KEYS = ["C%d", "Shared%d", "comp_%d", "c-%d", "x.%d", "K %d", "\u00dc%d"]


def rewrite(doc, chosen, rng, chain_max=6, share=True):
    """the same document with the components at the chosen positions moved to components/* and used by reference"""
    d = copy.deepcopy(doc)
    comps = d.setdefault("components", {})
    counter = [0]
    moved = {}

    def fresh():
        counter[0] += 1
        return rng.choice(COMP_KEYS) % counter[0]

    def move(section, obj):
        key = (section, json.dumps(obj, sort_keys=True))
        if share and key in moved and rng.random() < 0.7:
            return moved[key]
        name = fresh()
        comps.setdefault(section, {})[name] = obj
        moved[key] = name
        return name

    for pos in chosen:
        kind, path, m, idx = pos
        holder = d["paths"][path] if m is None else d["paths"][path][m]
        if kind == "param":
            name = move("parameters", holder["parameters"][idx])
            holder["parameters"][idx] = {"$ref": "#/components/parameters/" + name}
        elif kind == "response":
            name = move("responses", holder["responses"][idx])
            holder["responses"][idx] = {"$ref": "#/components/responses/" + name}
        else:
            name = move("requestBodies", holder["requestBody"])
            k = rng.randint(0, chain_max - 1)
            for _ in range(k):          # a chain of body references in front of the body
                n2 = fresh()
                comps["requestBodies"][n2] = {"$ref": "#/components/requestBodies/" + name}
                name = n2
            holder["requestBody"] = {"$ref": "#/components/requestBodies/" + name}
    # declaration order of the component sections must not matter: shuffle them
    for sec in ("parameters", "responses", "requestBodies"):
        if sec in comps:
            ks = list(comps[sec])
            rng.shuffle(ks)
            comps[sec] = {k: comps[sec][k] for k in ks}
    return d


def noschema_positions(doc, chosen):
    """chosen parameter positions whose component has no `schema` (known finding param_ref_no_schema)"""
    out = []
    for kind, path, m, idx in chosen:
        if kind == "param":
            holder = doc["paths"][path] if m is None else doc["paths"][path][m]
            if "schema" not in holder["parameters"][idx]:
                out.append((kind, path, m, idx))
    return out


def same_but_orphans(expected, got):
    """`got` is `expected` plus at most: orphan model modules (and their listing in models/__init__.py) and empty tag packages - what a dropped
    endpoint / response leaves behind (the statement allows index files to list additional names)"""
    for k, v in expected.items():
        if k != "models/__init__.py" and got.get(k) != v:
            return False
    for k in got:
        if k not in expected and not (k.startswith("models/") or re.fullmatch(r"api/[^/]+/__init__\.py", k)):
            return False
    return True


def first_diff(fa, fb):
    for k in sorted(set(fa) | set(fb)):
        if fa.get(k) != fb.get(k):
            return k
    return None


def work_meta(args):
    """one inline document and `nrew` rewritings of it; returns plain data"""
    seed, nrew, hostile = args
    rng = random.Random(seed)
    doc = gen_ops_doc(rng, hostile)
    out = {"seed": seed, "doc": doc, "cases": [], "error": None}
    try:
        with impl.Gen(doc) as g0:
            if g0.exc is not None:
                out["error"] = "generate raised on the inline document: " + repr(g0.exc)
                return out
            f0, d0 = g0.files(), sorted(g0.diag())
        pos = positions(doc)
        for ri in range(nrew):
            if not pos:
                break
            k = len(pos) if ri == 0 else rng.randint(1, len(pos))
            chosen = rng.sample(pos, k)
            d1 = rewrite(doc, chosen, rng)
            with impl.Gen(d1) as g1:
                case = {"positions": chosen, "n_positions": len(pos), "doc_ref": d1, "exc": repr(g1.exc) if g1.exc is not None else None}
                f1, dg1 = g1.files(), sorted(g1.diag())
            case["first_diff"] = first_diff(f0, f1)
            case["endpoint_diff"] = bool(case["first_diff"]) and any(k.startswith("api/") and f0.get(k) != f1.get(k) for k in set(f0) | set(f1))
            case["diag_same"] = [(a, b) for a, b, c in d0] == [(a, b) for a, b, c in dg1] and len(d0) == len(dg1)
            case["diag_inline"], case["diag_ref"] = [list(x) for x in d0][:6], [list(x) for x in dg1][:6]
            case["noschema"] = noschema_positions(doc, chosen)
            if case["noschema"] and case["first_diff"] is not None:
                # the finding explains exactly this: every operation that uses such a parameter by reference is dropped, nothing else changes
                d2 = copy.deepcopy(doc)
                for _, path, m, _ in case["noschema"]:
                    for mm in ([m] if m is not None else [x for x in list(d2["paths"][path]) if x != "parameters"]):
                        d2["paths"][path].pop(mm, None)
                with impl.Gen(d2) as g2:
                    f2 = g2.files()
                case["noschema_explains"] = same_but_orphans(f2, f1)
            case["n_endpoint_modules"] = sum(1 for k in f0 if k.startswith("api/") and not k.endswith("__init__.py"))
            out["cases"].append(case)
    except BaseException as e:  # noqa
        import traceback
        out["error"] = "harness worker: " + repr(e) + traceback.format_exc()[-800:]
    return out


def stage_c_meta(run, tier, replay_docs=None):
    rng = run.rng
    ndocs = 70 if tier == "quick" else 700
    jobs = [(rng.randrange(1 << 30), 3 if tier == "quick" else 4, i % 8 == 7) for i in range(ndocs)]
    with cf.ProcessPoolExecutor(max_workers=14) as ex:
        results = list(ex.map(work_meta, jobs, chunksize=2))
    for r in results:
        if r["error"]:
            run.violation("harness-or-generator", {"seed": r["seed"], "error": r["error"], "doc": r["doc"]})
            continue
        for c in r["cases"]:
            kinds = sorted({p[0] for p in c["positions"]})
            run.note_case({"doc_seed": r["seed"], "positions": c["positions"]}, nontrivial=c["n_endpoint_modules"] > 0, kind="rewrite:" + "+".join(kinds))
            if c["exc"]:
                run.violation("oracle", {"doc": r["doc"], "rewritten_positions": c["positions"], "doc_ref": c["doc_ref"], "note": "generation of the by-reference document raised " + c["exc"]})
                continue
            if c["first_diff"] is None and c["diag_same"]:
                continue
            if c["noschema"] and c.get("noschema_explains"):
                if run.known_finding("param_ref_no_schema", "parameter without `schema` (described by `content`) at %s: written inline it is skipped silently, referenced from components/parameters "
                                     "the endpoint is dropped (first differing file %s)" % (c["noschema"][0], c["first_diff"])):
                    continue
            run.violation("oracle", {"doc": r["doc"], "rewritten_positions": c["positions"], "doc_ref": c["doc_ref"], "first_differing_file": c["first_diff"], "endpoint_module_differs": c["endpoint_diff"],
                                     "diagnostics_inline": c["diag_inline"], "diagnostics_by_reference": c["diag_ref"],
                                     "note": "inline and by-reference documents generate different " + ("endpoint code" if c["endpoint_diff"] else "output (non-endpoint file or diagnostics)")})


# ====================================================================================================================
# stage C (3): malformed / dangling / remote / circular references at every position kind
# ====================================================================================================================
def _ok(schema=None, desc="ok"):
    r = {"description": desc}
    if schema is not None:
        r["content"] = {"application/json": {"schema": schema}}
    return r


MAL_KINDS = ["param-op", "param-item", "body", "response", "param-schema", "body-schema", "response-schema", "property", "items", "union-member", "additional", "allof-member"]
MAL_SECTION = {"param-op": "parameters", "param-item": "parameters", "body": "requestBodies", "response": "responses"}


def malformed_docs(kind, ref):
    """(document with `ref` at the position, document with the user of that position - and its dependants - deleted)"""
    S = copy.deepcopy(BASE_SCHEMAS)
    comps = {"schemas": S,
             "parameters": {"Q": {"name": "q", "in": "query", "schema": {"type": "string"}}, "Pid": {"name": "id", "in": "path", "required": True, "schema": {"type": "integer"}}},
             "requestBodies": {"B": {"content": {"application/json": {"schema": {"$ref": SREF + "Pet"}}}}},
             "responses": {"R": _ok({"$ref": SREF + "Pet"})}}
    R = {"$ref": ref}
    paths = {
        "/g": {"get": {"operationId": "unrelatedG", "tags": ["alpha"], "parameters": [{"$ref": "#/components/parameters/Q"}], "responses": {"200": {"$ref": "#/components/responses/R"}}},
               "post": {"operationId": "unrelatedP", "tags": ["beta"], "requestBody": {"$ref": "#/components/requestBodies/B"}, "responses": {"200": _ok({"$ref": SREF + "Tag"})}}},
    }
    dele = None
    if kind == "param-op":
        paths["/a"] = {"get": {"operationId": "victim", "tags": ["alpha"], "parameters": [{"name": "z", "in": "query", "schema": {"type": "integer"}}, R], "responses": {"200": _ok({"$ref": SREF + "Err"})}},
                       "put": {"operationId": "sibling", "tags": ["alpha"], "responses": {"200": _ok()}}}
        dele = lambda d: d["paths"]["/a"].pop("get")
    elif kind == "param-item":
        paths["/a/{id}"] = {"parameters": [R], "get": {"operationId": "victim", "tags": ["alpha"], "parameters": [{"$ref": "#/components/parameters/Pid"}], "responses": {"200": _ok({"$ref": SREF + "Err"})}},
                            "delete": {"operationId": "victim2", "tags": ["beta"], "parameters": [{"$ref": "#/components/parameters/Pid"}], "responses": {"204": _ok()}}}
        dele = lambda d: d["paths"].pop("/a/{id}")
    elif kind == "body":
        paths["/a"] = {"post": {"operationId": "victim", "tags": ["alpha"], "requestBody": R, "responses": {"200": _ok({"$ref": SREF + "Err"})}}}
        dele = lambda d: d["paths"].pop("/a")
    elif kind == "response":
        paths["/a"] = {"get": {"operationId": "victim", "tags": ["alpha"], "responses": {"200": R, "404": _ok({"$ref": SREF + "Err"}, "nf")}}}
        dele = lambda d: d["paths"]["/a"]["get"]["responses"].pop("200")
    elif kind == "param-schema":
        paths["/a"] = {"get": {"operationId": "victim", "tags": ["alpha"], "parameters": [{"name": "k", "in": "query", "schema": R}], "responses": {"200": _ok()}}}
        dele = lambda d: d["paths"].pop("/a")
    elif kind == "body-schema":
        paths["/a"] = {"post": {"operationId": "victim", "tags": ["alpha"], "requestBody": {"content": {"application/json": {"schema": R}}}, "responses": {"200": _ok()}}}
        dele = lambda d: d["paths"].pop("/a")
    elif kind == "response-schema":
        paths["/a"] = {"get": {"operationId": "victim", "tags": ["alpha"], "responses": {"200": _ok(R), "404": _ok({"$ref": SREF + "Err"}, "nf")}}}
        dele = lambda d: d["paths"]["/a"]["get"]["responses"].pop("200")
    else:
        holder = {"property": {"type": "object", "properties": {"h": R, "n": {"type": "integer"}}},
                  "items": {"type": "object", "properties": {"l": {"type": "array", "items": R}}},
                  "union-member": {"type": "object", "properties": {"u": {"anyOf": [R, {"type": "integer"}]}}},
                  "additional": {"type": "object", "additionalProperties": R},
                  "allof-member": {"allOf": [R, {"type": "object", "properties": {"extra": {"type": "string"}}}]}}[kind]
        S["Holder"] = holder
        S["User"] = {"type": "object", "properties": {"holder": {"$ref": SREF + "Holder"}, "w": {"type": "string"}}}      # a dependant of the holder
        paths["/a"] = {"get": {"operationId": "victim", "tags": ["alpha"], "responses": {"200": _ok({"$ref": SREF + "Holder"}), "404": _ok({"$ref": SREF + "Err"}, "nf")}}}
        paths["/u"] = {"get": {"operationId": "victimUser", "tags": ["beta"], "responses": {"200": _ok({"$ref": SREF + "User"}), "404": _ok({"$ref": SREF + "Err"}, "nf")}}}

        def dele(d):
            d["components"]["schemas"].pop("Holder")
            d["components"]["schemas"].pop("User")
            d["paths"]["/a"]["get"]["responses"].pop("200")
            d["paths"]["/u"]["get"]["responses"].pop("200")
    doc = {"openapi": "3.1.0", "info": {"title": "t", "version": "1"}, "paths": paths, "components": comps}
    deleted = copy.deepcopy(doc)
    dele(deleted)
    return doc, deleted


def mal_forms(kind):
    sec = MAL_SECTION.get(kind, "schemas")
    name = {"parameters": "Q", "requestBodies": "B", "responses": "R", "schemas": "Pet"}[sec]
    forms = bad_ref_forms(sec, name)
    if sec != "schemas":
        forms.append(("circular", f"#/components/{sec}/Loop"))
    elif kind == "allof-member":
        forms.append(("self", "#/components/schemas/Holder"))     # (a self reference in a property / item position is legitimate recursion)
    return sec, name, forms


def work_mal_ref(kind):
    """per position kind: output of the canonical-reference document and of the document without the item"""
    sec, name, _ = mal_forms(kind)
    good, deleted = malformed_docs(kind, f"#/components/{sec}/{name}")
    with impl.Gen(deleted) as gd:
        fd, dd = gd.files(), gd.diag()
    with impl.Gen(good) as gg:
        fg, dg = gg.files(), gg.diag()
    return kind, (fd, dd, fg, dg)


def work_mal(args):
    kind, label, ref, (fd, dd, fg, dg) = args
    out = {"kind": kind, "label": label, "ref": ref, "error": None}
    try:
        sec, name, _ = mal_forms(kind)
        bad, deleted = malformed_docs(kind, ref)
        if label == "circular":
            bad["components"][sec]["Loop"] = {"$ref": f"#/components/{sec}/Loop2"}
            bad["components"][sec]["Loop2"] = {"$ref": f"#/components/{sec}/Loop"}
        out["doc"], out["doc_deleted"] = bad, deleted
        with impl.Gen(bad) as gb:
            fb, db, eb = gb.files(), gb.diag(), gb.exc
        out["exc"] = repr(eb) if eb is not None else None
        out["n_diag_bad"], out["n_diag_deleted"], out["n_diag_good"] = len(db), len(dd), len(dg)
        out["diag_bad"] = [list(x) for x in db][:5]
        out["contained"] = same_but_orphans(fd, fb)
        out["first_diff_vs_deleted"] = next((k for k in sorted(set(fb) | set(fd)) if fb.get(k) != fd.get(k) and not (k.startswith("models/") and k not in fd) and k != "models/__init__.py"), None)
        out["same_as_canonical"] = fb == fg and [(a, b) for a, b, c in db] == [(a, b) for a, b, c in dg]
    except BaseException as e:  # noqa
        import traceback
        out["error"] = repr(e) + traceback.format_exc()[-600:]
    return out


def stage_c_malformed(run, tier):
    with cf.ProcessPoolExecutor(max_workers=14) as ex:
        base = dict(ex.map(work_mal_ref, MAL_KINDS))
        jobs = []
        for kind in MAL_KINDS:
            _, _, forms = mal_forms(kind)
            for label, ref in forms:
                jobs.append((kind, label, ref, base[kind]))
        results = list(ex.map(work_mal, jobs, chunksize=3))
    # the model's verdict on each reference string (guards of the C20 theorems), evaluated inside Coq
    gterms = []
    for r in results:
        c = cstr(r["ref"])
        gterms += [f"g_no_authority {c}", f"g_body_ref_local {c}", f"g_single_segment {c}", f"match parse_reference_path {c} with PRCrash => false | _ => true end",
                   f"match parse_reference_path {c} with PROk _ => true | _ => false end"]
    false_idx = set(run_cases(HDR, gterms, shard=400))
    for ri, r in enumerate(results):
        g = {n: (ri * 5 + j) not in false_idx for j, n in enumerate(["no_authority", "body_local", "single_segment", "no_crash", "accepted"])}
        case = {"position": r["kind"], "form": r["label"], "ref": r["ref"]}
        run.note_case(case, nontrivial=True, kind="malformed:" + r["kind"])
        if r["error"]:
            run.violation("harness-or-generator", {**case, "error": r["error"]})
            continue
        payload = {**case, "doc": r["doc"], "doc_deleted": r["doc_deleted"], "diagnostics": r["diag_bad"], "first_differing_file": r["first_diff_vs_deleted"], "exception": r["exc"]}
        if r["exc"] is not None:
            if not g["no_crash"] and r["kind"] != "body" and run.known_finding("ref_urlparse_crash", f"$ref {r['ref']!r} at position {r['kind']}: {r['exc']} escapes generate() (the model's parse_reference_path = PRCrash)"):
                continue
            run.violation("oracle", {**payload, "note": "generation raised instead of reporting a diagnostic for the bad reference"})
            continue
        if r["contained"] and r["n_diag_bad"] > r["n_diag_deleted"]:
            continue          # diagnostic for the user of the reference, everything else as if the item were not there
        if r["same_as_canonical"]:
            # the malformed reference resolved silently, exactly like the canonical one: which listed defect class is it?
            fid = None
            if r["kind"] == "body" and not g["body_local"]:
                fid = "body_ref_prefix_ignored"
            elif r["kind"] != "body" and g["accepted"] and not g["no_authority"]:
                fid = "ref_netloc_ignored"
            elif r["kind"] == "response" and g["accepted"] and not g["single_segment"]:
                fid = "response_ref_segments_ignored"
            if fid and run.known_finding(fid, f"$ref {r['ref']!r} ({r['label']}) at position {r['kind']} resolves silently to the local component (output identical to the canonical reference, no diagnostic)"):
                continue
        run.violation("oracle", {**payload, "guards": g, "note": "malformed reference: " + ("no diagnostic" if r["n_diag_bad"] <= r["n_diag_deleted"] else "diagnostic present but other modules differ from the document without the item")})


def stage_b(run, tier):
    terms, meta = [], []
    for f in (stage_b_refstrings, stage_b_bodies, stage_b_params, stage_b_responses):
        t, m = f(run, tier)
        terms += t
        meta += m
    bad = run_cases(HDR, terms, shard=300)
    run.corr = {"cases": len(terms), "mismatches": len(bad),
                "what": "parse_reference_path / get_reference_simple_name, bodies._resolve_reference, build_parameters (table with ALL fields of every registered Parameter, error counts), "
                        "Endpoint.from_data + add_parameters (per-location (name, required, schema) sequences or error class), response_from_data reference case == coq/Refs.v"}
    for i in bad[:8]:
        mv = coq_eval(HDR, terms[i].split(" && ")[0].replace("pref_eqb (", "(", 1) if meta[i]["fn"] == "parse_reference_path" else "0")
        run.violation("correspondence", {**meta[i], "term": terms[i][:1500], "model": mv[-400:], "note": "the implementation no longer behaves like coq/Refs.v, about which the C20 theorems are proved"})
    return bad


def run(run, tier, replay=None):
    if os.environ.get("C20_SKIP_B") != "1":
        stage_b(run, tier)
    stage_c_meta(run, tier)
    stage_c_malformed(run, tier)
