"""C01 — every generated client is a valid, importable Python package (aggregator; partial).
Stage A carries the ingredients (identifier validity, safe interpolation sites, attrs field order, name closure of every kind in
every position on regenerated probe packages). Stage B: the set of files written == Fs.gen_files on the module/tag names the
parser produced (so every relative import has a file to land on). Stage C (search; CPython's grammar is not modelled):
compile() every .py, static name resolution, import every module in a fresh interpreter, tomllib on pyproject.toml."""
import json, random, re, warnings, tomllib, concurrent.futures as cf
from lib.common import cstr, run_cases, coq_eval
from lib import impl, pyscope
from gen import schemas as G
from gen import ops as OPS
from props import c19

HDR = "Require Import OPC.Uni OPC.Names OPC.Fs.\nOpen Scope N_scope.\nDefinition same_paths (a b : list path) : bool := forallb (fun p => mem_path p b) a && forallb (fun p => mem_path p a) b.\n"

# identifier-hostile but quote-free alphabet (the property's domain)
WORDS = ["user", "Pet", "order item", "2fa", "class", "import", "None", "list", "type", "id", "étoile", "Größe", "naïve-bayes", "x.y", "a b c", "HTTPResponse", "getURL2",
         "__init__", "_private", "api", "models", "client", "types", "errors", "self", "cls", "json", "datetime", "Any", "Union", "match", "case", "日本", "ÅÄÖ", "snake_case",
         "kebab-case", "dot.ted", "9lives", "-lead", "trail-", "MixedCASEName", "x", "T", "Unset", "File", "Response", "field", "définition",
         "Client", "URL", "Url", "CLIENT", "Body", "Kwargs", "2fa_verify", "$$", "Import", "Self"]
XID_GAP = ["a²", "½cup"]          # \w but not XID_Continue: known finding xid_gap


def hostile_name(rng, allow_gap=False):
    if allow_gap and rng.random() < 0.05:
        return rng.choice(XID_GAP)
    w = rng.choice(WORDS)
    r = rng.random()
    if r < 0.2:
        w = w + rng.choice([" ", "-", ".", "_"]) + rng.choice(WORDS)
    elif r < 0.3:
        w = w.upper()
    elif r < 0.4:
        w = str(rng.randint(0, 99)) + w
    return w


def hostile_doc(rng, allow_gap):
    """a valid document whose every name comes from the hostile alphabet; names within one scope are kept snake-distinct"""
    from openapi_python_client import utils
    def distinct(n, key=lambda s: utils.snake_case(utils.sanitize(s)).lower()):
        out, seen = [], set()
        tries = 0
        while len(out) < n and tries < 200:
            tries += 1
            c = hostile_name(rng, allow_gap)
            k = key(c)
            if k and k not in seen:
                seen.add(k)
                out.append(c)
        return out
    snames = distinct(rng.randint(3, 6), key=lambda s: str(utils.ClassName(s, "")).lower())
    S = {}
    for i, sn in enumerate(snames):
        if i == 0:
            S[sn] = {"type": "string", "enum": distinct(3)}
            continue
        props = {}
        for pn in distinct(rng.randint(1, 5)):
            props[pn] = rng.choice([{"type": "string"}, {"type": "integer"}, {"type": "string", "format": "date"}, {"$ref": G.REF + snames[0]},
                                    {"$ref": G.REF + rng.choice(snames[1:])}, G.arr({"$ref": G.REF + rng.choice(snames[1:])}),
                                    G.any_of({"$ref": G.REF + rng.choice(snames[1:])}, G.NULL), {"type": "number", "default": 1.5},
                                    G.obj({hostile_name(rng): {"type": "boolean"}})])
        S[sn] = G.obj(props, required=[p for p in props if rng.random() < 0.4], addl=rng.choice(["absent", True, False]))
    paths = {}
    oids = distinct(rng.randint(2, 4))
    for i, oid in enumerate(oids):
        pnames = distinct(rng.randint(0, 2))
        path = "/r%d" % i + "".join("/{%s}" % p for p in pnames if "{" not in p and "}" not in p and "/" not in p)
        params = [OPS.P(p, "path", {"type": "string"}) for p in pnames]
        for q in distinct(rng.randint(0, 3)):
            if q not in pnames:
                params.append(OPS.P(q, rng.choice(["query", "header", "cookie"]), rng.choice([{"type": "string"}, {"type": "integer"}, {"$ref": G.REF + snames[0]}]), rng.random() < 0.5))
        body = {"content": {"application/json": {"schema": {"$ref": G.REF + rng.choice(snames[1:])}}}} if rng.random() < 0.5 else None
        o = OPS.op(oid, params, body, {"200": {"description": "d", "content": {"application/json": {"schema": {"$ref": G.REF + rng.choice(snames[1:])}}}}, "404": {"description": "n"}},
                   tags=[hostile_name(rng)])
        paths[path] = {rng.choice(["get", "post", "put"]): o}
    return {"openapi": "3.1.0", "info": {"title": hostile_name(rng) + " API", "version": "1.0", "description": "d"}, "paths": paths, "components": {"schemas": S}}


def broken_docs():
    """valid documents with ONE piece that fails model processing (warning) and dependants through every recorded edge kind:
    nothing that remains may refer to what was removed"""
    R = G.REF
    bad_pieces = {
        "allof_non_object": {"allOf": [{"$ref": R + "Colour"}, {"type": "object", "properties": {"x": {"type": "string"}}}]},
        "array_no_items": {"type": "object", "properties": {"bad": {"type": "array"}}},
        "bad_default": {"type": "object", "properties": {"n": {"type": "integer", "default": "not a number"}}},
        "dangling_ref": {"type": "object", "properties": {"z": {"$ref": R + "Nowhere"}}},
    }
    docs = []
    for label, piece in bad_pieces.items():
        S = {"Colour": {"type": "string", "enum": ["red", "green"]}, "Base": piece,
             "Holder": G.obj({"one": {"$ref": R + "Base"}}), "Basket": G.obj({"many": G.arr({"$ref": R + "Base"})}),
             "Bag": G.obj({"k": {"type": "string"}}, addl={"$ref": R + "Base"}), "Nested": G.obj({"deep": G.arr(G.arr({"$ref": R + "Base"}))}),
             "Child": {"allOf": [{"$ref": R + "Holder"}, G.obj({"extra": {"type": "integer"}})]}, "Far": G.obj({"h": {"$ref": R + "Holder"}, "b": {"$ref": R + "Basket"}}),
             "Fine": G.obj({"c": {"$ref": R + "Colour"}, "ok": {"type": "string"}})}
        paths = {"/fine": {"get": OPS.op("get_fine", responses={"200": {"description": "d", "content": {"application/json": {"schema": {"$ref": R + "Fine"}}}}})},
                 "/far": {"get": OPS.op("get_far", responses={"200": {"description": "d", "content": {"application/json": {"schema": {"$ref": R + "Far"}}}}})},
                 "/basket": {"post": OPS.op("post_basket", body={"content": {"application/json": {"schema": G.arr({"$ref": R + "Basket"})}}})}}
        docs.append((f"broken_{label}", {"openapi": "3.1.0", "info": {"title": "t", "version": "1"}, "paths": paths, "components": {"schemas": S}}))
    return docs


SIG_HDR = "Require Import OPC.Uni OPC.Signature.\nFrom Coq Require Import NArith List Bool. Import ListNotations. Open Scope N_scope.\n"


def csp(l):
    return "[" + "; ".join("{| sp_name := %s; sp_default := %s |}" % (cstr(n), "true" if d else "false") for n, d in l) + "]"


def signature_terms(r):
    """[(term, info)] for one tree"""
    out = []
    for sg in r.get("sigs", []):
        sp = sg["spec"]
        e = "{| e_path := %s; e_body := %s; e_rest := %s |}" % (csp(sp["path"]), "true" if sp["body"] else "false", csp(sp["rest"]))
        if sg["compiles"]:
            for fn, d in sg["defs"].items():
                b = "false" if fn == "_get_kwargs" else "true"
                obs = "{| positional := %s; star := %s; kwonly := %s |}" % (csp(d["pos"]), "true" if d["kwonly"] else "false", csp(d["kwonly"]))
                out.append((f"sig_eqb (sig_of {e} {b}) {obs} && negb {'true' if d['vararg'] else 'false'}", {"label": r["label"], "op": sg["op"], "def": fn, "observed": d, "spec": sp}))
            out.append((f"py_valid (sig_of {e} false) && py_valid (sig_of {e} true)", {"label": r["label"], "op": sg["op"], "def": "compiles", "spec": sp}))
        elif sg.get("syntax_msg", "").startswith(("parameter without a default follows", "duplicate argument", "named arguments must follow bare")):
            out.append((f"negb (py_valid (sig_of {e} false) && py_valid (sig_of {e} true))", {"label": r["label"], "op": sg["op"], "def": "rejected: " + sg["syntax_msg"], "spec": sp}))
    return out


def names_in(doc):
    out = []
    def walk(x, key=None):
        if isinstance(x, dict):
            for k, v in x.items():
                if key in ("properties", "schemas", "paths") or k in ():
                    out.append(k)
                walk(v, k)
        elif isinstance(x, list):
            for v in x:
                walk(v, key)
        elif isinstance(x, str) and key in ("name", "operationId", "title", "enum", "tags"):
            out.append(x)
    walk(doc)
    return out


def has_xid_gap(doc):
    for n in names_in(doc):
        for ch in n:
            if re.match(r"\w", ch) and not ("a" + ch).isidentifier():
                return n
    return None


def work(args):
    label, doc, meta, cfg, seed = args
    out = {"label": label, "doc": doc, "meta": meta, "cfg": cfg, "error": None, "problems": [], "files": 0, "skipped": None}
    try:
        with impl.Gen(doc, meta=meta, cfg=cfg) as g:
            if g.exc is not None:
                out["error"] = "generate raised " + repr(g.exc)
                return out
            if g.has_error_level():
                out["skipped"] = "error-level diagnostic: the document is not accepted"
                return out
            out["diag"] = [d[1] + ": " + str(d[2])[:160] for d in g.diag()]
            files = g.files()
            data, _cfg = impl.parse_doc(doc, cfg=cfg)
            from lib import epwork
            out["bad_param_names"] = sorted({n for _m, _t, ep in epwork.endpoints_of(data, _cfg) for n in epwork.non_identifier_params(ep)})
            # signatures: what Signature.sig_of predicts from the parsed endpoint vs the ast of the generated defs
            import ast as _ast
            sigs = []
            hasd = lambda p: (p.default is not None) or (not p.required)
            for module, tag, ep in epwork.endpoints_of(data, _cfg):
                rel = (("" if meta == "none" else None), module)
                fpath = next((f for f in files if f.endswith("/".join(module.split(".")) + ".py")), None)
                if fpath is None:
                    continue
                spec = {"path": [[str(p.python_name), hasd(p)] for p in ep.path_parameters], "body": bool(ep.bodies),
                        "rest": [[str(p.python_name), hasd(p)] for p in ep.query_parameters + ep.header_parameters + ep.cookie_parameters]}
                ent = {"file": fpath, "op": ep.name, "spec": spec, "defs": {}}
                src = files[fpath].decode("utf-8")
                try:
                    t = _ast.parse(src)
                    compile(src, fpath, "exec")          # duplicate argument names are only rejected by the compiler proper, not by the parser
                    for n in t.body:
                        if isinstance(n, (_ast.FunctionDef, _ast.AsyncFunctionDef)) and n.name in ("_get_kwargs", "sync_detailed", "sync", "asyncio_detailed", "asyncio"):
                            a = n.args
                            nd = len(a.defaults)
                            pos = [[x.arg, i >= len(a.args) - nd] for i, x in enumerate(a.posonlyargs + a.args)]
                            kwo = [[x.arg, d is not None] for x, d in zip(a.kwonlyargs, a.kw_defaults)]
                            ent["defs"][n.name] = {"pos": pos, "kwonly": kwo, "vararg": a.vararg is not None or a.kwarg is not None}
                    ent["compiles"] = True
                except SyntaxError as e:
                    ent["compiles"] = False
                    ent["syntax_msg"] = e.msg
                sigs.append(ent)
            out["sigs"] = sigs
            mods = {}
            _models, _enums = list(data.models), list(data.enums)      # generators: consume once
            for m in _models + _enums:
                mods.setdefault(str(m.class_info.module_name), set()).add(str(m.class_info.name))
            out["module_collisions"] = sorted([k, sorted(v)] for k, v in mods.items() if len(v) > 1)
            out["class_names"] = sorted({str(m.class_info.name) for m in _models} | {str(e.class_info.name) for e in _enums})
            out["paths"] = sorted(files)
            out["files"] = len(files)
            # the model's prediction of the file set
            models, tags, pkg = c19.doc_record(doc, meta) if cfg is None else (None, None, None)
            if models is not None:
                out["cdoc"] = c19.cdoc(models, tags)
                out["pkg"] = pkg
            from lib.common import VERIF
            import sys, os
            sys.path.insert(0, str(VERIF / "harness" / "translate"))
            import gen_closed
            for f, probs in gen_closed.analyse(files):
                for p in probs:
                    out["problems"].append({"file": f, "kind": "syntax" if p == "<syntax>" else "names", "what": p})
            for f, b in files.items():
                if f.endswith(".py"):
                    with warnings.catch_warnings(record=True) as w:
                        warnings.simplefilter("always")
                        try:
                            compile(b.decode("utf-8"), f, "exec")
                        except SyntaxError as e:
                            out["problems"].append({"file": f, "kind": "syntax", "what": f"{e.msg} (line {e.lineno}): {(e.text or '').strip()[:120]}"})
                        for x in w:
                            if issubclass(x.category, SyntaxWarning):
                                out["problems"].append({"file": f, "kind": "syntaxwarning", "what": str(x.message) + f" (line {x.lineno})",
                                                        "line": b.decode("utf-8").splitlines()[x.lineno - 1].strip()[:160]})
                elif f.endswith("pyproject.toml"):
                    try:
                        tomllib.loads(b.decode("utf-8"))
                    except Exception as e:
                        out["problems"].append({"file": f, "kind": "toml", "what": str(e)[:200]})
            # import every module in a fresh interpreter
            pkgdir = g.out if meta == "none" else next((p for p in g.out.iterdir() if p.is_dir() and (p / "__init__.py").exists()), None)
            if pkgdir is None:
                out["problems"].append({"file": "", "kind": "layout", "what": "no package directory"})
            else:
                res = impl.run_client(pkgdir, [{"op": "import_all"}], timeout=300)
                if isinstance(res, dict):
                    out["problems"].append({"file": "", "kind": "import", "what": res.get("fatal", "")[-400:]})
                elif "failed" not in res[0]:
                    out["problems"].append({"file": "", "kind": "import", "what": json.dumps(res[0])[-500:]})
                else:
                    for m, e in res[0]["failed"].items():
                        out["problems"].append({"file": m, "kind": "import", "what": f"{e['type']}: {e['msg'][:200]}"})
                    out["imported"] = res[0]["imported"]
    except BaseException as e:  # noqa
        import traceback
        out["error"] = "harness worker: " + repr(e) + traceback.format_exc()[-1200:]
    return json.loads(json.dumps(out, default=str))


_TEMPLATE_MODULE_NAMES = None


def template_module_names():
    """names bound at module level by the model / endpoint module templates themselves (regenerated from a neutral document)"""
    global _TEMPLATE_MODULE_NAMES
    if _TEMPLATE_MODULE_NAMES is None:
        import ast
        neutral = OPS.doc({"/zq": {"post": OPS.op("zq_op", [OPS.P("zq_p", "query", {"type": "string"}, False)],
                                                  {"content": {"application/json": {"schema": {"$ref": G.REF + "Item"}}}},
                                                  {"200": {"description": "d", "content": {"application/json": {"schema": {"$ref": G.REF + "Other"}}}}})}})
        names = set()
        with impl.Gen(neutral) as g:
            for f, b in g.files().items():
                if f.endswith(".py") and (f.startswith("models/") or f.startswith("api/")) and not f.endswith("__init__.py"):
                    t = ast.parse(b.decode())
                    names |= pyscope._module_bound(t, set()) | pyscope._type_checking_names(t)
        _TEMPLATE_MODULE_NAMES = names - {"Item", "Other", "Color", "Level"}
    return _TEMPLATE_MODULE_NAMES


def classify(run, r, prob):
    """known-finding class of a problem, decided from the document (narrow) - or None"""
    doc = r["doc"]
    captured = sorted(set(r.get("class_names", [])) & template_module_names())
    if captured and prob["kind"] in ("import", "names", "syntax"):
        return "class_name_capture", f"schema class name(s) {captured} equal names the module templates bind themselves"
    text = json.dumps(doc, ensure_ascii=False)
    what = prob["what"]
    if r.get("module_collisions") and prob["kind"] in ("names", "import"):
        return "module_collision_order", f"classes {r['module_collisions']} share one module file"
    if r.get("bad_param_names") and prob["kind"] in ("syntax", "import", "names"):
        return "raw_fallback", f"parameter python names {r['bad_param_names']} are not identifiers"
    for sg in r.get("sigs", []):
        names = [n for n, _d in sg["spec"]["path"] + sg["spec"]["rest"]]
        if sg["spec"]["body"] and "body" in names and prob["kind"] in ("syntax", "import") and \
                (sg["file"] == prob["file"] or sg["file"][:-3].replace("/", ".").endswith(prob["file"].split(".", 1)[-1]) or prob["kind"] == "import" and prob["file"] in ("", None)):
            return "capture_endpoint_function_args_body", f"operation {sg['op']} has a request body and a parameter whose python name is `body`: duplicate argument"
    gap = has_xid_gap(doc)
    if gap and prob["kind"] in ("syntax", "import", "names"):
        return "xid_gap", f"name {gap!r} contains a \\w character outside XID_Continue"
    if prob["kind"] in ("syntaxwarning", "syntax", "import") and ('"const"' in text) and re.search(r"!= \S+and not isinstance", prob.get("line", "") + what) :
        return "const_optional_syntax", what
    if prob["kind"] == "syntaxwarning" and "invalid decimal literal" in what and "and not isinstance" in prob.get("line", ""):
        return "const_optional_syntax", prob.get("line", "")
    return None, None


def run(run, tier, replay=None):
    rng = run.rng
    jobs = []
    base = [(l, d) for l, d in G.atlas_docs() if l in ("leaves", "models", "triples", "allof", "unions0", "unions2")] + OPS.atlas_docs()
    metas = ["none", "poetry"] if tier == "quick" else ["none", "poetry", "pdm", "setup"]
    for l, d in base:
        for meta in (metas if l in ("models", "paths") else ["none"]):
            jobs.append((f"{l}/{meta}", d, meta, None, 0))
    for l, d in base[:3] + base[-2:]:
        jobs.append((f"{l}/literal", d, "none", {"literal_enums": True}, 0))
        jobs.append((f"{l}/docattr", d, "none", {"docstrings_on_attributes": True}, 0))
    for l, d in broken_docs():
        jobs.append((l, d, "none", None, 0))
    for i, cfg in enumerate(G.RESERVED_CFGS):
        jobs.append((f"reserved{i}", G.reserved_doc(), "none", cfg, 0))
    jobs.append(("enum_edge", G.enum_edge_doc(), "none", None, 0))
    jobs.append(("enum_edge+literal", G.enum_edge_doc(), "none", {"literal_enums": True}, 0))
    jobs.append(("builtin_names", G.builtin_names_doc(), "none", None, 0))
    jobs.append(("builtin_names+doca", G.builtin_names_doc(), "none", {"docstrings_on_attributes": True}, 0))
    nh = 24 if tier == "quick" else 300
    for i in range(nh):
        d = hostile_doc(random.Random(rng.randrange(1 << 30)), allow_gap=(i % 6 == 0))
        meta = metas[i % len(metas)]
        cfg = [None, None, {"literal_enums": True}, {"docstrings_on_attributes": True}][i % 4]
        jobs.append((f"hostile{i}/{meta}", d, meta, cfg, 0))
    nr = 6 if tier == "quick" else 60
    for i in range(nr):
        jobs.append((f"rand{i}", G.random_doc(random.Random(rng.randrange(1 << 30)), n_models=rng.randint(3, 7), depth=rng.randint(1, 3)), "none", None, 0))
        jobs.append((f"orand{i}", OPS.random_doc(random.Random(rng.randrange(1 << 30)), n_ops=rng.randint(3, 6)), metas[i % len(metas)], None, 0))
    if replay:
        rp = json.load(open(replay))
        jobs = [(v.get("label", "replay"), v["doc"], v.get("meta", "none"), v.get("cfg"), 0) for v in rp["violations"] if "doc" in v][:6]
    run.rule = ("documents: schema atlas + operation atlas x metadata flavours x literal_enums / docstrings_on_attributes, random schema graphs and operations, and documents whose every "
                "name (schemas, properties, enum values, operationIds, tags, parameters, title) is drawn from an identifier-hostile quote-free alphabet (spaces, dashes, dots, leading digits, "
                "keywords, builtins, template-internal names, mixed case, non-ASCII letters). A case = one generated tree that the generator accepted (no error-level diagnostic): file set "
                "vs Fs.gen_files; compile() of every .py; static name resolution + relative imports; import of every module in a fresh interpreter; tomllib on pyproject.toml. "
                "non-trivial = the tree has at least one model or endpoint module; distinct by hash of (document, flavour, switches).")
    with cf.ProcessPoolExecutor(max_workers=14) as ex:
        results = list(ex.map(work, jobs))
    terms, meta_ = [], []
    FL = c19.FL
    for r in results:
        if r["error"]:
            cl = None
            if "generate raised" in r["error"]:
                run.violation("oracle", {"label": r["label"], "doc": r["doc"], "meta": r["meta"], "cfg": r["cfg"], "error": r["error"], "note": "generation crashed (also C06)"})
            else:
                run.violation("harness-error", {"label": r["label"], "error": r["error"]})
            continue
        if r["skipped"]:
            run.note_case({"label": r["label"], "skipped": r["skipped"]}, nontrivial=False, kind="rejected")
            continue
        run.note_case({"label": r["label"], "files": r["files"], "meta": r["meta"], "cfg": r["cfg"]}, nontrivial=r["files"] > 8, kind="tree/" + r["meta"])
        if r.get("cdoc"):
            obs = "[" + ";".join(c19.cpath(p) for p in r["paths"]) + "]"
            terms.append(f"same_paths (gen_files {FL[r['meta']]} {cstr(r['pkg'])} {r['cdoc']}) {obs}")
            meta_.append(r)
        seen = set()
        for prob in r["problems"]:
            cl, why = classify(run, r, prob)
            key = (cl, prob["file"])
            if cl and run.known_finding(cl, f"tree '{r['label']}': {prob['file']}: {prob['what'][:140]} [{why[:100]}]"):
                continue
            if key in seen:
                continue
            seen.add(key)
            run.violation("oracle", {"label": r["label"], "doc": r["doc"], "meta": r["meta"], "cfg": r["cfg"], "problem": prob,
                                     "note": "an accepted document produced a package that is not valid / importable / closed"})
    sterms = [t for r in results if not r["error"] and not r["skipped"] for t in signature_terms(r)]
    sbad = run_cases(SIG_HDR, [t for t, _ in sterms], shard=400) if sterms else []
    for i in sbad[:6]:
        info = sterms[i][1]
        rr = next(r for r in results if r["label"] == info["label"])
        run.violation("correspondence", {"label": info["label"], "doc": rr["doc"], "meta": rr["meta"], "cfg": rr["cfg"], "signature": info,
                                         "note": "the parameter list of a generated endpoint function is not Signature.sig_of (positional path parameters, `*` exactly when something follows, keyword-only rest), or Python's verdict on it differs from py_valid"})
    run.extra["signatures_compared"] = len(sterms)
    bad = run_cases(HDR, terms, shard=60)
    run.corr = {"cases": len(terms) + len(sterms), "mismatches": len(bad) + len(sbad), "what": "set of files written by Project.build == Fs.gen_files applied to the module and tag names the parser produced; parameter list of every generated endpoint def (ast) == Signature.sig_of, and compile verdict == Signature.py_valid"}
    for i in bad[:6]:
        r = meta_[i]
        run.violation("correspondence", {"label": r["label"], "doc": r["doc"], "meta": r["meta"], "observed_paths": r["paths"][:60],
                                         "model": coq_eval(HDR, f"gen_files {FL[r['meta']]} {cstr(r['pkg'])} {r['cdoc']}")[-1500:],
                                         "note": "the written file set differs from Fs.gen_files (a module name collision silently drops a file: see module_overwrite)"})
    run.extra["trees_checked"] = sum(1 for r in results if not r["error"] and not r["skipped"])
    run.extra["modules_imported"] = sum(r.get("imported", 0) for r in results)
    run.assumptions += ["CPython's grammar / import system are not modelled: compile() and import in a fresh interpreter are the search stage (stated partial)",
                        "harness/lib/pyscope.py static name resolution (pyflakes-like)", "the fresh interpreter has more than httpx/attrs/dateutil installed; only stdlib + these three are imported by generated code (checked by the name analysis: every import is stdlib, relative, or one of the three)"]
