"""C08 - a bad piece of the document never damages unrelated output.

Stage B (correspondence): the schema-graph machine of coq/Graph.v, run by vm_compute on the graph that harness/abstract_graph.py
extracts from a document, against the real build_schemas on the same document: keys of classes_by_reference and
classes_by_name, the error list in order as (phase, unit, category) with the removal lists of the details as sets, and the
whole `dependencies` relation.  Inputs: the exhaustive family of small graphs (gen/graphs.py: every node type x edge kind x
target x failure position), random graphs to 20 nodes with cycles / inline classes / name pressure, and the abstraction of the
atlas and of generated whole documents.  The abstraction's well-formedness (GraphThm's hypothesis wf_graph) is evaluated too.

Stage C (the property, on the implementation): for valid documents D and a bad piece b inserted at a position, generate D and
D+b and require: every module of D that is not the piece's owner or a dependant of it is byte-identical in D+b; D+b imports
module by module in a fresh interpreter and every surviving model executes from_dict/to_dict; every module that disappeared or
changed is named by a diagnostic.  Failures are classified by the Coq guards evaluated on the abstracted graph of D+b."""
from __future__ import annotations
import concurrent.futures as cf, copy, json, os, random, re, time
from lib.common import run_cases, coq_eval, REPO, VERIF
from lib import impl
import abstract_graph as AG
from gen import graphs as GG

HDR = "Require Import OPC.Graph.\nOpen Scope N_scope.\n"
_CFG = None


def cfg():
    global _CFG
    if _CFG is None:
        _, _CFG = impl.parse_doc({"openapi": "3.1.0", "info": {"title": "t", "version": "1"}, "paths": {}})
    return _CFG


# ====================================================================== stage B
def case_term(doc):
    """(coq term, abstraction, observation) for one document; raises if the implementation raises"""
    ab = AG.Abs(doc, cfg())
    ob = AG.observe(doc, cfg(), ab)
    g = ab.to_coq()
    return f"(let g := {g} in graph_case g {AG.c_obs(ob)} && wf_graph g)", ab, ob


def spec_of(job):
    kind = job[0]
    if kind == "fam":
        _, n, kinds, idx = job
        s = GG.family_spec(n, GG.OBJ_KINDS_FULL if kinds == "full" else GG.OBJ_KINDS_SMALL, idx)
        return (s, None) if s else None
    if kind == "rand":
        _, seed = job
        rng = random.Random(seed)
        n = rng.randint(2, 20)
        sp, nm = GG.random_spec(rng, n), GG.random_names(rng, n)
        if rng.random() < 0.4:
            sp, nm = GG.add_name_clashes(rng, sp, nm)
        if rng.random() < 0.4:
            nm = GG.prefix_names(rng, sp, nm)
        return sp, nm
    raise ValueError(kind)


def b_worker(jobs):
    """jobs: list of job tuples -> list of (job, term | None, note)"""
    out = []
    for job in jobs:
        try:
            if job[0] == "doc":
                doc = job[2]
            else:
                sp = spec_of(job)
                if sp is None:
                    continue
                doc = GG.doc_of(*sp)
            term, ab, ob = case_term(doc)
            if job[0] == "doc" and ab.imprecise:
                out.append((("doc", job[1]), None, "imprecise: " + ab.imprecise[0][:100]))     # the abstraction declines: no claim
                continue
            nerr = len(ob["errs"])
            nrem = sum(len(e[3]) for e in ob["errs"])
            out.append((job if job[0] != "doc" else ("doc", job[1]), term, (len(ab.nodes), nerr, nrem, bool(ab.imprecise))))
        except ValueError as e:      # duplicate enum keys: the implementation raises (finding enum_dup_crash, C06/C14): not a graph case
            out.append((job if job[0] != "doc" else ("doc", job[1]), None, "raises " + repr(e)[:120]))
    return out


def chunks(xs, k):
    for i in range(0, len(xs), k):
        yield xs[i:i + k]


def explain(job, docs_by_label):
    doc = docs_by_label[job[1]] if job[0] == "doc" else GG.doc_of(*spec_of(job))
    term, ab, ob = case_term(doc)
    g = ab.to_coq()
    model = coq_eval(HDR, f"let r := build_schemas {g} in (map fst (res_cbr r), map fst (res_cbn r), map (fun e => (er_create e, er_unit e, er_cat e, er_removed e)) (res_errs r), wf_graph {g})")
    return {"job": list(job) if job[0] != "doc" else ["doc", job[1]], "schemas": doc.get("components", {}).get("schemas"), "graph": g,
            "impl": {"cbr": ob["cbr"], "cbn": ob["cbn"], "errs": ob["errs"], "raw_errors": ob["raw"]}, "model": model[-1500:],
            "names": ab.names, "classes": ab.cls}


def stage_b(run, tier, rng):
    from gen import schemas as GS, docs as GD
    jobs = []
    full3 = GG.family_size(3, GG.OBJ_KINDS_FULL)
    for n in (1, 2):
        jobs += [("fam", n, "full", i) for i in range(GG.family_size(n, GG.OBJ_KINDS_FULL))]
    if tier == "quick":
        jobs += [("fam", 3, "small", i) for i in range(GG.family_size(3, GG.OBJ_KINDS_SMALL))]
        jobs += [("fam", 3, "full", rng.randrange(full3)) for _ in range(4000)]
    else:
        jobs += [("fam", 3, "full", i) for i in range(full3)]
    size4 = GG.family_size(4, GG.OBJ_KINDS_SMALL)
    n4 = 4000 if tier == "quick" else 300000
    jobs += [("fam", 4, "small", rng.randrange(size4)) for _ in range(n4)]
    nrand = 2500 if tier == "quick" else 30000
    jobs += [("rand", rng.randrange(1 << 40)) for _ in range(nrand)]
    docs_by_label = {}
    for l, d in GS.atlas_docs():
        docs_by_label["atlas:" + l] = d
    for i in range(12 if tier == "quick" else 120):
        docs_by_label[f"random_doc{i}"] = GS.random_doc(random.Random(rng.randrange(1 << 30)), n_models=rng.randint(3, 8), depth=rng.randint(1, 3))
    for i in range(40 if tier == "quick" else 400):
        docs_by_label[f"gen_document{i}"] = GD.gen_document(random.Random(rng.randrange(1 << 30)), pressure=(i % 4 == 0))[0]
    for l, d in stage_c_docs(rng, tier):
        docs_by_label["base:" + l] = d
    jobs += [("doc", l, d) for l, d in docs_by_label.items()]
    t0 = time.time()
    results = []
    with cf.ProcessPoolExecutor(max_workers=14) as ex:
        for r in ex.map(b_worker, list(chunks(jobs, 1500))):
            results.extend(r)
    print("stage B: %d cases abstracted and observed in %.1fs" % (len(results), time.time() - t0)); t0 = time.time()
    terms, meta, raised, declined = [], [], 0, 0
    for job, term, info in results:
        if term is None:
            if isinstance(info, str) and info.startswith("imprecise"):
                declined += 1
            else:
                raised += 1
            continue
        terms.append(term); meta.append((job, info))
    bad = []
    for k in range(0, len(terms), 120000):
        bad += [k + i for i in run_cases(HDR, terms[k:k + 120000], shard=400, jobs=14)]
    print("stage B: %d terms evaluated in %.1fs, %d mismatches" % (len(terms), time.time() - t0, len(bad)))
    for job, info in meta:
        kind = job[0] if job[0] != "fam" else f"fam{job[1]}"
        nontriv = info[1] > 0
        run.note_case({"job": list(job)[:4], "nodes": info[0], "errors": info[1], "removed": info[2]}, nontrivial=nontriv,
                      kind=f"B:{kind}:{'errors' if info[1] else 'clean'}{':cascade' if info[2] > info[1] else ''}")
    run.corr = {"cases": len(terms), "mismatches": len(bad), "implementation_raised": raised, "documents_declined_by_abstraction": declined,
                "what": "Graph.build_schemas on the abstracted graph == real build_schemas: classes_by_reference keys, classes_by_name keys, ordered errors "
                        "(phase, unit, category, removal list as a set), the dependencies relation; and wf_graph of the abstraction"}
    run.exhaustive = True
    run.extra["stageB_family"] = {"n<=2": "exhaustive (5 object edge kinds, item, union member, wrapper; every target incl. self and forward; every failure position)",
                                  "n=3": ("exhaustive with object edge kinds {prop, allof} + 4000 sampled of the full family" if tier == "quick" else "exhaustive, full family"),
                                  "n=4": f"{n4} sampled of {size4}", "random_graphs": nrand, "documents": len(docs_by_label)}
    for i in bad[:6]:
        try:
            run.violation("correspondence", {**explain(meta[i][0], docs_by_label), "note": "the real build_schemas no longer behaves like coq/Graph.v (for which removal_closed / accounting are proved), or the abstraction is not well-formed"})
        except Exception as e:  # noqa
            run.violation("correspondence", {"job": list(meta[i][0])[:4], "error": repr(e)})
    return len(bad)


# ====================================================================== stage C
REF = "#/components/schemas/"
OBJ = lambda props, **kw: {"type": "object", "properties": props, **kw}
OK = lambda schema: {"200": {"description": "ok", "content": {"application/json": {"schema": schema}}}}


def base_doc_chain():
    """every edge kind at distance 1-3 from the leaf model A, plus unrelated schemas and operations"""
    S = {
        "A": OBJ({"x": {"type": "string"}, "n": {"type": "integer"}}, required=["x"]),
        "B": OBJ({"a": {"$ref": REF + "A"}, "note": {"type": "string"}}),
        "C": OBJ({"b": {"$ref": REF + "B"}}),
        "L": {"type": "array", "items": {"$ref": REF + "A"}},
        "N": OBJ({"l": {"$ref": REF + "L"}}),
        "P": {"allOf": [{"$ref": REF + "A"}, OBJ({"extra": {"type": "number"}})]},
        "PP": {"allOf": [{"$ref": REF + "P"}, OBJ({"more": {"type": "boolean"}})]},
        "Q": OBJ({"k": {"type": "string"}}, additionalProperties={"$ref": REF + "A"}),
        "W": {"allOf": [{"$ref": REF + "A"}]},
        "WW": OBJ({"w": {"$ref": REF + "W"}}),
        "E": {"type": "string", "enum": ["red", "green"]},
        "Z": OBJ({"e": {"$ref": REF + "E"}, "inner": OBJ({"deep": {"type": "string", "format": "date"}}), "kind": {"type": "string", "enum": ["k1", "k2"]},
                  "zs": {"type": "array", "items": {"$ref": REF + "Z"}}}),
        "Y": OBJ({"z": {"$ref": REF + "Z"}, "when": {"type": "string", "format": "date-time"}}),
    }
    paths = {
        "/a": {"get": {"operationId": "getA", "tags": ["alpha"], "responses": OK({"$ref": REF + "A"})}},
        "/c": {"post": {"operationId": "postC", "tags": ["alpha"], "requestBody": {"content": {"application/json": {"schema": {"$ref": REF + "C"}}}},
                        "responses": OK({"$ref": REF + "N"})}},
        "/z/{zid}": {"get": {"operationId": "getZ", "tags": ["zeta"], "parameters": [{"name": "zid", "in": "path", "required": True, "schema": {"type": "integer"}},
                                                                                       {"name": "e", "in": "query", "schema": {"$ref": REF + "E"}}],
                             "responses": OK({"$ref": REF + "Z"})}},
        "/multi/{mid}": {
            "get": {"operationId": "getMulti", "tags": ["zeta"], "parameters": [{"name": "mid", "in": "path", "required": True, "schema": {"type": "string"}},
                                                                             {"name": "filter", "in": "query", "schema": {"type": "string"}},
                                                                             {"name": "X-Trace", "in": "header", "schema": {"type": "string"}}],
                    "responses": OK({"$ref": REF + "Z"})},
            "delete": {"operationId": "deleteMulti", "tags": ["zeta"], "parameters": [{"name": "mid", "in": "path", "required": True, "schema": {"type": "string"}}],
                       "responses": {"204": {"description": "gone"}}},
            "patch": {"operationId": "patchMulti", "tags": ["alpha"], "parameters": [{"name": "mid", "in": "path", "required": True, "schema": {"type": "string"}},
                                                                                 {"name": "filter", "in": "query", "schema": {"type": "integer"}}],
                      "requestBody": {"content": {"application/json": {"schema": {"$ref": REF + "B"}}}}, "responses": OK({"$ref": REF + "B"})}},
        "/y": {"put": {"operationId": "putY", "tags": ["zeta"], "requestBody": {"content": {"application/json": {"schema": {"$ref": REF + "Y"}}}},
                       "responses": {"204": {"description": "none"}, **OK({"type": "array", "items": {"$ref": REF + "Y"}})}}},
    }
    return {"openapi": "3.1.0", "info": {"title": "t", "version": "1"}, "paths": paths, "components": {"schemas": S}}


def base_doc_union():
    """unions of models (the unrecorded edges) next to recorded edges"""
    S = {
        "A": OBJ({"x": {"type": "string"}}, required=["x"]),
        "A2": OBJ({"y": {"type": "integer"}}, required=["y"]),
        "U": {"anyOf": [{"$ref": REF + "A"}, {"type": "string"}]},
        "M": OBJ({"u": {"$ref": REF + "U"}}),
        "MU": OBJ({"either": {"oneOf": [{"$ref": REF + "A"}, {"$ref": REF + "A2"}]}}),
        "LU": {"type": "array", "items": {"anyOf": [{"$ref": REF + "A2"}, {"type": "integer"}]}},
        "K": OBJ({"name": {"type": "string"}, "opt": {"anyOf": [{"$ref": REF + "A2"}, {"type": "null"}]}}),
        "Solo": OBJ({"v": {"type": "number"}, "tag": {"type": "string", "enum": ["t1", "t2"]}}),
    }
    paths = {
        "/m": {"get": {"operationId": "getM", "responses": OK({"$ref": REF + "M"})}},
        "/solo": {"get": {"operationId": "getSolo", "parameters": [{"name": "limit", "in": "query", "schema": {"type": "integer"}}],
                          "responses": OK({"$ref": REF + "Solo"})}},
        "/u": {"post": {"operationId": "postU", "requestBody": {"content": {"application/json": {"schema": {"$ref": REF + "K"}}}},
                        "responses": OK({"$ref": REF + "U"})}},
    }
    return {"openapi": "3.1.0", "info": {"title": "t", "version": "1"}, "paths": paths, "components": {"schemas": S}}


def stage_c_docs(rng, tier):
    from gen import schemas as GS, docs as GD
    out = [("chain", base_doc_chain()), ("union", base_doc_union())]
    atlas = dict(GS.atlas_docs())
    out.append(("atlas-models", atlas["models"]))
    out.append(("atlas-allof", atlas["allof"]))
    k = 4 if tier == "quick" else 24
    # the generated base documents are PINNED (corpus/C08/base_docs.json, written once from gen/docs.py gen_document(Random(seed), n_schemas=7,
    # n_ops=3)): later changes of the shared generator do not silently change this check's inputs; delete the file to re-pin
    pinned = VERIF / "corpus" / "C08" / "base_docs.json"
    if pinned.exists():
        docs = json.loads(pinned.read_text())
    else:
        docs = {f"gen{sd}": GD.gen_document(random.Random(sd), n_schemas=7, n_ops=3)[0] for sd in PIN_SEEDS}
        pinned.parent.mkdir(parents=True, exist_ok=True)
        pinned.write_text(json.dumps(docs, indent=0, sort_keys=False))
    for sd in PIN_SEEDS[:k]:
        out.append((f"gen{sd}", docs[f"gen{sd}"]))
    return out


PIN_SEEDS = [11, 23, 37, 41, 53, 67, 71, 83, 97, 101, 113, 127, 131, 149, 151, 163, 173, 181, 191, 199, 211, 223, 227, 229]


BAD_SCHEMA = {
    "array_no_items": {"type": "array"},
    "dangling_ref": {"$ref": REF + "DoesNotExist"},
    "remote_ref": {"$ref": "https://example.com/other.yaml#/components/schemas/Far"},
    # a scheme-less relative FILE reference whose fragment names an EXISTING local component (filled in by insert()): it must be
    # rejected like any other non-local reference, not silently resolved against this document
    "relative_file_ref": {"$ref": "common.json#/components/schemas/<existing>"},
    "invalid_default": {"type": "integer", "default": "abc"},
    "mixed_enum": {"enum": [1, "a"]},
    # pieces whose error VALUE carries a header but no detail (detail=None): "Unsupported enum type <class 'float'>" / <class 'bool'>
    "float_enum": {"type": "number", "enum": [0.5, 1.5]},
    "bool_enum": {"enum": [True, False]},
}
SCHEMA_POS = ["prop", "item", "union", "addl", "allof"]
OP_POS = ["param", "body", "body_prop", "body_items", "body_two_media", "response", "optional_path", "dup_params", "unparseable_body", "param_file_ref"]
PIECE_OP_POS = ("param", "body", "body_prop", "body_items", "body_two_media", "response")


def object_body(schema):
    """the inline object of a component that declares properties (the schema itself or the inline member of its allOf)"""
    if not isinstance(schema, dict):
        return None
    if schema.get("type") == "object" and "properties" in schema:
        return schema
    for m in schema.get("allOf", []) or []:
        if isinstance(m, dict) and m.get("type") == "object" and "properties" in m:
            return m
    return None


def positions(doc):
    """every insertion position of a document: ('schema', component, pos) and ('op', path, method, pos)"""
    out = []
    for name, s in doc["components"]["schemas"].items():
        if object_body(s) is not None:
            for p in SCHEMA_POS:
                if p == "addl" and (object_body(s) is not s or s.get("additionalProperties") not in (None, True)):
                    continue      # additionalProperties of an inline allOf member is not read by the generator at all
                out.append(("schema", name, p))
            if isinstance(s, dict) and any(isinstance(m, dict) and "$ref" in m for m in s.get("allOf", []) or []):
                out.append(("schema", name, "incompatible_allof"))
    for path, item in doc["paths"].items():
        for method, op in item.items():
            if method in ("get", "put", "post", "delete", "patch"):
                for p in OP_POS:
                    out.append(("op", path, method, p))
        # PATH-ITEM parameter level: a bad parameter every operation of the path inherits, and one that some operation overrides
        if not any(isinstance(q, dict) and "$ref" in q for q in item.get("parameters", []) or []):
            out.append(("pathitem", path, "inherit_param"))
            if overridable_param(item) is not None:
                out.append(("pathitem", path, "override_param"))
    return out


def op_methods(item):
    return [m for m in ("get", "put", "post", "delete", "options", "head", "patch", "trace") if isinstance(item.get(m), dict)]


def overridable_param(item):
    """(name, location) of an inline query/header/cookie parameter some operation of the path item declares itself and the path item does not"""
    declared = {(q.get("name"), q.get("in")) for q in item.get("parameters", []) or [] if isinstance(q, dict)}
    for m in op_methods(item):
        for q in item[m].get("parameters", []) or []:
            if isinstance(q, dict) and "$ref" not in q and q.get("in") in ("query", "header", "cookie") and (q.get("name"), q.get("in")) not in declared:
                return q["name"], q["in"]
    return None


def first_parent_prop(doc, s):
    """a property of the first $ref parent of an allOf schema, with its primitive type (for the incompatible-allOf piece)"""
    for m in s.get("allOf", []):
        if "$ref" in m:
            parent = doc["components"]["schemas"].get(m["$ref"].split("/")[-1])
            seen = 0
            while isinstance(parent, dict) and seen < 5:
                body = object_body(parent)
                if body:
                    for k, v in body["properties"].items():
                        if isinstance(v, dict) and v.get("type") in ("string", "integer", "number", "boolean") and "enum" not in v and "format" not in v:
                            return k, v["type"]
                nxt = [x for x in parent.get("allOf", []) if isinstance(x, dict) and "$ref" in x]
                parent = doc["components"]["schemas"].get(nxt[0]["$ref"].split("/")[-1]) if nxt else None
                seen += 1
    return None


def insert(doc, pos, piece_name, tag="zz_bad"):
    """D + b: returns (new document, owner) or None when the combination does not apply; owner = ('schema', name) | ('op', METHOD path)"""
    d = copy.deepcopy(doc)
    b = copy.deepcopy(BAD_SCHEMA.get(piece_name, {"type": "array"}))
    if piece_name == "relative_file_ref":
        others = [n for n in doc["components"]["schemas"] if not (pos[0] == "schema" and n == pos[1])]
        if not others:
            return None
        k = sum(map(ord, str(pos))) % len(others)
        b = {"$ref": ("common.json", "./shared/defs.yaml")[k % 2] + REF + others[k]}
    if pos[0] == "schema":
        _, name, p = pos
        s = d["components"]["schemas"][name]
        body = object_body(s)
        if p == "prop":
            body["properties"][tag] = b
        elif p == "item":
            body["properties"][tag] = {"type": "array", "items": b}
        elif p == "union":
            body["properties"][tag] = {"anyOf": [b, {"type": "string"}]}
        elif p == "addl":
            body["additionalProperties"] = b
        elif p == "allof":
            member = {"type": "object", "properties": {tag: b}}
            if "allOf" in s:
                s["allOf"].append(member)
            else:
                d["components"]["schemas"][name] = {"allOf": [s, member]}
        elif p == "incompatible_allof":
            pp = first_parent_prop(doc, s)
            if pp is None:
                return None
            k, t = pp
            s["allOf"].append({"type": "object", "properties": {k: {"type": "boolean" if t != "boolean" else "string"}}})
        return d, ("schema", name)
    if pos[0] == "pathitem":
        _, path, p = pos
        item = d["paths"][path]
        if p == "inherit_param":
            nm, loc = tag, "query"
        else:
            nm, loc = overridable_param(item)
        # the operations that re-declare (name, location) themselves never look at the path item's version (add_parameters:
        # "Defined at the operation level, ignore it here"): only the others inherit the bad piece
        inheriting = [m for m in op_methods(item)
                      if not any(isinstance(q, dict) and q.get("name") == nm and q.get("in") == loc for q in item[m].get("parameters", []) or [])]
        item.setdefault("parameters", []).append({"name": nm, "in": loc, "schema": b})
        return d, [("op", f"{m.upper()} {path}") for m in inheriting]
    _, path, method, p = pos
    op = d["paths"][path][method]
    key = f"{method.upper()} {path}"
    if p == "param":
        op.setdefault("parameters", []).append({"name": tag, "in": "query", "schema": b})
    elif p == "body":
        if "requestBody" in op:
            return None
        op["requestBody"] = {"content": {"application/json": {"schema": b}}}
    elif p == "body_prop":          # an inline property of an inline request-body object
        if "requestBody" in op:
            return None
        op["requestBody"] = {"content": {"application/json": {"schema": {"type": "object", "properties": {"ok": {"type": "string"}, tag: b}}}}}
    elif p == "body_items":         # the items of an array body
        if "requestBody" in op:
            return None
        op["requestBody"] = {"content": {"application/json": {"schema": {"type": "array", "items": b}}}}
    elif p == "body_two_media":     # every media type of the body is unparseable, for different reasons
        if "requestBody" in op:
            return None
        op["requestBody"] = {"content": {"application/json": {"schema": b}, "application/xml": {"schema": {"type": "string"}},
                                         "multipart/form-data": {"schema": {"type": "object", "properties": {tag: b}}}}}
    elif p == "response":
        op["responses"]["418"] = {"description": "bad", "content": {"application/json": {"schema": b}}}
    elif p == "optional_path":
        if "{" in path:
            return None
        np = path.rstrip("/") + "/{" + tag + "}"
        if np in d["paths"]:
            return None
        item = d["paths"].pop(path)
        op.setdefault("parameters", []).append({"name": tag, "in": "path", "required": False, "schema": {"type": "string"}})
        d["paths"][np] = item
        if len(item) > 1:
            return None
        key = f"{method.upper()} {np}"
    elif p == "dup_params":
        op.setdefault("parameters", []).extend([{"name": tag, "in": "query", "schema": {"type": "string"}}, {"name": tag, "in": "query", "schema": {"type": "integer"}}])
    elif p == "param_file_ref":
        # a parameter by relative-file reference whose fragment names an existing local parameter component
        d["components"].setdefault("parameters", {}).setdefault("Limit", {"name": "limit", "in": "query", "schema": {"type": "integer"}})
        op.setdefault("parameters", []).append({"$ref": "./shared/params.yaml#/components/parameters/Limit"})
    elif p == "unparseable_body":
        if "requestBody" in op:
            return None
        op["requestBody"] = {"content": {"application/xml": {"schema": {"type": "string"}}}}
    return d, ("op", key)


def _parent_renamed_by_removed_child(doc, owners, bad_owners):
    """True iff every changed class in `owners` is a $ref allOf member of a composed schema that (a) depends on a bad piece's owner and
    (b) gives it a sibling property whose snake_case form equals one of its own property names while the spellings differ"""
    from openapi_python_client import utils
    S = (doc.get("components") or {}).get("schemas") or {}
    bad = {o[1] for o in bad_owners if o and o[0] == "schema"}
    if not bad:
        return False
    def props(sch, seen=()):
        out = set((sch.get("properties") or {}))
        for m in sch.get("allOf") or []:
            if "$ref" in m:
                n = m["$ref"].rsplit("/", 1)[-1]
                if n in S and n not in seen:
                    out |= props(S[n], seen + (n,))
            else:
                out |= set((m.get("properties") or {}))
        return out
    for o in owners:
        ok = False
        for cname, c in S.items():
            members = [m["$ref"].rsplit("/", 1)[-1] for m in (c.get("allOf") or []) if "$ref" in m]
            if o not in members or not (set(members) & bad or cname in bad):
                continue
            mine = props(S.get(o, {}))
            others = props(c) - mine
            if any(utils.snake_case(a) == utils.snake_case(b) and a != b for a in mine for b in others | mine):
                ok = True
        if not ok:
            return False
    return True


def names_schema(text, name):
    return re.search(re.escape(AG.PREFIX + name) + r"(?![A-Za-z0-9_])", text) is not None


def names_op(text, key):
    return f"parsing {key} within" in text


def refs_in(x, acc):
    if isinstance(x, dict):
        for k, v in x.items():
            if k == "$ref" and isinstance(v, str):
                acc.add(v)
            else:
                refs_in(v, acc)
    elif isinstance(x, list):
        for v in x:
            refs_in(v, acc)
    return acc


def dependants(doc, names):
    """components that reach one of `names` through references (all edge kinds), by name"""
    S = doc["components"]["schemas"]
    out = set(names)
    changed = True
    while changed:
        changed = False
        for n, s in S.items():
            if n in out:
                continue
            if any(r.startswith(REF) and r[len(REF):] in out for r in refs_in(s, set())):
                out.add(n); changed = True
    return out


def class_owner_map(doc):
    """module file of models/ -> owning component name, from the abstraction (class names minted by each component)"""
    ab = AG.Abs(doc, cfg())
    from openapi_python_client import utils
    own = {}
    for n in ab.nodes:
        ids = set()
        for op, _ in n["create"]:
            if op[0] in ("mintmodel", "mintenum"):
                ids.add(op[1])
        for e in n["entries"]:
            ids.add(e["cls"])
            for op, _ in e["prog"]:
                if op[0] in ("mintmodel", "mintenum"):
                    ids.add(op[1])
        for i in ids:
            cn = ab.cls_of(i)
            own.setdefault(str(utils.PythonIdentifier(cn, cfg().field_prefix)) + ".py", set()).add(n["name"])
    return own, ab


def ops_of(doc):
    from openapi_python_client import utils
    out = {}
    for path, item in doc["paths"].items():
        for method, op in item.items():
            if method not in ("get", "put", "post", "delete", "options", "head", "patch", "trace") or not isinstance(op, dict):
                continue
            name = op.get("operationId") or f"{method}_{path.replace('{', '').replace('}', '').replace('/', '_').strip('_')}"
            tag = str(utils.PythonIdentifier((op.get("tags") or ["default"])[0], "tag"))
            mod = f"api/{tag}/{utils.PythonIdentifier(name, cfg().field_prefix)}.py"
            out[mod] = (f"{method.upper()} {path}", op)
    return out


def users_of_models(files):
    """models/<m>.py -> set of api/<tag>/<op>.py modules of the tree that import it, directly or through other models modules"""
    imp = {}
    for f, b in files.items():
        if f.endswith(".py") and not f.endswith("__init__.py") and (f.startswith("api/") or f.startswith("models/")):
            imp[f] = {"models/" + m + ".py" for m in re.findall(r"models\.([A-Za-z0-9_]+) import", b.decode("utf-8", "replace"))}
    out = {}
    for f in imp:
        if not f.startswith("api/"):
            continue
        seen, todo = set(), list(imp[f])
        while todo:
            m = todo.pop()
            if m in seen:
                continue
            seen.add(m)
            todo.extend(imp.get(m, ()))
        for m in seen:
            out.setdefault(m, set()).add(f)
    return out


def multipart_models(opjson):
    """component names an operation sends as multipart/form-data by reference"""
    out = set()
    rb = (opjson or {}).get("requestBody")
    if isinstance(rb, dict):
        for ct, media in (rb.get("content") or {}).items():
            if ct.split(";")[0].strip() == "multipart/form-data":
                ref = ((media or {}).get("schema") or {}).get("$ref", "")
                if ref.startswith(REF):
                    out.add(ref[len(REF):])
    return out


def strip_multipart(src: bytes):
    """ast dump of a model module without its to_multipart methods and without `import json`"""
    import ast
    try:
        tree = ast.parse(src.decode("utf-8"))
    except SyntaxError:
        return None
    tree.body = [n for n in tree.body if not (isinstance(n, ast.Import) and [a.name for a in n.names] == ["json"])]
    for n in tree.body:
        if isinstance(n, ast.ClassDef):
            n.body = [x for x in n.body if not (isinstance(x, ast.FunctionDef) and x.name == "to_multipart")]
    return ast.dump(tree)


def c_worker(job):
    """one (D, b, position) case. Returns a dict with findings (lists of plain data)."""
    label, doc, base_files, inserts, seed = job          # inserts: [(position, piece name)], one (quick) or two (thorough pairs)
    pos, piece = inserts[0]
    res = {"label": label, "pos": list(pos), "piece": piece, "inserts": [[list(p), pc] for p, pc in inserts], "problems": [], "skipped": None}
    try:
        d2, owners = doc, []
        for k, (ps, pc) in enumerate(inserts):
            ins = insert(d2, ps, pc, tag="zz_bad" if k == 0 else f"zz_bad{k + 1}")
            if ins is None:
                res["skipped"] = "not applicable"
                return res
            d2, ow = ins
            owners.extend(ow if isinstance(ow, list) else [ow])
        owner = owners[0] if owners else None
        res["owner"] = [list(o) for o in owners]
        with impl.Gen(d2) as g:
            if g.exc is not None:
                res["problems"].append({"kind": "raises", "what": repr(g.exc)[:300]})
                return res
            files2 = g.files()
            diags = g.diag()
            text = "\n".join(f"{h}\n{d or ''}" for _, h, d in diags)
            # ---- expected damage
            own_map, ab2 = class_owner_map(d2)
            own_map1, _ = class_owner_map(doc)
            bad_comps = dependants(d2, {o[1] for o in owners if o[0] == "schema"}) if any(o[0] == "schema" for o in owners) else set()
            ops2 = ops_of(d2)
            ops1 = ops_of(doc)
            def op_touched(opjson):
                return any(r.startswith(REF) and r[len(REF):] in bad_comps for r in refs_in(opjson, set()))
            res["bad_comps"] = sorted(bad_comps)
            # ---- every inserted piece is invalid: a diagnostic must name its owner
            for o in owners:
                if not (names_schema(text, o[1]) if o[0] == "schema" else names_op(text, o[1])):
                    res["problems"].append({"kind": "piece-undiagnosed", "owner": list(o), "diagnostics": [h for _, h, _ in diags][:6]})
            orig_keys = {f"{ps[2].upper()} {ps[1]}" for ps, _ in inserts if ps[0] == "op"} | {o[1] for o in owners if o[0] == "op"}
            op_owner_keys = {o[1] for o in owners if o[0] == "op"}
            def api_related(f):
                key, opjson = ops1.get(f, (None, None))
                return (key is not None and key in orig_keys) or (opjson is not None and op_touched(opjson))
            def api_named(f):
                key, _ = ops1.get(f, (None, None))
                return (key is not None and names_op(text, key)) or (key in orig_keys and any(names_op(text, k2) for k2 in op_owner_keys))
            model_users = users_of_models(base_files)
            # ---- (i) byte identity of unrelated modules; (iii) diagnostics for what disappeared / changed
            for f, content in base_files.items():
                if not f.endswith(".py"):
                    if files2.get(f) != content:
                        res["problems"].append({"kind": "changed", "module": f})
                    continue
                if f.endswith("__init__.py"):
                    if f in ("__init__.py", "api/__init__.py") and files2.get(f) != content:
                        res["problems"].append({"kind": "changed", "module": f})
                    continue      # index files may list fewer / additional names
                names, related = [], False
                if f.startswith("models/"):
                    owners = own_map1.get(f[len("models/"):], set())
                    if owners:
                        related = bool(owners & bad_comps)
                        names = sorted(owners)
                        named = any(names_schema(text, n) for n in names)
                    else:
                        # a class minted by operations (inline body / parameter / response schema): it belongs to the operations whose
                        # modules import it, directly or through other inline classes
                        users = sorted(model_users.get(f, ()))
                        related = bool(users) and all(api_related(u) for u in users)
                        names = [ops1.get(u, (None, None))[0] for u in users]
                        named = any(api_named(u) for u in users)
                elif f.startswith("api/"):
                    related = api_related(f)
                    names = [ops1.get(f, (None, None))[0]]
                    named = api_named(f)
                else:
                    named = False
                if f not in files2:
                    if not related:
                        res["problems"].append({"kind": "lost", "module": f, "owners": names})
                    if not named:
                        res["problems"].append({"kind": "undiagnosed", "module": f, "owners": names})
                elif files2[f] != content:
                    if not related:
                        # exact structural test for the one accepted difference: the model lost to_multipart / `import json` and nothing
                        # else, and every operation of D that sends it as multipart/form-data is an affected operation
                        mp_users = [u for u, (k0, oj) in ops1.items() if set(names) & multipart_models(oj)]
                        if f.startswith("models/") and mp_users and all(api_related(u) for u in mp_users) \
                                and strip_multipart(content) == strip_multipart(files2[f]) and strip_multipart(content) is not None \
                                and b"to_multipart" not in files2[f]:
                            res["problems"].append({"kind": "multipart-flag", "module": f, "owners": names,
                                                    "multipart_users": [ops1[u][0] for u in mp_users]})
                        else:
                            res["problems"].append({"kind": "changed", "module": f, "owners": names})
                    elif f.startswith("api/") and not named:
                        res["problems"].append({"kind": "undiagnosed-change", "module": f, "owners": names})
            # ---- (ii) survivors import and execute
            data, _ = impl.parse_doc(d2)
            from lib import absprop
            from gen import schemas as GS
            ops, clss = [{"op": "import_all"}], []
            try:
                ab = absprop.Abs(data)
                inst = GS.Inst(ab, random.Random(seed))
                for m in ab.models:
                    cname = str(m.class_info.name)
                    try:
                        j = inst.model_instance(cname, 0, canonical=True)
                    except Exception:  # noqa
                        j = {}
                    ops.append({"op": "roundtrip", "cls": cname, "data": absprop.to_runner_json(j)})
                    clss.append(cname)
            except Exception as e:  # noqa
                res["problems"].append({"kind": "harness", "what": "instance generation: " + repr(e)[:200]})
            rr = impl.run_client(g.out, ops, timeout=300)
            if isinstance(rr, dict):
                res["problems"].append({"kind": "runner", "what": rr.get("fatal", "")[-400:]})
            else:
                def missing_of(ei):
                    m = re.search(r"No module named '[^']*\.models\.([A-Za-z0-9_]+)'", (ei or {}).get("msg", ""))
                    return sorted(own_map.get(m.group(1) + ".py", [])) if m else []
                for mod, ei in rr[0].get("failed", {}).items():
                    rel = mod.split(".", 1)[1].replace(".", "/") + ".py" if "." in mod else mod
                    if rel.startswith("models/"):
                        src = sorted(own_map.get(rel[len("models/"):], []))
                    else:
                        src = sorted(r[len(REF):] for r in refs_in(ops2.get(rel, (None, {}))[1], set()) if r.startswith(REF))
                    res["problems"].append({"kind": "import", "module": mod, "exc": ei, "src": src, "missing": missing_of(ei)})
                for cname, r in zip(clss, rr[1:]):
                    ex = r.get("dec_exc") or r.get("enc_exc") or r.get("fatal_op")
                    if ex and ex.get("type") in ("ModuleNotFoundError", "ImportError", "NameError", "AttributeError"):
                        from openapi_python_client import utils
                        src = sorted(own_map.get(str(utils.PythonIdentifier(cname, cfg().field_prefix)) + ".py", []))
                        res["problems"].append({"kind": "execute", "cls": cname, "exc": ex, "src": src, "missing": missing_of(ex)})
            # ---- data for the classification
            if res["problems"]:
                ob = AG.observe(d2, cfg(), ab2)
                res["graph"] = ab2.to_coq()
                res["edges"] = [list(e) for e in ab2.edges()]
                res["survivors"] = sorted(str(k)[len(AG.PREFIX):] for k in ob["schemas"].classes_by_reference)
                res["classes"] = sorted(str(k) for k in ob["schemas"].classes_by_name)
                res["doc"] = d2
            res["n_diag"] = len(diags)
            res["n_models"] = len(clss)
    except BaseException as e:  # noqa
        import traceback
        res["problems"].append({"kind": "harness", "what": repr(e) + traceback.format_exc()[-600:]})
    return res


def unrecorded_reach(edges, survivors, src, missing):
    """does the surviving component `src` reach, through surviving components, an UNRECORDED edge into one of `missing` (removed)?"""
    surv = set(survivors)
    if src not in surv:
        return None
    adj = {}
    for s, k, t, rec in edges:
        adj.setdefault(s, []).append((t[len(AG.PREFIX):] if t and t.startswith(AG.PREFIX) else t, rec))
    seen, todo = {src}, [src]
    while todo:
        x = todo.pop()
        for t, rec in adj.get(x, []):
            if t in missing and t not in surv and not rec:
                return t
            if t in surv and t not in seen:
                seen.add(t); todo.append(t)
    return None


def stage_c(run, tier, rng, replay_cases=None):
    docs = stage_c_docs(rng, tier)
    jobs = []
    t0 = time.time()
    base = {}
    for label, doc in docs:
        with impl.Gen(doc) as g:
            if g.exc is not None:
                run.violation("harness-or-generator", {"label": label, "error": repr(g.exc), "diag": g.diag()[:3]})
                continue
            if g.diag():
                run.extra.setdefault("base_documents_skipped_not_valid", []).append(label)      # D must be a VALID document
                continue
            base[label] = (doc, g.files(), len(g.diag()))
    if replay_cases is not None:
        for v in replay_cases:
            if v.get("label") in base and "inserts" in v:
                jobs.append((v["label"], base[v["label"]][0], base[v["label"]][1], [(tuple(p), pc) for p, pc in v["inserts"]], 1))
    else:
        pieces = list(BAD_SCHEMA)
        k = 0
        for label, (doc, files, nd) in base.items():
            full = (tier != "quick" and not label.startswith("gen"))
            for pos in positions(doc):
                needs_piece = (pos[0] == "schema" and pos[2] in SCHEMA_POS) or (pos[0] == "op" and pos[3] in PIECE_OP_POS) or pos[0] == "pathitem"
                if not needs_piece:
                    pcs = ["n/a"]
                elif full or (label in ("chain", "union") and (pos[-1] == "prop" or pos[0] == "pathitem" or pos[-1].startswith("body"))):
                    pcs = pieces
                else:
                    pcs = [pieces[k % len(pieces)]]; k += 1
                for pc in pcs:
                    if insert(doc, pos, pc) is None:
                        continue        # not applicable here (e.g. a body position on an operation that already has a body)
                    jobs.append((label, doc, files, [(pos, pc)], rng.randrange(1 << 30)))
        if tier == "quick":
            # budget (about 600 cases): always keep every body-position and every override case of the hand-made documents (the detail-less
            # error pieces at the request body are covered deterministically), thin out the rest, and leave room for the generated documents
            def must(j):
                ps = j[3][0][0]
                return ps[-1] == "override_param" or (not j[0].startswith("gen") and ps[0] == "op" and ps[-1].startswith("body"))
            core = [j for j in jobs if must(j)]
            hand = [j for j in jobs if not must(j) and not j[0].startswith("gen")]
            gen = [j for j in jobs if not must(j) and j[0].startswith("gen")]
            rng.shuffle(hand); rng.shuffle(gen)
            room = max(0, 600 - len(core))
            jobs = core + hand[:room * 3 // 5] + gen[:room - min(len(hand), room * 3 // 5)]
        if tier != "quick":
            labels = list(base)
            for _ in range(600):            # pairs of insertions
                label = rng.choice(labels)
                doc, files, nd = base[label]
                ps = positions(doc)
                a, b2 = rng.sample(ps, 2)
                if a[0] in ("op", "pathitem") and b2[0] in ("op", "pathitem") and a[1] == b2[1]:
                    continue
                def pc_for(pos):
                    return rng.choice(pieces) if ((pos[0] == "schema" and pos[2] in SCHEMA_POS) or (pos[0] == "op" and pos[3] in PIECE_OP_POS) or pos[0] == "pathitem") else "n/a"
                jobs.append((label, doc, files, [(a, pc_for(a)), (b2, pc_for(b2))], rng.randrange(1 << 30)))
    print("stage C: %d base documents, %d (D, b, position) cases" % (len(base), len(jobs)))
    results = []
    with cf.ProcessPoolExecutor(max_workers=15) as ex:
        for r in ex.map(c_worker, jobs, chunksize=2):
            results.append(r)
    print("stage C: generated and executed in %.1fs" % (time.time() - t0))
    # ---- classification by the Coq guards
    gterms, gidx = [], []
    for i, r in enumerate(results):
        if r["problems"] and "graph" in r:
            gterms.append(f"g_no_union_edge_to_failing {r['graph']}"); gidx.append(i)
            gterms.append(f"g_no_name_pressure {r['graph']}"); gidx.append(i)
    false_idx = set(run_cases(HDR, gterms, shard=200)) if gterms else set()
    guard = {}
    for k, i in enumerate(gidx):
        guard.setdefault(i, {})["union" if k % 2 == 0 else "pressure"] = (k not in false_idx)
    for i, r in enumerate(results):
        if r["skipped"]:
            continue
        run.note_case({"doc": r["label"], "inserts": r["inserts"]}, nontrivial=bool(r.get("n_diag")),
                      kind=(f"C:{r['pos'][0]}:{r['pos'][-1]}:{r['piece']}" if len(r["inserts"]) == 1 else "C:pair"))
        for p in r["problems"]:
            payload = {"label": r["label"], "inserts": r["inserts"], "problem": p, "owner": r.get("owner"), "doc": r.get("doc")}
            g = guard.get(i, {})
            if p["kind"] == "multipart-flag":
                if run.known_finding("multipart_flag_follows_operation",
                        f"document '{r['label']}' + {r['inserts']}: {p['module']} lost exactly its to_multipart method / `import json`; every operation that sends "
                        f"{p['owners']} as multipart/form-data ({p['multipart_users']}) is an operation affected by the bad piece"):
                    continue
            if p["kind"] in ("import", "execute") and g.get("union") is False and p.get("missing"):
                # the failing survivor must reach the class whose module is missing through an unrecorded (union member) edge
                hit = None
                for sname in p.get("src", []):
                    t = unrecorded_reach([tuple(e) for e in r["edges"]], r["survivors"], sname, set(p["missing"]))
                    if t is not None:
                        hit = (sname, t); break
                if hit and run.known_finding("union_dependency_unrecorded",
                        f"document '{r['label']}' + {r['piece']} at {r['pos']}: survivor {hit[0]} reaches removed {hit[1]} through a union member edge "
                        f"(no roots recorded); {p.get('module') or p.get('cls')}: {json.dumps(p.get('exc'))[:160]}"):
                    continue
            if p["kind"] == "changed" and p.get("owners") and r.get("doc") and _parent_renamed_by_removed_child(r["doc"], p["owners"], r.get("owner") or []):
                # listed C15/C09 defect seen from C08's side: _resolve_naming_conflict renames the SHARED property objects of an allOf parent in
                # place, so the parent's attribute names depend on whether the composed child (removed here because of the bad piece) exists
                if run.known_finding("allof_parent_attr_renamed",
                        f"document '{r['label']}' + {r['inserts']}: {p['module']} (class {p['owners']}) changes because the child composing it with a snake-case twin property is removed"):
                    continue
            run.violation("oracle", payload)
    run.extra["stageC"] = {"base_documents": len(base), "cases": len([r for r in results if not r["skipped"]]),
                           "cases_with_problem": len([r for r in results if r["problems"]])}
    return results


WITNESSES = {
    "union_dependency_unrecorded": {"A": OBJ({"bad": {"type": "array"}}), "U": {"anyOf": [{"$ref": REF + "A"}, {"type": "string"}]}, "M": OBJ({"u": {"$ref": REF + "U"}})},
    "union_inline_reprocessed": {"U": {"anyOf": [OBJ({"x": OBJ({"y": {"type": "string"}})}), {"type": "string"}]}, "H": OBJ({"u": {"$ref": REF + "U"}})},
    "name_pressure_pop": {"MP": OBJ({"q": {"type": "string"}}), "M": OBJ({"p": OBJ({"x": {"type": "string"}})}), "User": OBJ({"m": {"$ref": REF + "MP"}})},
}


def replay_witnesses(run):
    """every recorded witness is replayed: KNOWN-FINDING only if the implementation still fails on it AND the model's guard is false"""
    for fid, S in WITNESSES.items():
        doc = {"openapi": "3.1.0", "info": {"title": "t", "version": "1"}, "paths": {}, "components": {"schemas": S}}
        with impl.Gen(doc) as g:
            if g.exc is not None:
                continue
            data, _ = impl.parse_doc(doc)
            from lib import absprop
            ab = absprop.Abs(data)
            ops = [{"op": "import_all"}] + [{"op": "roundtrip", "cls": str(m.class_info.name), "data": {}} for m in ab.models]
            rr = impl.run_client(g.out, ops)
        broken = []
        if isinstance(rr, dict):
            broken.append(rr.get("fatal", "")[-200:])
        else:
            broken += [f"{m}: {e}" for m, e in rr[0].get("failed", {}).items()]
            for m, r in zip(ab.models, rr[1:]):
                ex = r.get("dec_exc") or r.get("enc_exc")
                if ex and ex.get("type") in ("ModuleNotFoundError", "ImportError", "NameError"):
                    broken.append(f"{m.class_info.name}: {ex}")
        a2 = AG.Abs(doc, cfg())
        gt = a2.to_coq()
        guard_false = run_cases(HDR, [f"g_no_union_edge_to_failing {gt} && g_no_name_pressure {gt}"])
        run.note_case({"witness": fid}, nontrivial=True, kind="C:witness")
        if broken and guard_false and run.known_finding(fid, f"recorded witness still fails: {broken[0][:200]} (guard false on the abstracted graph)"):
            pass
        elif broken:
            run.violation("oracle", {"witness": fid, "broken": broken[:3], "doc": doc, "note": "a surviving module refers to something that was removed although the guards hold"})


def run(run, tier, replay=None):
    rng = run.rng
    run.rule = ("stage B: one case = one document (from a graph spec or a document generator) abstracted to a Graph.v term and compared with the real build_schemas; "
                "non-trivial = the run produces at least one diagnostic; distinct by hash of the job. stage C: one case = (valid document D, bad piece b, position); "
                "non-trivial = D+b produces a diagnostic; D: two hand-made documents with every edge kind at distance 1-3, two atlas documents, generated documents; "
                "b: array without items, dangling $ref, remote $ref, invalid default, mixed-type enum at positions property / list item / union member / "
                "additionalProperties / allOf member / parameter / body / response, plus incompatible allOf, optional path parameter, duplicate parameters, unparseable body")
    run.assumptions += ["abstraction function harness/abstract_graph.py (document -> Graph.v term; leaves are delegated to the real property_from_data on an empty Schemas); it is checked by stage B",
                        "harness/gen/graphs.py (graph spec -> document)", "harness/lib/client_runner.py import_all / roundtrip in a fresh interpreter",
                        "stage C computes the allowed damage (owner + dependants over ALL reference edges) from the document's $ref text"]
    if replay:
        rp = json.load(open(replay))
        cases = [v for v in rp["violations"] if "inserts" in v]
        if cases:
            stage_c(run, tier, rng, replay_cases=cases)
        if any(v.get("kind") == "correspondence" for v in rp["violations"]):
            stage_b(run, tier, rng)
        return
    stage_b(run, tier, rng)
    replay_witnesses(run)
    stage_c(run, tier, rng)
