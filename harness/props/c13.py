"""C13 — declared defaults become equal Python defaults, bad defaults are rejected.
Stage B: every property kind x boundary-biased JSON values through the real classes' convert_value (direct call and via
property_from_data with `default` set) vs Values.convert_value evaluated in Coq (oracles float()/isoparse/UUID instantiated by
tables built from the real functions on the strings of the run).
Stage C: documents with defaults in model properties and query/header/cookie parameters are generated; in a fresh subprocess the
model is built with no optional arguments and attribute / to_dict / endpoint signature defaults are compared with the typed value
the document declares; ill-typed default => diagnostic and no emitted default. Failures are classified by the Coq guard
ValuesThm2.default_class."""
import json, math, os, shutil, subprocess, sys, tempfile, datetime, uuid as _uuid
from concurrent.futures import ThreadPoolExecutor
from pathlib import Path
from lib.common import cstr, cZ, cbool, clist, run_cases, coq_eval, PY
from lib import impl, vals
from lib import strings as S

HDR0 = "Require Import OPC.gen.GenTables OPC.Uni OPC.Names OPC.PyLit OPC.Values OPC.PyEval OPC.ValuesThm OPC.ValuesThm2.\nOpen Scope N_scope.\n" + vals.RES_EQB

CANON_UUID = "12345678-1234-5678-1234-567812345678"

# ------------------------------------------------------------------ inputs
BOOLS = [True, False]
INTS = [0, 1, -1, 2, 3, -7, 10, 255, 10**6, 2**63, -(2**64), 10**400]
FLOATS = [0.0, -0.0, 1.0, 3.0, -2.0, 3.7, -0.5, 0.1, 1e16, 1e22, 1.5e300, 1e-7, 5e-324, float("inf"), float("-inf"), float("nan"), 2.0**53]
NUM_STR = ["3", "3.0", "3.7", "-1", " 4 ", "1_0", "1e3", "1E3", "inf", "-inf", "nan", "Infinity", "1e999", "-1e999", "0x10", "١٢", "", "+5", "3.", ".5",
           "1e-3", "00", "007", "-0", "-0.0", "1e16", "1e22", "3.0e0", "1,5", "\t7\n", "1__0", "1e", "e1", "--1", "0.1", "2.5"]
BOOL_STR = ["true", "True", "TRUE", "false", "False", "FALSE", "tRuE", "fAlSe", "1", "0", "yes", "no", "true ", " false", "T", "İ", "TRUĖ", "ｔrue"]
DATE_STR = ["2020-01-02", "2020-01-02T03:04:05Z", "2020-01-02T03:04:05+01:00", "20200102", "2020-W01-1", "2020-13-01", "2020-01-02 03:04", "2020-01", "2020",
            "T03:04", "2020-01-02T24:00", "2020-01-02T03:04:05.123456", "2020-01-02T03:04:05.123456789", "2020-02-30", "0000-01-01", "9999-12-31", "2020-01-02T03",
            "2020-001", "2020-01-02t03:04:05z", "2020-01-02T03:04:05-00:00", "2020-1-2", "20-01-02", " 2020-01-02", "2020-01-02T03:04:05,5"]
UUID_STR = [CANON_UUID, CANON_UUID.upper(), "{" + CANON_UUID + "}", "urn:uuid:" + CANON_UUID, CANON_UUID.replace("-", ""), "\n1234567890abcdef1234567890abcde",
            "0x34567890abcdef1234567890abcdef", "+1234567890abcdef1234567890abcde", "1234567890abcdef1234567890abcd_e", CANON_UUID + "'", CANON_UUID[:-1],
            "g2345678-1234-5678-1234-567812345678", "1234-5678-1234-5678-1234-5678-1234-5678", " " + CANON_UUID.replace("-", "")[:31], "{{" + CANON_UUID + "}}"]
QUOTE_STR = ['a"b', "a'b", "a'\"b", "a\\b", "a\nb", "a\rb", "é", "\x7f", " ", "\U0001F600", "None", "True", "A", "a", "b", "a b", "x", '"', "'", "\\", '\\"', "a\\",
             "\x00", "\x1b[0m", "­", "͸", "퟿", "", "café \"x\"", "tab\there", "{x}", "%s", "$(x)"]
OTHERS = [[], [1, 2], {"a": True}, {"a": [1.5, None]}, ["x"], {}, [None], {"k": "v'\""}]


EXTRA = ["c", "it's", "1.5", "A b", 2.5, 3.5, 4, "2", "draft", "final", "zz"]


def value_pool(rng, tier):
    pool = [None] + BOOLS + INTS + FLOATS + NUM_STR + BOOL_STR + DATE_STR + UUID_STR + QUOTE_STR + OTHERS + EXTRA
    n = 60 if tier == "quick" else 1500
    for _ in range(n):
        r = rng.random()
        if r < 0.25:
            pool.append(S.rand_str(rng, S.HOSTILE, 6))
        elif r < 0.35:
            pool.append(S.rand_str(rng, None, 4))
        elif r < 0.5:
            pool.append(rng.randint(-10**rng.randint(1, 30), 10**rng.randint(1, 30)))
        elif r < 0.65:
            pool.append(rng.choice([rng.uniform(-10, 10), float(rng.randint(-1000, 1000)), rng.uniform(-1, 1) * 10**rng.randint(-30, 30)]))
        elif r < 0.75:
            # numeric-looking strings
            pool.append(rng.choice(["", "-", "+", " "]) + str(rng.randint(0, 999)) + rng.choice(["", ".0", ".5", "e2", "e-2", ".", "_1", " ", "E+3", "e400"]))
        elif r < 0.85:
            d = "%04d-%02d-%02d" % (rng.randint(1, 9999), rng.randint(0, 13), rng.randint(0, 32))
            pool.append(d + rng.choice(["", "T10:20:30Z", "T10:20", " 10:20:30", "T25:00:00", "T10:20:30+05:30", "T10:20:30.5"]))
        else:
            h = "%032x" % rng.getrandbits(128)
            u = "-".join([h[:8], h[8:12], h[12:16], h[16:20], h[20:]])
            pool.append(rng.choice([u, u.upper(), "{" + u + "}", h, "urn:uuid:" + u, u[:-2], u + "0", "'" + u, h[:31] + "_", "\t" + h[:31]]))
    out, seen = [], set()
    for v in pool:
        if isinstance(v, str) and not vals.is_jsonable_str(v):
            continue
        k = repr(v) + type(v).__name__
        if k not in seen:
            seen.add(k)
            out.append(v)
    return out


def kind_schemas():
    """label -> (schema without default, config kwargs). Every property kind of the quantifier."""
    return [
        ("string", {"type": "string"}, {}),
        ("date", {"type": "string", "format": "date"}, {}),
        ("date-time", {"type": "string", "format": "date-time"}, {}),
        ("uuid", {"type": "string", "format": "uuid"}, {}),
        ("binary", {"type": "string", "format": "binary"}, {}),
        ("integer", {"type": "integer"}, {}),
        ("number", {"type": "number"}, {}),
        ("boolean", {"type": "boolean"}, {}),
        ("any", {}, {}),
        ("enum-str", {"enum": ["a", "b", "A b", "3", "true", 'q"t', "2020-01-02"]}, {}),
        ("enum-int", {"enum": [1, 0, -7, 3]}, {}),
        ("enum-str-null", {"enum": ["a", None, "b"]}, {}),
        ("enum-int-null", {"enum": [1, 2, None]}, {}),
        ("lit-str-null", {"enum": ["draft", "final", None]}, {"literal_enums": True}),
        ("lit-int-null", {"enum": [1, 2, None]}, {"literal_enums": True}),
        ("lit-str", {"enum": ["a", "b", "A b", "3", "true", 'q"t', "it's"]}, {"literal_enums": True}),
        ("lit-int", {"enum": [1, 0, -7, 3]}, {"literal_enums": True}),
        ("const-str", {"const": "a"}, {}),
        ("const-dq", {"const": 'a"b'}, {}),
        ("const-int", {"const": 3}, {}),
        ("const-float", {"const": 3.0}, {}),
        ("const-bool", {"const": True}, {}),
        ("union-int-str", {"anyOf": [{"type": "integer"}, {"type": "string"}]}, {}),
        ("union-str-int", {"anyOf": [{"type": "string"}, {"type": "integer"}]}, {}),
        ("union-bool-num", {"oneOf": [{"type": "boolean"}, {"type": "number"}]}, {}),
        ("union-date-dt", {"anyOf": [{"type": "string", "format": "date"}, {"type": "string", "format": "date-time"}]}, {}),
        ("union-int-null", {"type": ["integer", "null"]}, {}),
        ("union-enum-uuid", {"anyOf": [{"enum": ["a", "b"]}, {"type": "string", "format": "uuid"}]}, {}),
        ("union-num-int", {"type": ["number", "integer"]}, {}),
        ("array", {"type": "array", "items": {"type": "string"}}, {}),
        ("object", {"type": "object", "properties": {"a": {"type": "string"}}}, {}),
    ] + ref_kinds()


REF = lambda n: {"$ref": "#/components/schemas/" + n}
FALSY = [0, 0.0, -0.0, False, "", {}, []]


def ref_kinds():
    """A default declared NEXT TO a reference: allOf / oneOf / anyOf wrappers around a single $ref to a component (vals.REF_COMPONENTS)."""
    out = []
    for w, comps in (("allOf", list(vals.REF_COMPONENTS)), ("oneOf", ["RPriority", "RFlag", "RName", "RNum"]), ("anyOf", ["RMode", "RFlag", "RCnt", "RDay"])):
        for c in comps:
            out.append((f"ref-{w}-{c}", {w: [REF(c)]}, {}))
    out.append(("ref-allOf-RPriority-lit", {"allOf": [REF("RPriority")]}, {"literal_enums": True}))
    out.append(("ref-allOf-RMode-lit", {"allOf": [REF("RMode")]}, {"literal_enums": True}))
    return out


def resolve(sch):
    """A single-$ref wrapper (or bare $ref) -> the component schema it points at; anything else unchanged."""
    if isinstance(sch, dict) and set(sch) == {"$ref"}:
        return vals.REF_COMPONENTS[sch["$ref"].rsplit("/", 1)[1]]
    for w in ("allOf", "oneOf", "anyOf"):
        if isinstance(sch, dict) and w in sch and len(sch[w]) == 1 and set(sch[w][0]) == {"$ref"} and not (set(sch) - {w, "default"}):
            return resolve(sch[w][0])
    return sch


def collect_oracle_inputs(values):
    strs = [v for v in values if isinstance(v, str)]
    ints = [v for v in values if isinstance(v, int) and not isinstance(v, bool)]
    return strs, ints


# ------------------------------------------------------------------ stage B
def stage_b(run, tier, values, kinds):
    from openapi_python_client.parser.properties import NoneProperty
    from openapi_python_client.utils import PythonIdentifier
    strs, ints = collect_oracle_inputs(values)
    otxt, facts, anomalies = vals.oracle_rows(strs, ints)
    hdr = HDR0 + otxt
    for a in anomalies:
        run.violation("oracle", {"note": "runtime oracle raised something other than ValueError", "which": a[0], "input": a[1], "exc": a[2]})
    props = []
    for label, sch, cfg in kinds:
        b = vals.build_prop(dict(sch), cfg)
        if b[0] != "prop":
            run.violation("harness-error", {"note": "kind schema does not build", "kind": label, "result": str(b)})
            continue
        props.append((label, sch, cfg, b[1], vals.ckind_of(b[1])))
    # NoneProperty cannot be reached with a default through property_from_data (the default is ignored there); direct only
    nonep = NoneProperty(name="x", required=False, default=None, python_name=PythonIdentifier("x", ""), description=None, example=None)
    props.append(("null", None, {}, nonep, "CNone"))
    terms, meta = [], []
    for label, sch, cfg, prop, ck in props:
        for v in values:
            r = vals.observe_convert(prop, v)
            terms.append(f"res_eqb (convert_value O {ck} {vals.cjval(v)}) {vals.cresult(r)}")
            meta.append({"route": "convert_value", "kind": label, "value": v, "impl": r, "ckind": ck})
            run.note_case({"route": "convert_value", "kind": label, "value": repr(v)}, nontrivial=v is not None, kind="B:" + label)
        if sch is None or label in ("array", "object", "binary"):
            continue   # on these routes property_from_data never passes the default to convert_value
        # through property_from_data with `default` set (a subset of values for the slower route)
        sub = values if (tier == "thorough" or label.startswith("ref-")) else values[::3]
        for v in sub:
            s2 = dict(sch)
            s2["default"] = v
            b = vals.build_prop(s2, cfg)
            if b[0] == "invalid":
                continue
            if b[0] == "prop":
                d = b[1].default
                r = ("ok", None if d is None else (d.python_code, d.raw_value))
                # the kind actually built (a nullable enum becomes a union, etc.) is the one derived for the default-less schema
            elif b[0] == "err":
                r = ("err",)
            else:
                r = ("crash", b[1])
            mterm = f"convert_value O {ck} {vals.cjval(v)}"
            if "enum" in sch and None in sch["enum"] and type(prop).__name__ == "UnionProperty":
                # EnumProperty.build rewrites a nullable enum into oneOf[null, enum copy WITH the same default]: the inner enum
                # validates the default first, then the union converts it
                ick = vals.ckind_of(prop.inner_properties[1])
                mterm = f"match convert_value O {ick} {vals.cjval(v)} with Err => Err | _ => {mterm} end"
            terms.append(f"res_eqb ({mterm}) {vals.cresult(r)}")
            meta.append({"route": "property_from_data", "kind": label, "value": v, "impl": r, "ckind": ck, "mterm": mterm})
            run.note_case({"route": "property_from_data", "kind": label, "value": repr(v)}, nontrivial=v is not None, kind="B:pfd:" + label)
    bad = run_cases(hdr, terms)
    for i in bad[:12]:
        m = meta[i]
        model = coq_eval(hdr, m.get("mterm") or f"convert_value O {m['ckind']} {vals.cjval(m['value'])}")
        run.violation("correspondence", {"route": m["route"], "kind": m["kind"], "input": m["value"], "impl": str(m["impl"]), "model": model[-400:],
                                         "note": "convert_value of the real property class disagrees with Values.convert_value"})
    # the oracle laws the theorems take as hypotheses / the model takes as given, sampled against the real functions
    law_terms, law_meta = [], []
    for s in strs:
        f = facts["float"].get(s)
        if f is not None:
            # str(float) is either a float literal token or inf/nan (token class is all the model uses)
            t = str(f)
            law_terms.append(f"is_float_tok {cstr(t)} || mem_str {cstr(t)} [{cstr('inf')}; {cstr('-inf')}; {cstr('nan')}]")
            law_meta.append(("float-token-class", s, t))
    badl = run_cases(hdr, law_terms)
    for i in badl[:5]:
        run.violation("correspondence", {"note": "str(float(s)) is neither a float literal token nor inf/-inf/nan", "law": law_meta[i][0], "input": law_meta[i][1], "token": law_meta[i][2]})
    return hdr, facts, len(terms) + len(law_terms), len(bad) + len(badl)


# ------------------------------------------------------------------ stage C (end to end)
HEADER_OK = {"string", "uuid", "integer", "number", "boolean", "enum-str", "enum-int", "lit-str", "lit-int"}   # (a union - e.g. a nullable enum - is not allowed in a header)


def header_ok(label):
    return label in HEADER_OK or (label.startswith("ref-") and "RDay" not in label)
STAGE_C_SKIP = {"array", "object", "const-dq", "null"}


def enc_expected(v):
    """Descriptor (as produced by gen_runner.enc) of a typed Python value."""
    if v is None:
        return {"t": "none"}
    if isinstance(v, bool):
        return {"t": "bool", "v": v}
    if isinstance(v, int):
        return {"t": "int", "v": str(v)}
    if isinstance(v, float):
        return {"t": "float", "v": repr(v)}
    if isinstance(v, str):
        return {"t": "str", "v": v}
    if isinstance(v, datetime.datetime):
        return {"t": "datetime", "v": v.isoformat(), "aware": v.tzinfo is not None}
    if isinstance(v, datetime.date):
        return {"t": "date", "v": v.isoformat()}
    if isinstance(v, _uuid.UUID):
        return {"t": "uuid", "v": str(v)}
    if isinstance(v, list):
        return {"t": "list", "v": [enc_expected(x) for x in v]}
    if isinstance(v, dict):
        return {"t": "dict", "v": {str(k): enc_expected(x) for k, x in v.items()}}
    raise TypeError(v)


def strict_typed(sch, v, literal):
    """JSON-Schema-strict reading of `v` as a default of schema `sch`: list of acceptable typed descriptors ([] = ill-typed).
    An enum member is described as {"t":"member","value":...}."""
    from dateutil.parser import isoparse
    sch = resolve(sch)
    if "enum" in sch:
        vs = [x for x in sch["enum"] if x is not None]
        if any(type(x) is type(v) and x == v for x in vs):
            return [enc_expected(v)] if literal else [{"t": "member", "value": enc_expected(v)}]
        return []
    if "const" in sch:
        c = sch["const"]
        return [enc_expected(v)] if type(c) is type(v) and c == v else []
    if "anyOf" in sch or "oneOf" in sch:
        out = []
        for m in sch.get("anyOf", []) + sch.get("oneOf", []):
            out += strict_typed(m, v, literal)
        return out
    t = sch.get("type")
    if isinstance(t, list):
        out = []
        for tt in t:
            out += strict_typed({"type": tt}, v, literal)
        return out
    if t is None:
        return [enc_expected(v)]
    if t == "null":
        return []
    if t == "string":
        if not isinstance(v, str):
            return []
        f = sch.get("format")
        try:
            if f == "date":
                return [enc_expected(isoparse(v).date())]
            if f == "date-time":
                return [enc_expected(isoparse(v))]
            if f == "uuid":
                return [enc_expected(_uuid.UUID(v))]
        except ValueError:
            return []
        if f == "binary":
            return []
        return [enc_expected(v)]
    if t == "integer":
        if isinstance(v, bool):
            return []
        if isinstance(v, int):
            return [enc_expected(v)]
        if isinstance(v, float) and math.isfinite(v) and v == int(v):
            return [enc_expected(int(v))]
        return []
    if t == "number":
        if isinstance(v, bool):
            return []
        if isinstance(v, int):
            try:
                return [enc_expected(float(v))]
            except OverflowError:
                return []
        if isinstance(v, float):
            return [enc_expected(v)]
        return []
    if t == "boolean":
        return [enc_expected(v)] if isinstance(v, bool) else []
    return []


def desc_eq(obs, exp):
    """Observed descriptor matches an expected one (an enum member matches by its value; datetimes compare as instants/text)."""
    if exp.get("t") == "member":
        return obs.get("t") == "member" and obs.get("value") == exp["value"]
    if exp.get("t") == "float" and obs.get("t") == "float":
        a, b = float(obs["v"]), float(exp["v"])
        return a == b or (a != a and b != b)
    return obs == exp


def relevant_values(label, values, rng, tier):
    cats = {"string": QUOTE_STR, "date": DATE_STR, "date-time": DATE_STR, "uuid": UUID_STR, "integer": INTS + FLOATS + NUM_STR, "number": INTS + FLOATS + NUM_STR,
            "boolean": BOOLS + BOOL_STR + [0, 1], "binary": ["x"], "any": QUOTE_STR[:8] + OTHERS + [1, 1.5, True, float("inf")],
            "enum-str": ["a", "b", "A b", "3", "true", 'q"t', "2020-01-02", "A", "c", "", 3, True], "enum-int": [1, 0, -7, 3, 2, True, 1.0, "1", -1],
            "enum-str-null": ["a", "b", "c", 1, "None", ""], "enum-int-null": [1, 2, 3, 0, "1", True, 1.0],
            "lit-str-null": ["draft", "final", "zz", "None", "", 1], "lit-int-null": [1, 2, 3, 0, "1", True, 1.0], "lit-str": ["a", "b", "A b", "3", "true", 'q"t', "it's", "A", "c", 3, True], "lit-int": [1, 0, -7, 3, 2, True, 1.0, "1"],
            "const-str": ["a", "A", "b", 1, ""], "const-int": [3, 3.0, "3", 4, True], "const-float": [3.0, 3, "3.0", 2.5], "const-bool": [True, False, 1, "true", "True"],
            "union-int-str": [3, "3", 3.0, "a", True, 1.5, 'a"b'], "union-str-int": [3, "3", "a", 3.0, True], "union-bool-num": [True, 1, 1.5, "true", "1.5", 0],
            "union-date-dt": DATE_STR[:8] + [3], "union-int-null": [3, "3", 3.0, "a", 3.5], "union-enum-uuid": ["a", "c", CANON_UUID, "b", 1], "union-num-int": [3, 3.0, "3", 1.5, True]}
    if label.startswith("ref-"):
        comp = label.split("-")[2]
        own_by = {"RPriority": [1, 2, 3, True, "0", 1.0], "RMode": ["a", "b", "c", "A", 1], "RFlag": [True, "false", "False", 1], "RName": ["x", 'q"t', "None", 1],
                  "RNum": [1.5, 3, "0", "0.0", True, float("inf")], "RCnt": [7, 2.0, 2.5, "0", True], "RDay": ["2020-01-02", "2020-13-01", "20200102", 20200102]}
        cats = {label: FALSY + own_by[comp]}
    own = [v for v in cats.get(label, []) if not (isinstance(v, str) and not vals.is_jsonable_str(v))]
    generic = [5, True, 1.5, "x", "3", [1, 2], {"a": True}]
    cap = 26
    if tier == "thorough":
        generic = generic + rng.sample([v for v in values if v is not None], 45)
    elif len(own) > cap:
        own = own[:10] + rng.sample(own[10:], cap - 10)
    out = []
    for v in own + generic:
        if not any(type(v) is type(w) and (repr(v) == repr(w)) for w in out):
            out.append(v)
    return out


def json_default(v):
    """A Python value -> something json.dumps can write so that the generator's json.loads reads back `v`."""
    return v


def stage_c(run, tier, values, kinds, hdr, facts):
    rng = run.rng
    cases = []
    idx = 0
    locs_cycle = ["query", "header", "cookie"]
    for label, sch, cfg in kinds:
        if label in STAGE_C_SKIP:
            continue
        b = vals.build_prop(dict(sch), cfg)
        if b[0] != "prop":
            continue
        ck = vals.ckind_of(b[1])
        literal = bool(cfg.get("literal_enums"))
        for v in relevant_values(label, values, rng, tier):
            loc = locs_cycle[idx % 3]
            if loc == "header" and not header_ok(label):
                loc = "query"
            r = vals.observe_convert(b[1], v)
            cases.append({"i": idx, "kind": label, "sch": sch, "literal": literal, "value": v, "loc": loc, "ckind": ck, "conv": r,
                          "expected": strict_typed(sch, v, literal)})
            idx += 1
    hazards = [c for c in cases if c["conv"][0] == "crash"]
    normal = [c for c in cases if c["conv"][0] != "crash"]
    groups = []
    for literal in (False, True):
        cs = [c for c in normal if c["literal"] == literal]
        for k in range(0, len(cs), 50):
            groups.append(cs[k:k + 50])
    for c in hazards[:(3 if tier == "quick" else 30)]:
        groups.append([c])
    results = {}
    for grp in groups:
        schemas, paths = {}, {}
        for c in grp:
            s2 = dict(c["sch"])
            s2["default"] = c["value"]
            schemas[f"M{c['i']}"] = {"type": "object", "properties": {"x": s2}}
            paths[f"/p{c['i']}"] = {"get": {"operationId": f"op{c['i']}", "parameters": [{"name": "x", "in": c["loc"], "required": False, "schema": s2}],
                                            "responses": {"200": {"description": "ok"}}}}
        schemas.update(vals.REF_COMPONENTS)
        doc = impl.base_doc(components={"schemas": schemas}, paths=paths)
        with impl.Gen(doc, cfg={"literal_enums": grp[0]["literal"]}) as g:
            info = {"exc": repr(g.exc) if g.exc else None, "diag": g.diag()}
            files = g.files() if g.out.exists() else {}
            if g.exc is not None or not files:
                for c in grp:
                    results[c["i"]] = {"info": info, "model": None, "endpoint": None, "files": {}}
                continue
            jobs = []
            for c in grp:
                jobs.append({"what": "model", "module": f"models.m{c['i']}", "cls": f"M{c['i']}", "attrs": ["x"], "construct": True, "probes": []})
                jobs.append({"what": "endpoint", "module": f"api.default.op{c['i']}"})
            inp = json.dumps({"pkg_parent": str(g.out.parent), "pkg": g.out.name, "jobs": jobs})
            env = {k: v for k, v in os.environ.items() if k != "PYTHONPATH"}
            env["PYTHONHASHSEED"] = "0"
            r = subprocess.run([PY, "-I", "-W", "ignore", str(Path(__file__).resolve().parents[1] / "lib" / "gen_runner.py")], input=inp, capture_output=True, text=True, timeout=900, env=env)
            try:
                res = json.loads(r.stdout.split("\n@@RESULT@@\n", 1)[1])
            except Exception:
                res = {"fatal": (r.stderr or r.stdout)[-1500:]}
            for k, c in enumerate(grp):
                mf, ef = f"models/m{c['i']}.py", f"api/default/op{c['i']}.py"
                if isinstance(res, dict):
                    results[c["i"]] = {"info": {**info, "fatal": res.get("fatal")}, "model": None, "endpoint": None, "files": {}}
                else:
                    results[c["i"]] = {"info": info, "model": res[2 * k] if mf in files else "absent", "endpoint": res[2 * k + 1] if ef in files else "absent",
                                       "files": {"model": files.get(mf, b"").decode("utf-8", "replace"), "endpoint": files.get(ef, b"").decode("utf-8", "replace")}}
    strs, ints = collect_oracle_inputs([c["value"] for c in cases])
    otxt, _, _ = vals.oracle_rows(strs, ints)
    hdr = HDR0 + otxt
    fails = []
    import re
    for c in cases:
        if c["i"] not in results:
            continue
        R = results[c["i"]]
        v, exp = c["value"], c["expected"]
        diag = R["info"]["diag"]
        has_model_diag = any(re.search(r"/M%d\b" % c["i"], (h or "") + (d or "")) for _, h, d in diag)
        has_ep_diag = any(re.search(r"/p%d\b" % c["i"], (h or "") + (d or "")) for _, h, d in diag)
        for route in ("model", "param"):
            run.note_case({"kind": c["kind"], "value": repr(v), "route": route if route == "model" else c["loc"]}, nontrivial=True, kind=f"C:{c['kind']}:{'ok' if exp else 'ill'}")
            if R["info"].get("exc") or R["info"].get("fatal"):
                fails.append((c, route, "crash", R["info"].get("exc") or str(R["info"].get("fatal"))[:300]))
                continue
            if route == "model":
                M = R["model"]
                if M == "absent":
                    obs, emitted, hasdiag = None, False, has_model_diag
                elif "import_error" in M or "runner_error" in M or "construct_error" in M:
                    fails.append((c, route, "broken", M.get("import_error") or M.get("runner_error") or M.get("construct_error")))
                    continue
                else:
                    obs = M["attrs"]["x"]
                    emitted = obs.get("t") != "unset"
                    hasdiag = has_model_diag
                    td = M.get("to_dict", {}).get("v", {}).get("x")
            else:
                E = R["endpoint"]
                if E == "absent":
                    obs, emitted, hasdiag = None, False, has_ep_diag
                elif "import_error" in E or "runner_error" in E:
                    fails.append((c, route, "broken", E.get("import_error") or E.get("runner_error")))
                    continue
                else:
                    obs = E["defaults"].get("x", {"t": "missing"})
                    emitted = obs.get("t") != "unset"
                    hasdiag = has_ep_diag
                    td = None
                    # omitting the argument must SEND the declared default: it has to be present in the request the function builds
                    box = {"query": "params", "header": "headers", "cookie": "cookies"}[c["loc"]]
                    kw = E.get("kwargs", {}).get("v", {}) if "kwargs" in E else None
                    if exp and kw is not None and any(desc_eq(obs, e) for e in exp):
                        sent = kw.get(box, {"t": "none"})
                        if sent.get("t") != "dict" or "x" not in sent.get("v", {}):
                            fails.append((c, route, "not-sent", f"default {v!r} is the signature default but the request built with no arguments does not carry x in {box}: {sent!r}"[:400]))
                        elif c["loc"] == "query":
                            td = sent["v"]["x"]
            if exp:
                if obs is None:
                    fails.append((c, route, "rejected", f"well-typed default {v!r} rejected: artefact not generated (diagnostic: {hasdiag})"))
                elif not any(desc_eq(obs, e) for e in exp):
                    fails.append((c, route, "wrong-value", f"default {v!r} became {obs!r}, expected one of {exp!r}"))
                elif td is not None:
                    # omitting the argument encodes the declared default: re-read the encoded value with the strict reader
                    wire = td
                    ok = True
                    if wire.get("t") in ("str", "int", "float", "bool", "list", "dict"):
                        from lib import vals as _v
                        try:
                            back = strict_typed(c["sch"], _dec(wire), c["literal"])
                            ok = any(desc_eq(obs, e) or e == obs or (e.get("t") == "member" and obs.get("t") == "member" and e["value"] == obs.get("value")) for e in back) if back else False
                        except Exception:
                            ok = False
                    if not ok:
                        fails.append((c, route, "wrong-encoding", f"default {v!r}: to_dict gives {wire!r} which does not read back as {obs!r}"))
            else:
                if emitted:
                    fails.append((c, route, "ill-emitted", f"ill-typed default {v!r} emitted as {obs!r}"))
                elif not hasdiag:
                    fails.append((c, route, "ill-silent", f"ill-typed default {v!r} dropped without a diagnostic"))
    classify_c(run, fails, hdr)
    return len(cases)


def _dec(d):
    t = d["t"]
    if t == "none":
        return None
    if t == "bool":
        return d["v"]
    if t == "int":
        return int(d["v"])
    if t == "float":
        return float(d["v"])
    if t == "str":
        return d["v"]
    if t == "list":
        return [_dec(x) for x in d["v"]]
    if t == "dict":
        return {k: _dec(x) for k, x in d["v"].items()}
    raise TypeError(t)


CLASS_IDS = {1: "float_token", 2: "string_lenient", 3: "int_lenient", 4: "bool_lenient", 5: "default_not_verbatim", 6: "float_lenient", 7: "default_nonfinite_crash",
             8: "uuid_default_raw", 10: "none_lenient"}

HDR_CLASS = r"""
Fixpoint first_accepting (o : oracles) (ms : list ckind) (v : jval) : option ckind :=
  match ms with [] => None | m :: r => if is_err (convert_value o m v) then first_accepting o r v else Some m end.
Definition class1 (o : oracles) (k : ckind) (v : jval) : N :=
  match k with
  | CAny => match v with JStr _ => default_class o CStr v | JFloat f => if is_float_tok (f_tok f) then 0 else 1 | _ => 0 end
  | CEnum VStr _ _ => match v with JStr s => if has_dq s then 50 else 0 | _ => 0 end
  | CEnum VInt _ _ | CLitEnum VInt _ => match v with JBool _ => 51 | _ => 0 end
  | CLitEnum VStr _ => 0
  | CConst (JBool _) => 52
  | _ => default_class o k v
  end.
Definition class_of (o : oracles) (k : ckind) (v : jval) : N :=
  match k with
  | CUnion ms => match first_accepting o ms v with Some m => 100 + class1 o m v | None => 0 end
  | _ => class1 o k v
  end.
Definition N_eqb := N.eqb.
"""


def classify_c(run, fails, hdr):
    """Attribute every stage C failure to the guard conjunct the Coq model computes for (kind, value); anything inside the guard is a violation."""
    if not fails:
        return
    h = hdr + HDR_CLASS
    codes = {}
    uniq = {}
    for c, route, what, detail in fails:
        uniq.setdefault(c["i"], c)
    cs = list(uniq.values())
    # evaluate class_of for each failing case: one boolean term per candidate code
    cand = [0, 1, 2, 3, 4, 5, 6, 7, 8, 9, 10, 11, 50, 51, 52] + [100 + k for k in range(12)] + [150, 151, 152]
    terms = []
    for c in cs:
        for k in cand:
            terms.append(f"N.eqb (class_of O {c['ckind']} {vals.cjval(c['value'])}) {k}")
    bad = set(run_cases(h, terms))
    for a, c in enumerate(cs):
        codes[c["i"]] = next((k for b, k in enumerate(cand) if (a * len(cand) + b) not in bad), None)
    for c, route, what, detail in fails:
        code = codes.get(c["i"])
        fid = None
        if code is None:
            fid = None
        elif code in (150, 151):
            fid = {150: "enum_default_dq", 151: "numeric_alias"}[code] if what in ("rejected", "ill-emitted") else None
        elif code >= 100:
            fid = None if code in (100, 152) else CLASS_IDS[code - 100] if code - 100 in (1, 5, 7, 8) else "union_first_match" if code - 100 in (2, 3, 4, 6, 10) else None
        elif code == 50:
            fid = "enum_default_dq"
        elif code == 51:
            fid = "numeric_alias" if what == "ill-emitted" else None
        elif code == 52:
            fid = "const_optional_syntax" if what == "broken" else None
        elif code in CLASS_IDS:
            fid = CLASS_IDS[code]
        elif code == 0 and c["kind"] == "binary" and what in ("ill-silent",):
            fid = "binary_default_dropped"
        if what in ("wrong-value", "not-sent") and ("became {'t': 'unset'}" in detail or what == "not-sent"):
            fid = None     # a declared default that vanished is not explained by any listed class
        # a crash is only attributable to the crash class; broken modules only to the classes that emit unevaluable code
        if what == "crash" and fid != "default_nonfinite_crash":
            fid = None
        if fid is not None and what == "broken" and fid not in ("float_token", "uuid_default_raw", "const_optional_syntax"):
            fid = None
        if fid is None or not run.known_finding(fid, f"{c['kind']} default {c['value']!r} ({route if route == 'model' else c['loc'] + ' parameter'}): {detail}"[:400]):
            run.violation("oracle", {"kind": c["kind"], "input": c["value"], "route": route, "location": c["loc"], "what": what, "detail": detail[:500], "model_class": code, "class": fid,
                                     "note": "stage C: the generated default is not the declared typed value / an ill-typed default is not rejected, and the Coq guard does not attribute it to a listed finding"})


# ------------------------------------------------------------------ allOf-merged defaults (merge_properties._merge_common_attributes)
# (label, wide schema, narrow schema, literal_enums, defaults inside the narrowed set, defaults valid for the wide member only)
MERGE_PAIRS = [
    ("enum-str", {"type": "string", "enum": ["fast", "slow", "off"]}, {"type": "string", "enum": ["fast", "off"]}, False, ["fast", "off"], ["slow"]),
    ("enum-int", {"type": "integer", "enum": [0, 1, 2]}, {"type": "integer", "enum": [0, 1]}, False, [0, 1], [2]),
    ("lit-str", {"type": "string", "enum": ["fast", "slow", "off"]}, {"type": "string", "enum": ["fast", "off"]}, True, ["fast", "off"], ["slow"]),
    ("lit-int", {"type": "integer", "enum": [0, 1, 2]}, {"type": "integer", "enum": [0, 1]}, True, [0, 1], [2]),
    ("num-int", {"type": "number"}, {"type": "integer"}, False, [3, 0, 2.0], [2.5]),
    ("str-date", {"type": "string"}, {"type": "string", "format": "date"}, False, ["2020-01-02"], ["abc", ""]),
    ("str-datetime", {"type": "string"}, {"type": "string", "format": "date-time"}, False, ["2020-01-02T03:04:05Z"], ["abc"]),
    ("str-enum", {"type": "string"}, {"type": "string", "enum": ["a", "b", ""]}, False, ["a", ""], ["zz"]),
    ("int-enum", {"type": "integer"}, {"type": "integer", "enum": [0, 1]}, False, [0, 1], [7]),
    ("str-lit", {"type": "string"}, {"type": "string", "enum": ["a", "b", ""]}, True, ["a", ""], ["zz"]),
    ("int-lit", {"type": "integer"}, {"type": "integer", "enum": [0, 1]}, True, [0, 1], [7]),
    # untyped (any) declaration merged with a typed one: the LATER declaration's default wins, converted by the typed kind
    ("any-str", {}, {"type": "string"}, False, ["draft", "final"], []),
    ("any-int", {}, {"type": "integer"}, False, [1, 5], []),
    ("any-num", {}, {"type": "number"}, False, [1, 2.5], []),
    ("any-bool", {}, {"type": "boolean"}, False, [True, False], []),
    ("any-date", {}, {"type": "string", "format": "date"}, False, ["2020-01-01", "2024-06-30"], []),
    ("any-enum", {}, {"type": "string", "enum": ["draft", "final"]}, False, ["draft", "final"], []),
    ("any-lit", {}, {"type": "string", "enum": ["draft", "final"]}, True, ["draft", "final"], []),
    ("same-int", {"type": "integer"}, {"type": "integer"}, False, [0, 5], []),
    ("same-bool", {"type": "boolean"}, {"type": "boolean"}, False, [False, True], []),
    ("same-str", {"type": "string"}, {"type": "string"}, False, ["", "x"], []),
    ("same-num", {"type": "number"}, {"type": "number"}, False, [0.0, 1.5], []),
]


def merge_cases(tier):
    out = []
    for label, wide, narrow, lit, ins, outs in MERGE_PAIRS:
        combos = [(ins[0], None), (None, ins[0]), (ins[0], ins[-1]), (ins[-1], ins[0]), (ins[-1], None), (None, ins[-1])] + [(o, None) for o in outs]
        if tier == "thorough":
            combos += [(a, b) for a in ins for b in ins] + [(None, None)]
        seen = set()
        for dw, dn in combos:
            for order in ("wide-first", "narrow-first"):
                k = (repr(dw), repr(dn), order)
                if k in seen:
                    continue
                seen.add(k)
                out.append({"pair": label, "wide": wide, "narrow": narrow, "literal": lit, "dw": dw, "dn": dn, "order": order, "outside": dw in outs and dw not in ins})
    for i, c in enumerate(out):
        c["i"] = i
    return out


def _stale_enum_case(c):
    """Exact input class of the listed finding merge_enum_default_stale_class: enum/enum (or literal/literal) merge that switches to the
    SECOND member's smaller value set while only the FIRST member declares a default (that Value is kept as is)."""
    return c["pair"] in ("enum-str", "enum-int", "lit-str", "lit-int") and c["order"] == "wide-first" and c["dw"] is not None and c["dn"] is None


def stage_merge(run, tier):
    import props.c15 as M
    enc = M.Enc()
    cases = merge_cases(tier)
    terms, meta, pfails = [], [], []
    for c in cases:
        sw, sn = dict(c["wide"]), dict(c["narrow"])
        if c["dw"] is not None:
            sw["default"] = c["dw"]
        if c["dn"] is not None:
            sn["default"] = c["dn"]
        first, second = (sw, sn) if c["order"] == "wide-first" else (sn, sw)
        p1 = M.build_prop(first, False, c["literal"], name="x", parent="Base")
        p2 = M.build_prop(second, False, c["literal"], name="x", parent="Ext")
        if p1 is None or p2 is None:
            run.violation("harness-error", {"note": "merge member does not build", "case": {k: c[k] for k in ("pair", "dw", "dn", "order")}})
            continue
        t1, t2 = enc.prop(p1), enc.prop(p2)
        d1 = p1.default
        res = M.real_merge(p1, p2)
        terms.append(f"mres_eqb (merge o {t1} {t2}) {M.obs_term(enc, res)}")
        summ = res[0] if res[0] != "ok" else "ok:" + type(res[1]).__name__ + (":default=" + res[1].default.python_code if res[1].default else ":no-default")
        meta.append({"c": c, "impl": summ, "term": f"merge o {t1} {t2}"})
        run.note_case({"route": "merge_properties", **{k: repr(c[k]) for k in ("pair", "dw", "dn", "order")}}, nontrivial=c["dw"] is not None or c["dn"] is not None, kind="B:merge:" + c["pair"])
        # parser-level oracle: the surviving default is convert_value of the FINAL property on the raw value
        if res[0] == "ok" and res[1].default is not None:
            r = res[1]
            try:
                again = r.convert_value(r.default.raw_value)
            except Exception as e:  # noqa
                again = repr(e)
            if again != r.default:
                pfails.append((c, f"merged {type(r).__name__} keeps default {r.default!r} but its own convert_value gives {again if not hasattr(again, 'detail') else 'PropertyError: ' + str(again.detail)!r}"))
        elif res[0] == "ok" and res[1].default is None and (c["dw"] is not None or c["dn"] is not None):
            pfails.append((c, "a declared default disappeared in the merge without an error"))
        elif res[0] == "err" and not c["outside"]:
            pfails.append((c, f"merge rejected although every declared default is inside the narrowed type: {res[1]}"))
    hdr = enc.header()
    bad = run_cases(hdr, terms)
    for i in bad[:8]:
        m = meta[i]
        model = coq_eval(hdr, m["term"])
        run.violation("correspondence", {"route": "merge_properties", "kind": m["c"]["pair"], "input": [m["c"]["dw"], m["c"]["dn"]], "order": m["c"]["order"], "impl": m["impl"], "model": model[-500:],
                                         "note": "merge_properties (default handling of _merge_common_attributes) disagrees with Merge.merge"})
    for c, detail in pfails:
        tag = f"allOf merge {c['pair']} ({c['order']}, defaults wide={c['dw']!r} narrow={c['dn']!r}): {detail}"[:400]
        if not (_stale_enum_case(c) and run.known_finding("merge_enum_default_stale_class", tag)):
            run.violation("oracle", {"route": "merge_properties", "kind": c["pair"], "input": [c["dw"], c["dn"]], "order": c["order"], "detail": detail[:400],
                                     "note": "the default that survives an allOf merge is not convert_value of the final (narrower) property on the raw value"})
    # ---- end to end: Combined = allOf[$ref Base, $ref Ext]
    fails = []
    groups = {}
    for c in cases:
        if c["dw"] is None and c["dn"] is None:
            continue
        groups.setdefault(c["literal"], []).append(c)
    for lit, cs in groups.items():
        for k in range(0, len(cs), 40):
            grp = cs[k:k + 40]
            schemas = {}
            for c in grp:
                sw, sn = dict(c["wide"]), dict(c["narrow"])
                if c["dw"] is not None:
                    sw["default"] = c["dw"]
                if c["dn"] is not None:
                    sn["default"] = c["dn"]
                first, second = (sw, sn) if c["order"] == "wide-first" else (sn, sw)
                j = c["i"]
                schemas[f"Bs{j}"] = {"type": "object", "properties": {"x": first}}
                schemas[f"Ex{j}"] = {"type": "object", "properties": {"x": second}}
                schemas[f"Cm{j}"] = {"allOf": [REF(f"Bs{j}"), REF(f"Ex{j}")]}
            with impl.Gen(impl.base_doc(components={"schemas": schemas}), cfg={"literal_enums": lit}) as g:
                diag = g.diag()
                files = g.files() if g.out.exists() else {}
                if g.exc is not None or not files:
                    for c in grp:
                        fails.append((c, "crash", repr(g.exc)))
                    continue
                from openapi_python_client.parser.properties.schemas import Class
                cfg0 = vals.ref_schemas({})[0]
                for c in grp:
                    c["module"] = str(Class.from_string(string=f"Cm{c['i']}", config=cfg0).module_name)
                jobs = [{"what": "model", "module": f"models.{c['module']}", "cls": f"Cm{c['i']}", "attrs": ["x"], "construct": True, "probes": []} for c in grp]
                inp = json.dumps({"pkg_parent": str(g.out.parent), "pkg": g.out.name, "jobs": jobs})
                env = {k: v for k, v in os.environ.items() if k != "PYTHONPATH"}
                env["PYTHONHASHSEED"] = "0"
                r = subprocess.run([PY, "-I", "-W", "ignore", str(Path(__file__).resolve().parents[1] / "lib" / "gen_runner.py")], input=inp, capture_output=True, text=True, timeout=900, env=env)
                try:
                    res = json.loads(r.stdout.split("\n@@RESULT@@\n", 1)[1])
                except Exception:
                    res = None
                import re
                for n, c in enumerate(grp):
                    run.note_case({"route": "allOf", **{k: repr(c[k]) for k in ("pair", "dw", "dn", "order")}}, nontrivial=True, kind="C:merge:" + c["pair"])
                    if not isinstance(res, list):
                        fails.append((c, "crash", "runner failed: " + (r.stderr or r.stdout)[-300:]))
                        continue
                    # the effective declared default: the later member's if it declares one, else the earlier member's
                    later, earlier = (c["dn"], c["dw"]) if c["order"] == "wide-first" else (c["dw"], c["dn"])
                    deff = later if later is not None else earlier
                    exp = strict_typed(c["narrow"], deff, lit)
                    if c["outside"]:
                        exp = []      # a default outside the narrowed type anywhere in the chain must be reported
                    hasdiag = any(re.search(r"/Cm%d\b" % c["i"], (h or "") + (d or "")) for _, h, d in diag)
                    if f"models/{c['module']}.py" not in files:
                        if exp:
                            fails.append((c, "rejected", f"composed schema not generated although the effective default {deff!r} is inside the narrowed type (diagnostic: {hasdiag})"))
                        elif not hasdiag:
                            fails.append((c, "ill-silent", "composed schema dropped without a diagnostic"))
                        continue
                    Mo = res[n]
                    if "import_error" in Mo or "runner_error" in Mo or "construct_error" in Mo:
                        fails.append((c, "broken", Mo.get("import_error") or Mo.get("runner_error") or Mo.get("construct_error")))
                        continue
                    obs = Mo["attrs"]["x"]
                    if exp:
                        if not any(desc_eq(obs, e) for e in exp):
                            fails.append((c, "wrong-value", f"effective default {deff!r} became {obs!r}, expected {exp!r}"))
                    elif obs.get("t") != "unset":
                        fails.append((c, "ill-emitted", f"default outside the narrowed type emitted as {obs!r}"))
    for c, what, detail in fails:
        tag = f"allOf[Base, Ext] {c['pair']} ({c['order']}, defaults wide={c['dw']!r} narrow={c['dn']!r}): {what}: {detail}"[:400]
        if not (_stale_enum_case(c) and what in ("broken", "wrong-value", "ill-emitted") and run.known_finding("merge_enum_default_stale_class", tag)):
            run.violation("oracle", {"route": "allOf", "kind": c["pair"], "input": [c["dw"], c["dn"]], "order": c["order"], "what": what, "detail": str(detail)[:400],
                                     "note": "stage C: the default of the composed (allOf) class is not the declared default re-typed by the narrowed property / an out-of-range default is not rejected"})
    return len(terms), len(bad)


# ------------------------------------------------------------------ same-class-name enum sites with equal values and different defaults
TWIN_VALUES = [(["active", "archived"], "active", "archived", "deleted"), ([1, 2, 3], 1, 3, 7), (["a b", "c"], "c", "a b", "A B")]
TWIN_DEFAULTS = [(None, "B"), ("A", "B"), ("B", None), (None, "BAD"), ("A", "BAD"), ("BAD", "A"), ("B", "B")]
TWIN_LAYOUTS = ["inline-inline", "component-inline", "property-parameter", "parameter-parameter"]


def twin_default_cases(tier):
    out = []
    for vs, a, b, badv in TWIN_VALUES:
        pick = {"A": a, "B": b, "BAD": badv, None: None}
        for layout in TWIN_LAYOUTS:
            for d1, d2 in TWIN_DEFAULTS:
                for literal in ((False, True) if (tier == "thorough" or layout in ("inline-inline", "component-inline")) else (False,)):
                    out.append({"values": vs, "d": [pick[d1], pick[d2]], "bad": [d1 == "BAD", d2 == "BAD"], "layout": layout, "literal": literal})
    for j, c in enumerate(out):
        c["j"] = j
    return out


def twin_default_sites(c):
    """(kind, owner, property) of the two sites, in the order the parser processes them; both derive the class name Itm<j>ItemStatus."""
    j = c["j"]
    lay = c["layout"]
    if lay == "inline-inline":
        return [("prop", f"Itm{j}", "item_status"), ("prop", f"Itm{j}Item", "status")]
    if lay == "component-inline":
        return [("comp", f"Itm{j}ItemStatus", None), ("prop", f"Itm{j}", "item_status")]
    if lay == "property-parameter":
        return [("prop", f"Itm{j}", "item_status"), ("param", f"itm{j}Item", "status")]
    return [("param", f"itm{j}", "item_status"), ("param", f"itm{j}Item", "status")]


def stage_twin_defaults(run, tier):
    from openapi_python_client import schema as oai
    from openapi_python_client.parser.properties import property_from_data
    from openapi_python_client.parser.properties.schemas import Class
    from openapi_python_client.parser.errors import PropertyError
    from openapi_python_client.utils import PythonIdentifier
    import re
    cases = twin_default_cases(tier)
    # ---- stage B: the SECOND site's default is convert_value of its own (re-used) enum class on its own declared default
    strs, ints = collect_oracle_inputs([d for c in cases for d in c["d"]] + [v for c in cases for v in c["values"]])
    otxt, _, _ = vals.oracle_rows(strs, ints)
    hdr = HDR0 + otxt
    terms, meta = [], []
    for c in cases:
        if c["layout"] != "inline-inline":
            continue
        config, schemas = vals.ref_schemas({"literal_enums": c["literal"]})
        obs = []
        cks = []
        for s, (parent, name) in enumerate((("Itm", "item_status"), ("ItmItem", "status"))):
            sch = {"enum": list(c["values"])}
            if c["d"][s] is not None:
                sch["default"] = c["d"][s]
            try:
                p, schemas2 = property_from_data(name=name, required=False, data=oai.Schema.model_validate(sch), schemas=schemas, parent_name=parent, config=config)
            except Exception as e:  # noqa
                obs.append(("crash", type(e).__name__))
                continue
            if isinstance(p, PropertyError):
                obs.append(("err",))
            else:
                obs.append(("ok", None if p.default is None else (p.default.python_code, p.default.raw_value)))
                schemas = schemas2
                cks.append(vals.ckind_of(p))
        if not cks or len(set(cks)) != 1:
            run.violation("harness-error", {"note": "twin sites do not derive one enum class", "case": str(c)[:300]})
            continue
        ck = cks[0]
        for s in (0, 1):
            terms.append(f"res_eqb (convert_value O {ck} {vals.cjval(c['d'][s])}) {vals.cresult(obs[s])}")
            meta.append({"c": c, "site": s, "impl": obs[s], "term": f"convert_value O {ck} {vals.cjval(c['d'][s])}"})
            run.note_case({"route": "twin-build", "values": c["values"], "defaults": repr(c["d"]), "site": s, "literal": c["literal"]}, nontrivial=True, kind="B:twin-default")
    bad = run_cases(hdr, terms)
    for i in bad[:8]:
        m = meta[i]
        run.violation("correspondence", {"route": "property_from_data (second enum site with the same class name and equal values)", "kind": "enum-twin", "input": m["c"]["d"], "values": m["c"]["values"],
                                         "site": m["site"], "literal_enums": m["c"]["literal"], "impl": str(m["impl"]), "model": coq_eval(hdr, m["term"])[-300:],
                                         "note": "the default of an enum site whose class is already registered is not convert_value of that site's own declared default"})
    # ---- stage C: documents
    cfg0 = vals.ref_schemas({})[0]
    modname = lambda n: str(Class.from_string(string=n, config=cfg0).module_name)
    epname = lambda n: str(PythonIdentifier(n, cfg0.field_prefix))
    fails = []
    for literal in (False, True):
        cs = [c for c in cases if c["literal"] == literal]
        for k in range(0, len(cs), 30):
            grp = cs[k:k + 30]
            schemas, paths = {}, {}
            for c in grp:
                for s, (kind, owner, prop) in enumerate(twin_default_sites(c)):
                    sch = {"enum": list(c["values"])}
                    if c["d"][s] is not None:
                        sch["default"] = c["d"][s]
                    if kind == "prop":
                        schemas[owner] = {"type": "object", "properties": {prop: sch}}
                    elif kind == "comp":
                        schemas[owner] = sch
                    else:
                        paths[f"/w{c['j']}s{s}"] = {"get": {"operationId": owner, "parameters": [{"name": prop, "in": "query", "required": False, "schema": sch}],
                                                             "responses": {"200": {"description": "ok"}}}}
            with impl.Gen(impl.base_doc(components={"schemas": schemas}, paths=paths), cfg={"literal_enums": literal}) as g:
                diag = g.diag()
                files = g.files() if g.out.exists() else {}
                if g.exc is not None or not files:
                    run.violation("oracle", {"note": "twin-default document makes the generator raise", "exc": repr(g.exc)})
                    continue
                jobs, jmap = [], []
                for c in grp:
                    for s, (kind, owner, prop) in enumerate(twin_default_sites(c)):
                        if kind == "prop" and f"models/{modname(owner)}.py" in files:
                            jobs.append({"what": "model", "module": f"models.{modname(owner)}", "cls": owner, "attrs": [prop], "construct": True, "probes": []})
                            jmap.append((c["j"], s))
                        elif kind == "param" and f"api/default/{epname(owner)}.py" in files:
                            jobs.append({"what": "endpoint", "module": f"api.default.{epname(owner)}"})
                            jmap.append((c["j"], s))
                inp = json.dumps({"pkg_parent": str(g.out.parent), "pkg": g.out.name, "jobs": jobs})
                env = {k: v for k, v in os.environ.items() if k != "PYTHONPATH"}
                env["PYTHONHASHSEED"] = "0"
                r = subprocess.run([PY, "-I", "-W", "ignore", str(Path(__file__).resolve().parents[1] / "lib" / "gen_runner.py")], input=inp, capture_output=True, text=True, timeout=900, env=env)
                try:
                    res = json.loads(r.stdout.split("\n@@RESULT@@\n", 1)[1])
                except Exception:
                    res = None
                if not isinstance(res, list):
                    run.violation("oracle", {"note": "runner failed on a twin-default client", "detail": (r.stderr or r.stdout)[-400:]})
                    continue
                got = dict(zip(jmap, res))
                for c in grp:
                    for s, (kind, owner, prop) in enumerate(twin_default_sites(c)):
                        if kind == "comp":
                            continue
                        d = c["d"][s]
                        tag = {"kind": "enum-twin", "layout": c["layout"], "values": c["values"], "input": c["d"], "site": s, "literal_enums": literal}
                        run.note_case(tag, nontrivial=True, kind="C:twin-default:" + c["layout"])
                        hasdiag = any(re.search(r"/%s\b" % re.escape(owner), (h or "") + (dd or "")) or (kind == "param" and re.search(r"/w%ds%d\b" % (c["j"], s), (h or "") + (dd or "")))
                                      for _, h, dd in diag)
                        R = got.get((c["j"], s))
                        if R is None:
                            if not c["bad"][s] and not (c["layout"] == "component-inline" and c["bad"][0]):
                                fails.append((tag, f"{kind} {owner}.{prop}: site with the valid default {d!r} was not generated (diagnostic: {hasdiag})"))
                            elif not hasdiag:
                                fails.append((tag, f"{kind} {owner}.{prop}: site dropped without a diagnostic"))
                            continue
                        if "import_error" in R or "runner_error" in R or "construct_error" in R:
                            fails.append((tag, f"{kind} {owner}: {R.get('import_error') or R.get('runner_error') or R.get('construct_error')}"))
                            continue
                        obs = R["attrs"][prop] if kind == "prop" else R["defaults"].get(prop, {"t": "missing"})
                        if c["bad"][s]:
                            fails.append((tag, f"{kind} {owner}.{prop}: the invalid default {d!r} (not in {c['values']!r}) is not diagnosed; generated default {obs!r}"))
                            continue
                        exp = [{"t": "unset"}] if d is None else strict_typed({"enum": c["values"]}, d, literal)
                        if not any(desc_eq(obs, e) or obs == e for e in exp):
                            fails.append((tag, f"{kind} {owner}.{prop}: declared default {d!r} but the generated default is {obs!r}"))
                            continue
                        if d is not None:
                            wire = None
                            if kind == "prop":
                                wire = R.get("to_dict", {}).get("v", {}).get(prop)
                            elif "kwargs" in R:
                                wire = R["kwargs"].get("v", {}).get("params", {}).get("v", {}).get(prop)
                            if wire is None or _dec(wire) != d or type(_dec(wire)) is not type(d):
                                fails.append((tag, f"{kind} {owner}.{prop}: declared default {d!r} is not what is sent when the argument is omitted ({wire!r})"))
    seen = set()
    for tag, detail in fails:
        k = json.dumps([tag["layout"], tag["values"], tag["input"], tag["site"], tag["literal_enums"]], default=str)
        if k in seen:
            continue
        seen.add(k)
        run.violation("oracle", {**tag, "detail": detail[:400], "note": "stage C (document oracle): every enum site keeps ITS OWN declared default, an invalid one is diagnosed - also when the enum class is shared with another site"})
    return len(terms), len(bad)


def run(run, tier, replay=None):
    values = value_pool(run.rng, tier)
    kinds = kind_schemas()
    if replay:
        rp = json.load(open(replay))
        rv = [v["input"] for v in rp["violations"] if "input" in v]
        rk = {v.get("kind") for v in rp["violations"] if v.get("kind")}
        if rv:
            values = [None] + rv
        if rk:
            kinds = [k for k in kinds if k[0] in rk] or kinds
    run.rule = ("every property kind (string, date, date-time, uuid, binary, integer, number, boolean, any, str/int enum, nullable enum, literal enums, const of 4 types, 7 unions, array, "
                "object, null) x a JSON-value pool biased to type boundaries (bools vs ints, integral floats, numeric strings incl. inf/nan/1e999, bool-like strings, date-like strings, "
                "uuid variants, quotes/backslashes/control characters, lists/dicts) plus seeded random values; stage B case = one convert_value call (direct, or through "
                "property_from_data with `default`); stage C case = one (kind, value, route) with route in {model attribute, query/header/cookie parameter}, generated and executed in a "
                "fresh interpreter; non-trivial = value is not null; distinct by hash of (route, kind, value)")
    hdr, facts, n, bad = stage_b(run, tier, values, kinds)
    run.corr = {"cases": n, "mismatches": bad,
                "what": "convert_value of all 16 real property classes (direct and via property_from_data) == Values.convert_value with oracles tabulated from the real float()/isoparse/UUID"}
    nc = stage_c(run, tier, values, kinds, hdr, facts)
    run.extra["stage_c_cases"] = nc
    nm, bm = stage_merge(run, tier)
    nt, bt = stage_twin_defaults(run, tier)
    run.corr["cases"] += nm + nt
    run.corr["mismatches"] += bm + bt
    run.corr["what"] += "; merge_properties on same-class / narrowing pairs with defaults == Merge.merge; second enum site of one class name: default == convert_value of its own declared default"
    run.assumptions += ["float(), str(float), dateutil isoparse and uuid.UUID are oracles: the model takes their results from tables computed by the real functions on the strings of the run; "
                        "only the token class of str(float) is used (sampled law: float literal token or inf/-inf/nan)",
                        "default_class code 9 (string not repr-printable) is a restriction of the model's literal lexer, not a defect class; such defaults are covered by the correspondence and the oracle only",
                        "strict typing of a default (stage C) follows JSON Schema types; date/date-time/uuid validity is what isoparse/UUID accept"]
