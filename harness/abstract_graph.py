"""Abstraction function (TRUSTED, listed in the evidence; itself checked by stage B of C08/C07):
OpenAPI document -> term of type `graph` of coq/Graph.v.

It walks every component schema the way parser/properties/property_from_data would (same branch order, same naming of inline
classes: computed with the real utils / Class.from_string), but instead of building Property objects it emits, per component,
the flat instruction lists of Graph.v:
  * n_create   - what update_schemas_with_data does with `Schemas` for the component (create phase, process_properties=False),
  * n_entries  - one entry per ModelProperty that ends up in models_to_process while the component is created
                 (name, class, roots, and the instructions process_model runs for it later).
Leaves (boolean / string* / number / integer / null / const / any) are delegated to the real property_from_data on an EMPTY
Schemas to learn whether the leaf is intrinsically valid; nothing else of the parser is executed.

Things it does not decide exactly are recorded in `Abs.imprecise` (the harness does not generate them): python-name clashes
between sibling properties, allOf merge conflicts other than primitive type clashes, defaults on unions/wrappers.
"""
from __future__ import annotations
import copy

# Does UnionProperty.build hand `roots` down to its members?  Read from the code under verification (a regenerated fact): the
# unchanged tree does not (finding union_dependency_unrecorded); with fixes/C08_union_roots.diff applied it does, and the
# abstraction then records union-member edges like every other edge.  Set to True / False to override the detection.
UNION_ROOTS_RECORDED = None


def union_roots_recorded():
    if UNION_ROOTS_RECORDED is not None:
        return UNION_ROOTS_RECORDED
    import inspect
    from openapi_python_client.parser.properties.union import UnionProperty
    return "roots" in inspect.signature(UnionProperty.build).parameters


def local_fragment(ref: str):
    """the model's OWN reading of a $ref (not the implementation's parse_reference_path, so that the correspondence sees a change of
    it): only a reference into the same document is resolved - no scheme, no host, no file path before the fragment; then the
    fragment is the reference path.  Everything else (https://..., other.yaml#/..., ./dir/x.json#/...) is an intrinsic failure."""
    from urllib.parse import urlparse
    u = urlparse(ref)
    if u.scheme or u.netloc or u.path:
        return None
    return u.fragment


CAT = {"intrinsic": 1, "ref_missing": 2, "dup": 3, "enum_conflict": 4, "allof_missing": 5, "allof_nonobject": 6,
       "allof_unprocessed": 7, "recursive": 8, "reference_schema": 9, "union": 10}
CAT_NAME = {v: k for k, v in CAT.items()}
PREFIX = "/components/schemas/"


def classify_detail(detail: str) -> int:
    """error text of the implementation -> category number of Graph.v"""
    d = detail or ""
    if "Recursive allOf reference found" in d:
        return CAT["recursive"]
    if "Invalid property in union" in d:
        return CAT["union"]
    if "Could not find reference in parsed models or enums" in d:
        return CAT["ref_missing"]
    if "Attempted to generate duplicate models with name" in d:
        return CAT["dup"]
    if "Found conflicting enums named" in d:
        return CAT["enum_conflict"]
    if "in allOf was not processed" in d:
        return CAT["allof_unprocessed"]
    if "Cannot take allOf a non-object" in d:
        return CAT["allof_nonobject"]
    if d.startswith("Reference ") and d.split("\n")[0].endswith(" not found"):
        return CAT["allof_missing"]
    if "Reference schemas are not supported." in d:
        return CAT["reference_schema"]
    return CAT["intrinsic"]


class Ctx:
    __slots__ = ("roots", "process", "create", "kind", "ovr", "ents", "top_cls", "udepth", "direct")

    def __init__(self, roots, process, create, kind, ovr, ents, top_cls, udepth=0, direct=False):
        self.roots, self.process, self.create, self.kind, self.ovr, self.ents, self.top_cls = roots, process, create, kind, ovr, ents, top_cls
        self.udepth, self.direct = udepth, direct     # enclosing unions; is this schema itself a member of the innermost one

    def evolve(self, **kw):
        c = Ctx(self.roots, self.process, self.create, self.kind, self.ovr, self.ents, self.top_cls, self.udepth, self.direct)
        for k, v in kw.items():
            setattr(c, k, v)
        return c


class Abs:
    """abstraction of one document's components.schemas"""

    def __init__(self, doc: dict, config):
        from openapi_python_client import schema as oai
        self.oai = oai
        self.config = config
        assert not config.literal_enums, "abstract_graph models EnumProperty only"
        self.doc = doc
        self.names: dict[str, int] = {}     # reference paths and unit names -> id
        self.cls: dict[str, int] = {}       # class names -> id
        self.vals: dict = {}                # enum value tables -> id
        self.imprecise: list[str] = []
        self.union_roots = union_roots_recorded()
        self.nodes = []                     # dicts: ref, name, isref, top, create, entries, kind
        comps = ((doc.get("components") or {}).get("schemas")) or {}
        self.raw = comps
        for name in comps:
            self.nid(PREFIX + name)
        o = oai.OpenAPI.model_validate(copy.deepcopy(doc))
        self.schemas = (o.components.schemas if o.components and o.components.schemas else {})
        for name, data in self.schemas.items():
            self.nodes.append(self.node(name, data))

    # ------------------------------------------------------------ interning
    def nid(self, s):
        return self.names.setdefault(s, len(self.names) + 1)

    def cid(self, s):
        return self.cls.setdefault(str(s), len(self.cls) + 1)

    def vid(self, v):
        return self.vals.setdefault(v, len(self.vals) + 1)

    def name_of(self, i):
        for k, v in self.names.items():
            if v == i:
                return k
        return None

    def cls_of(self, i):
        for k, v in self.cls.items():
            if v == i:
                return k
        return None

    # ------------------------------------------------------------ one component
    def node(self, name, data):
        oai = self.oai
        ref = PREFIX + name
        n = {"ref": self.nid(ref), "name": name, "isref": False, "top": ("other",), "create": [], "entries": [], "kind": "other"}
        if isinstance(data, oai.Reference):
            n["isref"] = True
            n["kind"] = "reference"
            return n
        ctx = Ctx(roots=[("ref", self.nid(ref))], process=False, create=True, kind="top", ovr=0, ents=n["entries"], top_cls=None)
        prog = n["create"]
        shape = self.walk(ref, data, ctx, "", prog, top=n)
        n["kind"] = shape
        return n

    def emit(self, prog, op, ctx):
        prog.append((op, ctx.ovr))

    def leaf(self, name, data, ctx, parent_name, prog):
        """delegate a schema without references / classes to the real parser: is it intrinsically valid?"""
        from openapi_python_client.parser.properties import Schemas, property_from_data
        from openapi_python_client.parser.errors import PropertyError
        p, _ = property_from_data(name=name, required=True, data=data.model_copy(deep=True), schemas=Schemas(), parent_name=parent_name or "",
                                  config=self.config)
        if isinstance(p, PropertyError):
            self.emit(prog, ("fail", CAT["intrinsic"]), ctx)
        return "leaf"

    def need(self, data, ctx, prog, kind, name=None):
        rp = local_fragment(data.ref)
        if rp is None:
            # the error keeps the Reference as `data`: _process_models calls it recursive when the text ends in /<class being processed>
            keeps0 = ctx.udepth == 0 or (ctx.udepth == 1 and ctx.direct)
            rec0 = (not ctx.create) and keeps0 and ctx.top_cls is not None and data.ref.endswith(f"/{ctx.top_cls}")
            self.emit(prog, ("fail", CAT["recursive"] if rec0 else CAT["intrinsic"]), ctx)
            return None
        # _process_models: an error whose `data` is a Reference ending in /<class being processed> is final ("Recursive allOf")
        # the error keeps this Reference as data when no union replaces it, or when it is a direct member of the only union above
        keeps = ctx.udepth == 0 or (ctx.udepth == 1 and ctx.direct)
        recur = (not ctx.create) and keeps and ctx.top_cls is not None and data.ref.endswith(f"/{ctx.top_cls}")
        self.emit(prog, ("need", kind, self.nid(rp), list(ctx.roots), self.nid(name) if name is not None else 0, recur), ctx)
        return rp

    def walk(self, name, data, ctx, parent_name, prog, top=None):
        """mirror of property_from_data; returns the shape: model / enum / wrap / leaf / list / union / ref"""
        oai = self.oai
        from openapi_python_client import utils
        name = utils.remove_string_escapes(name)
        kind = ctx.kind if ctx.kind != "top" else "item"   # a bare $ref component is a Reference node (handled before)
        if isinstance(data, oai.Reference):
            self.need(data, ctx, prog, kind)
            return "ref"
        sub = list(data.allOf) + list(data.anyOf) + list(data.oneOf)
        if len(sub) == 1 and isinstance(sub[0], oai.Reference):
            rp = self.need(sub[0], ctx, prog, "wrapper", name)
            if data.default is not None:
                self.imprecise.append(f"default on a single-reference wrapper at {name}")
            if top is not None and rp is not None:
                top["top"] = ("wrap", self.nid(rp))
            return "wrap"
        if data.type == oai.DataType.BOOLEAN:
            return self.leaf(name, data, ctx, parent_name, prog)
        if data.enum:
            return self.enum(name, data, ctx, parent_name, prog)
        if data.anyOf or data.oneOf or isinstance(data.type, list):
            return self.union(name, data, ctx, parent_name, prog)
        if data.const is not None:
            return self.leaf(name, data, ctx, parent_name, prog)
        if data.type in (oai.DataType.STRING, oai.DataType.NUMBER, oai.DataType.INTEGER, oai.DataType.NULL):
            return self.leaf(name, data, ctx, parent_name, prog)
        if data.type == oai.DataType.ARRAY:
            if data.items is None and not data.prefixItems:
                self.emit(prog, ("fail", CAT["intrinsic"]), ctx)
                return "list"
            items = list(data.prefixItems or [])
            if data.items:
                items.append(data.items)
            inner = items[0] if len(items) == 1 else oai.Schema(anyOf=items)
            self.walk(f"{name}_item", inner, ctx.evolve(kind="item", direct=False), parent_name, prog)
            return "list"
        if data.type == oai.DataType.OBJECT or data.allOf or (data.type is None and data.properties):
            return self.model(name, data, ctx, parent_name, prog, top)
        return self.leaf(name, data, ctx, parent_name, prog)

    # ------------------------------------------------------------ enum_property.py EnumProperty.build
    def enum(self, name, data, ctx, parent_name, prog):
        oai = self.oai
        from openapi_python_client import utils
        from openapi_python_client.parser.properties.schemas import Class
        from openapi_python_client.parser.properties.enum_property import EnumProperty
        enum = data.enum or []
        vals = [v for v in enum if v is not None]
        if not vals:
            return "leaf"
        types = {type(v) for v in vals}
        if len(types) > 1 or next(iter(types)) not in (str, int):
            self.emit(prog, ("fail", CAT["intrinsic"]), ctx)
            return "enum"
        vt = next(iter(types))
        if len(vals) < len(enum):
            d2 = data.model_copy()
            d2.oneOf = [oai.Schema(type=oai.DataType.NULL), data.model_copy(update={"enum": vals, "default": data.default})]
            d2.enum = None
            return self.union(name, d2, ctx, parent_name, prog)
        class_name = data.title or name
        if parent_name:
            class_name = f"{utils.pascal_case(parent_name)}{utils.pascal_case(class_name)}"
        ci = Class.from_string(string=class_name, config=self.config)
        values = EnumProperty.values_from_list(vals, ci)     # may raise ValueError exactly like the implementation
        v = self.vid(tuple(sorted((k, repr(x)) for k, x in values.items())))
        self.emit(prog, ("mintenum", self.cid(ci.name), v), ctx)
        dflt = data.default
        if dflt is not None and not (isinstance(dflt, vt) and dflt in set(values.values())):
            self.emit(prog, ("fail", CAT["intrinsic"]), ctx)
        return "enum"

    # ------------------------------------------------------------ union.py UnionProperty.build
    def union(self, name, data, ctx, parent_name, prog):
        members = list(data.anyOf) + list(data.oneOf)
        if isinstance(data.type, list):
            for t in data.type:
                members.append(data.model_copy(update={"type": t, "default": None}))
        uctx = ctx.evolve(roots=(list(ctx.roots) if self.union_roots else []), process=True, kind="union_member", ovr=CAT["union"], udepth=ctx.udepth + 1)
        for i, m in enumerate(members):
            self.walk(f"{name}_type_{i}", m, uctx.evolve(direct=True), parent_name, prog)
        if data.default is not None:
            self.imprecise.append(f"default on a union at {name}")
        return "union"

    # ------------------------------------------------------------ model_property.py ModelProperty.build
    def model(self, name, data, ctx, parent_name, prog, top):
        from openapi_python_client import utils
        from openapi_python_client.parser.properties.schemas import Class
        cfg = self.config
        if not cfg.use_path_prefixes_for_title_model_names and data.title:
            class_string = data.title
        else:
            title = data.title or name
            class_string = f"{utils.pascal_case(parent_name)}{utils.pascal_case(title)}" if parent_name else title
        ci = Class.from_string(string=class_string, config=cfg)
        c = self.cid(ci.name)
        model_roots = list(ctx.roots) + [("cls", c)]
        entry = {"name": self.nid(name), "cls": c, "roots": model_roots, "prog": []}
        if ctx.process:
            # processed on the spot: the body's instructions run here (with this context's error override) ...
            body_ctx = ctx.evolve(roots=model_roots, process=True, kind="prop", direct=False, top_cls=ctx.top_cls if ctx.top_cls is not None else str(ci.name))
            body = []
            self.body(data, str(ci.name), body_ctx, body)
            prog.extend(body)
            for r in ctx.roots:
                if r[0] == "ref":
                    self.emit(prog, ("dep", r[1], c), ctx)
            q = None
            if ctx.create:
                # ... and the ModelProperty is appended to models_to_process as well: _process_models runs the body again
                e2 = dict(entry)
                e2["prog"] = self._body_for_queue(data, str(ci.name), model_roots)
                ctx.ents.append(e2)
                q = len(ctx.ents) - 1
            self.emit(prog, ("mintmodel", c, q), ctx)
        else:
            # create phase of a component: properties are left for _process_models
            entry["prog"] = self._body_for_queue(data, str(ci.name), model_roots)
            ctx.ents.append(entry)
            q = len(ctx.ents) - 1
            if top is not None:
                top["top"] = ("model", q)
            self.emit(prog, ("mintmodel", c, q), ctx)
        return "model"

    def _body_for_queue(self, data, class_name, model_roots):
        """instructions of process_model(model_prop) for a queued ModelProperty: process phase, nothing is queued from there"""
        body = []
        ctx = Ctx(roots=model_roots, process=True, create=False, kind="prop", ovr=0, ents=[], top_cls=class_name)
        self.body(data, class_name, ctx, body)
        return body

    def flat_props(self, schema, seen=()):
        """name -> declared schema object of the properties a component object schema ends up with (allOf parents first)"""
        oai = self.oai
        out = {}
        if not isinstance(schema, oai.Schema):
            return out
        for m in schema.allOf:
            if isinstance(m, oai.Reference):
                rp = local_fragment(m.ref)
                tn = rp.split("/")[-1] if rp else None
                if rp and rp.startswith(PREFIX) and tn in self.schemas and tn not in seen:
                    out.update(self.flat_props(self.schemas[tn], seen + (tn,)))
            else:
                out.update(m.properties or {})
        out.update(schema.properties or {})
        return out

    def leafish(self, v):
        """a schema without references and without model classes: its Property can be built by the real code on an empty Schemas"""
        oai = self.oai
        if not isinstance(v, oai.Schema) or v.allOf or v.properties or v.type == oai.DataType.OBJECT:
            return False
        if not all(self.leafish(m) for m in list(v.anyOf) + list(v.oneOf) + list(v.prefixItems or [])):
            return False
        if v.items is not None and not self.leafish(v.items):
            return False
        return True

    def leaf_prop(self, key, v, class_name):
        """the real Property object of a leafish declaration (None when it is not leafish or does not build)"""
        from openapi_python_client.parser.properties import Schemas, property_from_data
        from openapi_python_client.parser.errors import PropertyError
        if isinstance(v, self.oai.Reference):
            # a reference to a component that is itself free of references and model classes (an enum, a scalar, a list of scalars):
            # _property_from_ref hands out a copy of that component's Property
            rp = local_fragment(v.ref)
            tn = rp.split("/")[-1] if rp else None
            if not (rp and rp.startswith(PREFIX) and tn in self.schemas and self.leafish(self.schemas[tn])):
                return None
            v, class_name = self.schemas[tn], ""
        if not self.leafish(v):
            return None
        try:
            p, _ = property_from_data(name=key, required=False, data=v.model_copy(deep=True), schemas=Schemas(), parent_name=class_name, config=self.config)
        except Exception:  # noqa
            return None
        return None if isinstance(p, PropertyError) else p

    def body(self, data, class_name, ctx, prog):
        """mirror of _process_properties + _get_additional_properties (model_property.py)"""
        oai = self.oai
        from openapi_python_client import utils
        from openapi_python_client.parser.properties.schemas import parse_reference_path
        from openapi_python_client.parser.errors import ParseError
        unprocessed = list(data.properties.items()) if data.properties else []
        seen_sig = {}      # property name -> the real Property of the declarations merged so far (None: not decidable here)

        def conflict(k, v):
            """would _add_if_no_conflict's merge_properties reject this second declaration of property k?  Decided with the REAL
            merge_properties on the real Property objects when both declarations are free of references and model classes"""
            from openapi_python_client.parser.properties.merge_properties import merge_properties
            from openapi_python_client.parser.errors import PropertyError
            new = self.leaf_prop(k, v, class_name)
            if k in seen_sig:
                old = seen_sig[k]
                if old is None or new is None:
                    self.imprecise.append(f"property {k} of {class_name} is declared twice with a schema that holds references or classes")
                    seen_sig[k] = None
                    return False
                try:
                    merged = merge_properties(copy.deepcopy(old), copy.deepcopy(new))
                except Exception:  # noqa
                    self.imprecise.append(f"merge of property {k} of {class_name} raises")
                    return False
                if isinstance(merged, PropertyError):
                    return True
                seen_sig[k] = merged
                return False
            seen_sig[k] = new
            return False

        for sp in data.allOf:
            if isinstance(sp, oai.Reference):
                rp = local_fragment(sp.ref)
                if rp is None:
                    rec0 = (not ctx.create) and ctx.udepth == 0 and ctx.top_cls is not None and sp.ref.endswith(f"/{ctx.top_cls}")
                    self.emit(prog, ("fail", CAT["recursive"] if rec0 else CAT["intrinsic"]), ctx)
                    return
                recur = ctx.ovr == 0 and ctx.top_cls is not None and sp.ref.endswith(f"/{ctx.top_cls}")
                tn = rp.split("/")[-1]
                clash = False
                if rp.startswith(PREFIX) and tn in self.schemas:
                    for k, s in self.flat_props(self.schemas[tn], (tn,)).items():
                        clash = conflict(k, s) or clash
                if clash:
                    # the parent must be there and processed for the merge to be attempted; nothing is recorded on failure
                    self.emit(prog, ("allof", self.nid(rp), [], recur), ctx)
                    self.emit(prog, ("fail", CAT["intrinsic"]), ctx)
                    return
                self.emit(prog, ("allof", self.nid(rp), list(ctx.roots), recur), ctx)
            else:
                unprocessed.extend(sp.properties.items() if sp.properties else [])
        pynames = {}
        for key, value in unprocessed:
            self.walk(key, value, ctx.evolve(kind="prop"), class_name, prog)
            if conflict(key, value):
                self.emit(prog, ("fail", CAT["intrinsic"]), ctx)
                return
            pn = str(utils.PythonIdentifier(value=utils.remove_string_escapes(key), prefix=self.config.field_prefix))
            if pn in pynames and pynames[pn] != key:
                self.imprecise.append(f"python name clash {pynames[pn]!r} / {key!r} in {class_name}")
            pynames[pn] = key
        ap = data.additionalProperties
        if ap is None or isinstance(ap, bool):
            return
        if isinstance(ap, oai.Schema) and not any(ap.model_dump().values()):
            return
        self.walk("AdditionalProperty", ap, ctx.evolve(kind="addl"), class_name, prog)

    # ------------------------------------------------------------ printing
    def c_root(self, r):
        return f"RRef {r[1]}" if r[0] == "ref" else f"RCls {r[1]}"

    def c_roots(self, rs):
        return "[" + "; ".join(self.c_root(r) for r in rs) + "]" if rs else "(@nil root)"

    KIND = {"item": "EItem", "wrapper": "EWrapper", "union_member": "EUnion", "prop": "EProp", "addl": "EAddl"}

    def c_instr(self, ins):
        op, ovr = ins
        t = op[0]
        if t == "fail":
            o = f"OFail {op[1]}"
        elif t == "need":
            o = f"ONeed {self.KIND[op[1]]} {op[2]} {self.c_roots(op[3])} {op[4]} {'true' if op[5] else 'false'}"
        elif t == "allof":
            o = f"OAllOf {op[1]} {self.c_roots(op[2])} {'true' if op[3] else 'false'}"
        elif t == "dep":
            o = f"ODep {op[1]} {op[2]}"
        elif t == "mintmodel":
            o = f"OMintModel {op[1]} " + ("None" if op[2] is None else f"(Some {op[2]}%nat)")
        elif t == "mintenum":
            o = f"OMintEnum {op[1]} {op[2]}"
        else:
            raise ValueError(t)
        return f"mkI ({o}) {ovr}"

    def c_prog(self, p):
        return "[" + "; ".join(self.c_instr(i) for i in p) + "]" if p else "(@nil instr)"

    def c_entry(self, e):
        return f"mkE {e['name']} {e['cls']} {self.c_roots(e['roots'])} {self.c_prog(e['prog'])}"

    def c_node(self, n):
        top = n["top"]
        t = "TOther" if top[0] == "other" else (f"(TModel {top[1]}%nat)" if top[0] == "model" else f"(TWrap {top[1]})")
        ents = "[" + "; ".join(self.c_entry(e) for e in n["entries"]) + "]" if n["entries"] else "(@nil entry)"
        return f"mkN {n['ref']} {'true' if n['isref'] else 'false'} {t} {self.c_prog(n['create'])} {ents}"

    def to_coq(self):
        return "[" + ";\n ".join(self.c_node(n) for n in self.nodes) + "]" if self.nodes else "(@nil node)"

    # ------------------------------------------------------------ edges (python mirror, used to NAME a finding after the Coq guard decided)
    def edges(self):
        """(source component name, kind, target reference path, recorded?) for every reference edge"""
        out = []
        for n in self.nodes:
            progs = [n["create"]] + [e["prog"] for e in n["entries"]]
            for p in progs:
                for op, _ in p:
                    if op[0] == "need":
                        out.append((n["name"], op[1], self.name_of(op[2]), ("ref", n["ref"]) in op[3]))
                    elif op[0] == "allof":
                        out.append((n["name"], "allof", self.name_of(op[1]), ("ref", n["ref"]) in op[2]))
        return out


def observe(doc: dict, config, ab: Abs):
    """run the real build_schemas on the document and return the observation in the vocabulary of Graph.graph_case:
    (cbr ids, cbn ids, errors [(create?, unit id, category, [removed ids])], deps [(ref id, is_ref, id)], raw errors)"""
    from openapi_python_client import schema as oai
    from openapi_python_client.parser.properties import Schemas, build_schemas
    o = oai.OpenAPI.model_validate(copy.deepcopy(doc))
    comps = o.components.schemas if o.components and o.components.schemas else {}
    s = build_schemas(components=comps, schemas=Schemas(), config=config)
    from openapi_python_client import utils
    cbr = [ab.nid(str(k)) for k in s.classes_by_reference]
    cbn = [ab.cid(str(k)) for k in s.classes_by_name]
    deps = []
    for k, vs in s.dependencies.items():
        for v in vs:
            if isinstance(v, utils.ClassName):
                deps.append((ab.nid(str(k)), False, ab.cid(str(v))))
            else:
                deps.append((ab.nid(str(k)), True, ab.nid(str(v))))
    errs, raw = [], []
    MARK = "\n\nFailure to process schema has resulted in the removal of:"
    for e in s.errors:
        h, d = e.header or "", e.detail or ""
        raw.append((h, d))
        if h.startswith("Unable to parse schema "):
            errs.append((True, ab.nid(h[len("Unable to parse schema "):]), classify_detail(d), []))
        elif h.startswith("\nUnable to process schema ") and h.endswith(":"):
            unit = h[len("\nUnable to process schema "):-1]
            removed = []
            if MARK in d:
                d, tail = d.split(MARK, 1)
                removed = [ab.nid(x) for x in tail.split("\n") if x]
            errs.append((False, ab.nid(unit), classify_detail(d + ("\n\nRecursive allOf reference found" if "Recursive allOf reference found" in (e.detail or "") else "")), removed))
        elif "Reference schemas are not supported." in d:
            errs.append((True, None, CAT["reference_schema"], []))
        else:
            errs.append((True, ab.nid("?unknown:" + h), classify_detail(d), []))
    # Reference components: the error does not name the component; they are reported first, in document order
    refnodes = [n["ref"] for n in ab.nodes if n["isref"]]
    k = 0
    fixed = []
    for e in errs:
        if e[1] is None:
            fixed.append((True, refnodes[k] if k < len(refnodes) else 0, e[2], []))
            k += 1
        else:
            fixed.append(e)
    return {"cbr": cbr, "cbn": cbn, "errs": fixed, "deps": deps, "raw": raw, "schemas": s}


def c_obs(ob):
    nl = lambda xs: "[" + "; ".join(str(x) for x in xs) + "]" if xs else "(@nil N)"
    errs = "[" + "; ".join(f"({'true' if c else 'false'}, ({u}, ({cat}, {nl(rm)})))" for c, u, cat, rm in ob["errs"]) + "]" if ob["errs"] else "(@nil (bool * (N * (N * list N))))"
    deps = "[" + "; ".join(f"({a}, ({'true' if b else 'false'}, {c}))" for a, b, c in ob["deps"]) + "]" if ob["deps"] else "(@nil (N * (bool * N)))"
    return f"{nl(ob['cbr'])} {nl(ob['cbn'])} {errs} {deps}"
