"""Translator: regenerate coq/gen/GenNames.v + build/gen_names.json (facts used by coq/RenameThm.v and harness/props/c18.py, property C18).

A probe document whose every document-derived name is an unmistakable canary (contains `zqc`) is pushed through the REAL
generator of the tree under verification; every generated module is parsed with `ast` (cross-checked against `symtable`) and
for every SCOPE the identifiers the generated code itself binds or reads are collected:

  model.<method>         every method of a generated model class (from_dict, to_dict, to_multipart, additional_keys, __getitem__ ...):
                         parameter names, locals, globals read, names inside nested functions / comprehensions, keyword-argument names
  model.class_body       names bound or read in the class body outside the methods (attributes, method names, decorators, annotations)
  model.module           module level names of a model module (imports, T, ...)
  model.attr             attribute names read anywhere in a model module (x.additional_properties, x.isoformat, ...)
  endpoint.<function>    every module level function of an endpoint module (_get_kwargs, _parse_response, sync_detailed, ...)
  endpoint.function_args parameter names of the endpoint functions (client, body, response, ...)
  endpoint.module / endpoint.attr, package.<module> (client.py, types.py, errors.py: thorough tier only)
  python.keyword / python.softkeyword / python.builtin / python.variant (capitalised / upper-cased keywords, as a document would spell them)

Names containing the canary are document-derived and are subtracted; for each of them the part the TEMPLATE contributed is
recorded as a derived pattern (prefix, suffix) around the canary property name (e.g. ("_", ""), ("", "_item_data"), ("json_", "")).

Fail closed: if the probe does not generate cleanly, a required scope is missing or symtable knows an identifier the ast walk
did not see, GenNames.v is written with gen_names_known := false (RenameThm.gen_names_facts then no longer checks) and the
script exits 1."""
import ast, builtins, contextlib, io, json, keyword, os, shutil, symtable, sys, tempfile
from pathlib import Path

HERE = os.path.dirname(os.path.abspath(__file__))
REPO = os.environ.get("OPC_REPO", "/repo")
sys.path.insert(0, REPO)
OUT = os.path.normpath(os.path.join(HERE, "..", "..", "coq", "gen", "GenNames.v"))
SIDE = os.path.normpath(os.path.join(HERE, "..", "..", "build", "gen_names.json"))
CANARY = "zqc"
REF = "#/components/schemas/"
REQUIRED_SCOPES = ["model.from_dict", "model.to_dict", "model.to_multipart", "model.class_body", "model.module",
                   "endpoint._get_kwargs", "endpoint.function_args", "endpoint.module", "endpoint._parse_response",
                   "endpoint.sync_detailed", "endpoint.asyncio_detailed"]


def cstr(s):
    return "[" + ";".join(str(ord(c)) for c in s) + "]%N" if s else "(@nil N)"


def probe_document():
    D = {"type": "string", "format": "date"}
    schemas = {
        "ZqcSub": {"type": "object", "properties": {"zqc_s": {"type": "string"}}},
        "ZqcEnum": {"type": "string", "enum": ["a", "b"]},
        "ZqcIntEnum": {"type": "integer", "enum": [1, 2]},
        "ZqcModel": {"type": "object", "required": ["zqc_req_str", "zqc_req_date", "zqc_req_list", "zqc_req_model"], "properties": {
            "zqc_req_str": {"type": "string"}, "zqc_opt_str": {"type": "string"}, "zqc_req_date": D, "zqc_opt_date": D,
            "zqc_opt_dt": {"type": "string", "format": "date-time"}, "zqc_uuid": {"type": "string", "format": "uuid"},
            "zqc_req_list": {"type": "array", "items": D}, "zqc_list": {"type": "array", "items": D},
            "zqc_mlist": {"type": "array", "items": {"$ref": REF + "ZqcSub"}},
            "zqc_ulist": {"type": "array", "items": {"anyOf": [D, {"type": "integer"}]}},
            "zqc_union": {"anyOf": [D, {"$ref": REF + "ZqcSub"}, {"type": "integer"}, {"type": "null"}, {"type": "array", "items": D}]},
            "zqc_req_model": {"$ref": REF + "ZqcSub"}, "zqc_model": {"$ref": REF + "ZqcSub"},
            "zqc_enum": {"$ref": REF + "ZqcEnum"}, "zqc_ienum": {"$ref": REF + "ZqcIntEnum"},
            "zqc_nullable": {"type": ["string", "null"]}, "zqc_nullmodel": {"anyOf": [{"$ref": REF + "ZqcSub"}, {"type": "null"}]},
            "zqc_file": {"type": "string", "format": "binary"}, "zqc_const": {"const": "k"}, "zqc_any": {},
            "zqc_int": {"type": "integer", "default": 3}, "zqc_float": {"type": "number"}, "zqc_bool": {"type": "boolean"},
            "zqc_inline": {"type": "object", "properties": {"zqc_in": {"type": "string"}}}},
            "additionalProperties": D},
        "ZqcOpen": {"type": "object", "properties": {"zqc_o": {"type": "integer"}}},
        "ZqcClosed": {"type": "object", "properties": {"zqc_cl": {"type": "integer"}}, "additionalProperties": False},
        "ZqcEmpty": {"type": "object"},
        "ZqcAddlModel": {"type": "object", "additionalProperties": {"$ref": REF + "ZqcSub"}},
        "ZqcAddlList": {"type": "object", "additionalProperties": {"type": "array", "items": {"type": "string"}}},
        "ZqcAddlUnion": {"type": "object", "additionalProperties": {"anyOf": [D, {"type": "integer"}, {"$ref": REF + "ZqcSub"}]}},
        "ZqcAllOf": {"allOf": [{"$ref": REF + "ZqcSub"}, {"type": "object", "properties": {"zqc_extra": D}}]},
        "ZqcMulti": {"type": "object", "required": ["zqc_mp_str"], "properties": {
            "zqc_mp_str": {"type": "string"}, "zqc_mp_file": {"type": "string", "format": "binary"}, "zqc_mp_date": D,
            "zqc_mp_list": {"type": "array", "items": {"type": "string"}}, "zqc_mp_model": {"$ref": REF + "ZqcSub"},
            "zqc_mp_union": {"anyOf": [D, {"$ref": REF + "ZqcSub"}]}, "zqc_mp_flist": {"type": "array", "items": {"type": "string", "format": "binary"}},
            "zqc_mp_int": {"type": "integer"}, "zqc_mp_enum": {"$ref": REF + "ZqcEnum"}, "zqc_mp_null": {"type": ["string", "null"]},
            "zqc_mp_dlist": {"type": "array", "items": D}},
            "additionalProperties": {"$ref": REF + "ZqcSub"}},
        "ZqcMulti2": {"type": "object", "properties": {"zqc_m2": {"type": "string"}}, "additionalProperties": D},
        "ZqcMulti3": {"type": "object", "properties": {"zqc_m3": {"type": "string"}}},
    }
    P = lambda n, loc, sch, req=False: {"name": n, "in": loc, "required": True if loc == "path" else req, "schema": sch}
    J = lambda s: {"description": "d", "content": {"application/json": {"schema": s}}}
    allp = lambda s: [P(f"zqc_{s}_path", "path", {"type": "string"}),
                      P(f"zqc_{s}_q_req", "query", {"type": "string"}, True), P(f"zqc_{s}_q_date", "query", D), P(f"zqc_{s}_q_list", "query", {"type": "array", "items": D}),
                      P(f"zqc_{s}_q_model", "query", {"$ref": REF + "ZqcSub"}), P(f"zqc_{s}_q_union", "query", {"anyOf": [D, {"type": "integer"}]}),
                      P(f"zqc_{s}_q_enum", "query", {"$ref": REF + "ZqcEnum"}), P(f"zqc_{s}_q_null", "query", {"type": ["string", "null"]}),
                      P(f"zqc_{s}_h_req", "header", {"type": "string"}, True), P(f"zqc_{s}_h_bool", "header", {"type": "boolean"}), P(f"zqc_{s}_h_int", "header", {"type": "integer"}),
                      P(f"zqc_{s}_h_uuid", "header", {"type": "string", "format": "uuid"}), P(f"zqc_{s}_h_enum", "header", {"$ref": REF + "ZqcEnum"}), P(f"zqc_{s}_h_float", "header", {"type": "number"}),
                      P(f"zqc_{s}_c_date", "cookie", D),
                      P(f"zqc_{s}_c_req", "cookie", {"type": "string"}, True), P(f"zqc_{s}_c_opt", "cookie", {"type": "string"})]
    many = {"200": J({"$ref": REF + "ZqcModel"}), "201": J({"type": "array", "items": {"$ref": REF + "ZqcSub"}}),
            "202": {"description": "t", "content": {"text/plain": {"schema": {"type": "string"}}}},
            "203": {"description": "b", "content": {"application/octet-stream": {"schema": {"type": "string", "format": "binary"}}}},
            "204": {"description": "n"}, "400": J({"$ref": REF + "ZqcEnum"}), "409": J({"anyOf": [{"$ref": REF + "ZqcSub"}, D, {"type": "null"}]}),
            "410": J({"type": "integer"}), "418": J(D), "500": J({"$ref": REF + "ZqcOpen"})}
    paths = {
        "/zqc/a/{zqc_a_path}": {"get": {"operationId": "zqc_op_nobody", "tags": ["zqctag"], "parameters": allp("a"), "responses": many,
                                        "summary": "zqc summary", "description": "zqc description"}},
        "/zqc/b/{zqc_b_path}": {"post": {"operationId": "zqc_op_json", "tags": ["zqctag"], "parameters": allp("b"),
                                         "requestBody": {"required": True, "content": {"application/json": {"schema": {"$ref": REF + "ZqcModel"}}}}, "responses": {"200": {"description": "ok"}}}},
        "/zqc/c/{zqc_c_path}": {"post": {"operationId": "zqc_op_multi", "tags": ["zqctag"], "parameters": allp("c"),
                                         "requestBody": {"content": {"multipart/form-data": {"schema": {"$ref": REF + "ZqcMulti"}}}}, "responses": {"200": {"description": "ok"}}}},
        "/zqc/c2": {"post": {"operationId": "zqc_op_multi2", "tags": ["zqctag"], "requestBody": {"content": {"multipart/form-data": {"schema": {"$ref": REF + "ZqcMulti2"}}}}, "responses": {"200": {"description": "ok"}}}},
        "/zqc/c3": {"post": {"operationId": "zqc_op_multi3", "tags": ["zqctag"], "requestBody": {"content": {"multipart/form-data": {"schema": {"$ref": REF + "ZqcMulti3"}}}}, "responses": {"200": {"description": "ok"}}}},
        "/zqc/d": {"post": {"operationId": "zqc_op_three", "tags": ["zqctag"], "security": [{"zqckey": []}], "parameters": [P("zqc_d_q", "query", {"type": "string"}), P("zqc_d_h", "header", {"type": "string"})],
                            "requestBody": {"content": {"application/json": {"schema": {"$ref": REF + "ZqcSub"}}, "application/x-www-form-urlencoded": {"schema": {"$ref": REF + "ZqcOpen"}},
                                                        "application/octet-stream": {"schema": {"type": "string", "format": "binary"}}, "multipart/form-data": {"schema": {"$ref": REF + "ZqcMulti3"}}}},
                            "responses": {"200": J({"anyOf": [{"$ref": REF + "ZqcSub"}, D]})}}},
        "/zqc/e": {"put": {"operationId": "zqc_op_list", "tags": ["zqctag"], "requestBody": {"content": {"application/json": {"schema": {"type": "array", "items": {"$ref": REF + "ZqcSub"}}}}},
                           "responses": {"200": J(D)}}},
        "/zqc/f": {"put": {"operationId": "zqc_op_form", "tags": ["zqctag"], "requestBody": {"content": {"application/x-www-form-urlencoded": {"schema": {"$ref": REF + "ZqcOpen"}}}},
                           "responses": {"200": J({"type": "array", "items": D})}},
                   "patch": {"operationId": "zqc_op_str", "tags": ["zqctag"], "requestBody": {"content": {"application/json": {"schema": {"type": "string"}}}}, "responses": {"200": J({})}},
                   "delete": {"operationId": "zqc_op_dates", "tags": ["zqctag"], "requestBody": {"content": {"application/json": {"schema": {"type": "array", "items": D}}}}, "responses": {"204": {"description": "n"}}},
                   "get": {"operationId": "zqc_op_plain", "tags": ["zqctag"], "responses": {"200": {"description": "ok"}}},
                   "post": {"operationId": "zqc_op_octet", "tags": ["zqctag"], "requestBody": {"content": {"application/octet-stream": {"schema": {"type": "string", "format": "binary"}}}}, "responses": {"200": {"description": "ok"}}}},
    }
    return {"openapi": "3.1.0", "info": {"title": "zqc", "version": "1"}, "paths": paths,
            "components": {"schemas": schemas, "securitySchemes": {"zqckey": {"type": "apiKey", "in": "header", "name": "X-K"}}}}


# ------------------------------------------------------------------ identifier collection
class Names(ast.NodeVisitor):
    """all identifiers of a subtree: names / arguments / keyword-argument names / def names / import aliases; attribute names separately"""
    def __init__(self):
        self.names, self.attrs, self.args = set(), set(), set()

    def visit_Name(self, n):
        self.names.add(n.id)

    def visit_arg(self, n):
        self.names.add(n.arg)
        self.args.add(n.arg)
        self.generic_visit(n)

    def visit_keyword(self, n):
        if n.arg:
            self.names.add(n.arg)
        self.generic_visit(n)

    def visit_Attribute(self, n):
        self.attrs.add(n.attr)
        self.generic_visit(n)

    def visit_FunctionDef(self, n):
        self.names.add(n.name)
        self.generic_visit(n)
    visit_AsyncFunctionDef = visit_FunctionDef

    def visit_ClassDef(self, n):
        self.names.add(n.name)
        self.generic_visit(n)

    def visit_alias(self, n):
        self.names.add((n.asname or n.name).split(".")[0])

    def visit_ExceptHandler(self, n):
        if n.name:
            self.names.add(n.name)
        self.generic_visit(n)

    def visit_Global(self, n):
        self.names.update(n.names)
    visit_Nonlocal = visit_Global

    def visit_MatchAs(self, n):
        if n.name:
            self.names.add(n.name)
        self.generic_visit(n)

    def visit_MatchStar(self, n):
        if n.name:
            self.names.add(n.name)

    def visit_MatchMapping(self, n):
        if n.rest:
            self.names.add(n.rest)
        self.generic_visit(n)


def names_of(nodes):
    v = Names()
    for n in nodes:
        v.visit(n)
    return v


def symtable_names(tab):
    out = set()
    for s in tab.get_symbols():
        out.add(s.get_name())
    for c in tab.get_children():
        out |= symtable_names(c)
    return {n for n in out if not n.startswith(".") and n != "__class__"}     # __class__: implicit cell of zero-argument super()


def scan_module(kind, src, fname, scopes, problems):
    """kind: 'model' | 'endpoint' | 'package.<mod>'"""
    tree = ast.parse(src, fname)
    st = symtable.symtable(src, fname, "exec")
    add = lambda scope, ns: scopes.setdefault(scope, set()).update(ns)
    FN = (ast.FunctionDef, ast.AsyncFunctionDef)
    allv = names_of([tree])
    miss = symtable_names(st) - allv.names - allv.attrs
    if miss:
        problems.append(f"{fname}: symtable identifiers not seen by the ast walk: {sorted(miss)}")
    add(kind + ".attr", allv.attrs)
    top_other = []
    for node in tree.body:
        if isinstance(node, FN):
            v = names_of([node])
            add(f"{kind}.{node.name}", v.names)
            add(kind + ".module", {node.name})
            if kind == "endpoint":
                add("endpoint.function_args", v.args)
            # the symtable of this function: every identifier python itself resolves in this scope or a nested one
            for c in st.get_children():
                if c.get_name() == node.name and c.get_type() == "function":
                    add(f"{kind}.{node.name}", symtable_names(c))
        elif isinstance(node, ast.ClassDef):
            add(kind + ".module", {node.name})
            body_other = []
            for sub in node.body:
                if isinstance(sub, FN):
                    add(f"{kind}.{sub.name}", names_of([sub]).names)
                    add(kind + ".class_body", {sub.name})
                    add(kind + ".class_body", names_of(sub.decorator_list).names)
                else:
                    body_other.append(sub)
            add(kind + ".class_body", names_of(body_other + node.decorator_list + node.bases).names)
        else:
            top_other.append(node)
    add(kind + ".module", names_of(top_other).names)


def main():
    from openapi_python_client import generate
    from openapi_python_client.config import Config, ConfigFile, MetaType
    from openapi_python_client import utils
    problems = []
    scopes = {}
    doc = probe_document()
    root = Path(tempfile.mkdtemp(prefix="opc_names_"))
    canary_names = set()
    try:
        (root / "doc.json").write_text(json.dumps(doc))
        config = Config.from_sources(ConfigFile(post_hooks=[]), MetaType("none"), root / "doc.json", "utf-8", False, output_path=root / "out")
        with contextlib.redirect_stdout(io.StringIO()):
            errs = list(generate(config=config))
        if errs:
            problems.append("probe document produced diagnostics: " + "; ".join(f"{e.header}: {e.detail}" for e in errs)[:600])
        out = root / "out"
        n_model = n_ep = 0
        for f in sorted(out.rglob("*.py")):
            rel = f.relative_to(out).as_posix()
            src = f.read_text(encoding="utf-8")
            if rel.startswith("models/") and rel != "models/__init__.py":
                if "class " in src and "_attrs_define" in src:
                    scan_module("model", src, rel, scopes, problems); n_model += 1
                else:
                    scan_module("enum", src, rel, scopes, problems)
            elif rel.startswith("api/") and not rel.endswith("__init__.py"):
                scan_module("endpoint", src, rel, scopes, problems); n_ep += 1
            elif rel in ("client.py", "types.py", "errors.py"):
                scan_module("package." + rel[:-3], src, rel, scopes, problems)
        if n_model < 10 or n_ep < 10:
            problems.append(f"probe generated only {n_model} model and {n_ep} endpoint modules")
    except BaseException as e:  # noqa
        problems.append("probe generation raised " + repr(e))
    finally:
        shutil.rmtree(root, ignore_errors=True)
    for s in REQUIRED_SCOPES:
        if not scopes.get(s):
            problems.append("required scope missing in the generated code: " + s)
    # ---- subtract document-derived names; keep what the template added around them as derived patterns
    props = set()
    def walk(x):
        if isinstance(x, dict):
            for k, v in x.items():
                if isinstance(k, str) and CANARY in k.lower():
                    props.add(k)
                if k == "name" and isinstance(v, str):
                    props.add(v)
                walk(v)
        elif isinstance(x, list):
            for v in x:
                walk(v)
    walk(doc)
    pynames = sorted({str(utils.PythonIdentifier(p, "field_")) for p in props}, key=lambda s: (-len(s), s))
    patterns = {}
    table = []
    for scope in sorted(scopes):
        for n in sorted(scopes[scope]):
            if CANARY in n.lower():
                for p in pynames:
                    i = n.find(p)
                    if i >= 0:
                        pre, suf = n[:i], n[i + len(p):]
                        if (pre or suf) and CANARY not in (pre + suf).lower():
                            patterns.setdefault((pre, suf), set()).add(scope)
                        break
                continue
            if not n.isidentifier():
                continue
            table.append((scope, n))
    kws = sorted(keyword.kwlist)
    for k in kws:
        table.append(("python.keyword", k))
    for k in sorted(keyword.softkwlist):
        table.append(("python.softkeyword", k))
    for k in sorted(dir(builtins)):
        table.append(("python.builtin", k))
    for k in sorted(set(kws) | set(keyword.softkwlist) | {"self", "true", "false", "datetime", "id"} | set(utils.RESERVED_WORDS) - set(dir(builtins))):
        for v in {k.capitalize(), k.upper(), k.lower()}:
            if v != k and v.isidentifier():
                table.append(("python.variant", v))
    table = sorted(set(table))
    # ---- every spelling that python_identifier could map onto a template-bound name N if one of its steps (the underscore test on the
    #      RAW value, sanitize, snake_case, lower-casing, the reserved-word suffix) were reordered or dropped
    targets = sorted({n for sc, n in table if sc.startswith(("model.", "endpoint.", "enum."))})
    spellings = []
    for N in targets:
        for sp in sorted({"_" + N, "__" + N, N + "_", " " + N, "-" + N, N + "-", N.upper(), N.title(), N.capitalize(), N.lower()} - {N}):
            spellings.append((sp, N))
    known = not problems
    # ---- outputs
    lines = ["(* GENERATED by harness/translate/gen_names.py from the ast/symtable of a probe client generated by the tree under verification. Do not edit. *)",
             "From Coq Require Import NArith List.", "Import ListNotations.", "Open Scope N_scope.", "",
             f"Definition gen_names_known : bool := {'true' if known else 'false'}.",
             "(* (scope, identifier): every identifier the generated code itself binds or reads, per scope; plus keywords / soft keywords / builtins *)",
             "Definition template_names : list (list N * list N) := ["]
    lines.append(";\n".join(f"  ({cstr(s)}, {cstr(n)})" for s, n in table))
    lines.append("].")
    lines.append("(* what the templates add around a document-derived local: (prefix, suffix) *)")
    lines.append("Definition derived_patterns : list (list N * list N) := [" + "; ".join(f"({cstr(a)}, {cstr(b)})" for a, b in sorted(patterns)) + "].")
    lines.append("(* identifiers bound or read by the generated model / endpoint / enum modules (any scope) *)")
    lines.append("Definition template_idents : list (list N) := [" + "; ".join(cstr(n) for n in targets) + "].")
    lines.append("(* (document spelling, template identifier it must not be confused with) *)")
    lines.append("Definition spelling_names : list (list N * list N) := [\n" + ";\n".join(f"  ({cstr(a)}, {cstr(b)})" for a, b in spellings) + "\n].")
    for p in problems:
        lines.append("(* PROBLEM: " + p.replace("*)", "* )").replace('"', "'") + " *)")
    text = "\n".join(lines) + "\n"
    os.makedirs(os.path.dirname(OUT), exist_ok=True)
    if not os.path.exists(OUT) or open(OUT, encoding="utf-8").read() != text:
        with open(OUT, "w", encoding="utf-8") as f:
            f.write(text)
    cands = {}
    for s, n in table:
        cands.setdefault(n, []).append(s)
    side = {"known": known, "problems": problems, "repo": REPO,
            "candidates": [{"name": n, "scopes": sc} for n, sc in sorted(cands.items())],
            "patterns": [{"prefix": a, "suffix": b, "scopes": sorted(sc)} for (a, b), sc in sorted(patterns.items())],
            "spellings": [{"name": a, "target": b} for a, b in spellings],
            "reserved_words": sorted(utils.RESERVED_WORDS), "keywords": kws}
    os.makedirs(os.path.dirname(SIDE), exist_ok=True)
    with open(SIDE, "w", encoding="utf-8") as f:
        json.dump(side, f, indent=0, sort_keys=True)
    print(f"gen_names: {len(spellings)} spellings of {len(targets)} template identifiers;")
    print(f"gen_names: {len(table)} (scope, name) pairs, {len(cands)} distinct candidates, {len(patterns)} derived patterns, known={known}")
    for p in problems:
        print("PROBLEM:", p)
    return 0 if known else 1


if __name__ == "__main__":
    try:
        rc = main()
    except BaseException as e:  # noqa
        import traceback
        traceback.print_exc()
        try:
            with open(OUT, "w", encoding="utf-8") as f:
                f.write("From Coq Require Import NArith List.\nImport ListNotations.\nDefinition gen_names_known : bool := false.\n"
                        "Definition template_names : list (list N * list N) := [].\nDefinition derived_patterns : list (list N * list N) := [].\n"
                        "Definition template_idents : list (list N) := [].\nDefinition spelling_names : list (list N * list N) := [].\n")
        except OSError:
            pass
        rc = 1
    sys.exit(rc)
