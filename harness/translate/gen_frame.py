"""Translator: regenerate coq/gen/GenFrame.v = the option read-site table (property C16).

 gen_option_reads : every syntactic read of a configuration option, as rows (option, file, site, context, via):
   (a) Python: `ast` scan of openapi_python_client/**/*.py (config.py itself is the definition of the options and is scanned
       separately, see gen_merge) for attribute reads `<cfg>.<field>` where <cfg> is a Config-valued expression: the name
       `config`, `self.config`, any parameter annotated `Config`.  site = enclosing Class.function; context = how the value is
       used (`test` = decides an if/conditional, `arg:<callee>:<keyword|index>` = passed to a call, `iter`, `method:<name>`,
       `value`).
   (b) derived values: attributes `self.X` of Project assigned in Project.__init__ from expressions that read options (directly,
       through earlier derived attributes, or under an `if` that tests one) carry those options; every later read of `self.X` is
       a row with via = "self.X".  Names handed to the templates (env.globals.update(k=...), get_template(globals={...}),
       .render(k=...)) whose value carries options become derived template globals.
   (c) templates: Jinja AST of every template (same Environment options as Project) for `config.<field>` reads
       (site = enclosing macro or <template>) and for free uses of a derived template global (via = the global's name).
   Every use of a Config-valued expression that is none of {attribute read of a Config field, passed on as an argument to a
   function/class of the package that takes a `config` parameter/field, stored as self.config, injected as the template global
   `config`} is emitted as a row with option `?` (unknown) => Frame.frame evaluates to false.  Fail closed: exception => exit 1.

 gen_config_fields / gen_configfile_fields (with the run-time defaults of ConfigFile()) / gen_readme_options (the `###` headings
 of the README's Configuration section) / gen_merge (how Config.from_sources fills each Config field) / gen_py_space (code points
 with str.isspace(), used by the model of email.message.Message.get_content_type's strip()).
"""
import ast, json, os, re, sys

HERE = os.path.dirname(os.path.abspath(__file__))
REPO = os.environ.get("OPC_REPO", "/repo")
PKGNAME = "openapi_python_client"
PKG = os.path.join(REPO, PKGNAME)
sys.path.insert(0, REPO)

UNKNOWN = "?"


def coq_str(s):
    return "[" + ";".join(str(ord(c)) for c in s) + "]%N" if s else "(@nil N)"


def cmt(s):
    return s.replace("*)", "* )").replace("(*", "( *").replace('"', "'")


# ---------------------------------------------------------------------------------------------- facts from config.py (imported)
def config_facts():
    from openapi_python_client.config import Config, ConfigFile
    import attr
    cfg_fields = [a.name for a in attr.fields(Config)]
    cf = ConfigFile()
    cf_fields = []
    for name in ConfigFile.model_fields:
        cf_fields.append((name, repr(getattr(cf, name))))
    return cfg_fields, cf_fields


def readme_options():
    txt = open(os.path.join(REPO, "README.md"), encoding="utf-8").read()
    m = re.search(r"^## Configuration\s*$(.*?)(?=^## |\Z)", txt, re.S | re.M)
    if not m:
        raise RuntimeError("README.md has no '## Configuration' section")
    out = []
    for h in re.findall(r"^### (.+?)\s*$", m.group(1), re.M):
        for part in h.split(" and "):
            out.append(part.strip())
    return out


def merge_facts(cfg_fields):
    """How Config.from_sources fills every field of Config."""
    src = open(os.path.join(PKG, "config.py"), encoding="utf-8").read()
    tree = ast.parse(src)
    fn = None
    for c in ast.walk(tree):
        if isinstance(c, ast.ClassDef) and c.name == "Config":
            for f in c.body:
                if isinstance(f, ast.FunctionDef) and f.name == "from_sources":
                    fn = f
    if fn is None:
        raise RuntimeError("Config.from_sources not found")
    params = [a.arg for a in fn.args.args + fn.args.kwonlyargs]
    cfname = params[0]
    calls = [n for n in ast.walk(fn) if isinstance(n, ast.Call) and isinstance(n.func, ast.Name) and n.func.id == "Config"]
    if len(calls) != 1 or calls[0].args:
        raise RuntimeError("Config.from_sources: expected exactly one keyword-only Config(...) call")
    rows = []

    def is_cf_attr(e):
        return isinstance(e, ast.Attribute) and isinstance(e.value, ast.Name) and e.value.id == cfname

    # locals assigned in from_sources: name -> classification
    local_kind = {}
    for st in fn.body:
        if isinstance(st, ast.If):
            # the post_hooks shape: if <cf>.F is not None: v = <cf>.F  elif/else: v = [constants...]
            t = st.test
            ok = (isinstance(t, ast.Compare) and len(t.ops) == 1 and isinstance(t.ops[0], ast.IsNot) and is_cf_attr(t.left)
                  and isinstance(t.comparators[0], ast.Constant) and t.comparators[0].value is None
                  and len(st.body) == 1 and isinstance(st.body[0], ast.Assign) and len(st.body[0].targets) == 1
                  and isinstance(st.body[0].targets[0], ast.Name) and is_cf_attr(st.body[0].value) and st.body[0].value.attr == t.left.attr)
            if ok:
                var = st.body[0].targets[0].id
                # every other branch assigns the same variable a list of string constants, tests mention only parameters
                def branches(node):
                    out = []
                    for o in node.orelse:
                        if isinstance(o, ast.If):
                            out.append((o.test, o.body))
                            out.extend(branches(o))
                        else:
                            out.append((None, node.orelse))
                            break
                    return out
                good = True
                for test, body in branches(st):
                    if not (len(body) == 1 and isinstance(body[0], ast.Assign) and isinstance(body[0].targets[0], ast.Name) and body[0].targets[0].id == var
                            and isinstance(body[0].value, ast.List) and all(isinstance(e, ast.Constant) and isinstance(e.value, str) for e in body[0].value.elts)):
                        good = False
                    if test is not None and any(isinstance(n, ast.Name) and n.id == cfname for n in ast.walk(test)):
                        good = False
                local_kind[var] = ("file_or_default", t.left.attr) if good else ("unknown", var)
            else:
                for n in ast.walk(st):
                    if isinstance(n, (ast.Assign, ast.AnnAssign, ast.AugAssign)):
                        for tg in (n.targets if isinstance(n, ast.Assign) else [n.target]):
                            if isinstance(tg, ast.Name):
                                local_kind[tg.id] = ("unknown", tg.id)
        elif isinstance(st, (ast.Assign, ast.AnnAssign)):
            for tg in (st.targets if isinstance(st, ast.Assign) else [st.target]):
                if isinstance(tg, ast.Name) and tg.id != "config":
                    local_kind[tg.id] = ("unknown", tg.id)
    seen = set()
    for kw in calls[0].keywords:
        if kw.arg is None:
            rows.append((UNKNOWN, "unknown", "**"))
            continue
        v = kw.value
        seen.add(kw.arg)
        if is_cf_attr(v):
            rows.append((kw.arg, "file", v.attr))
        elif (isinstance(v, ast.BoolOp) and isinstance(v.op, ast.Or) and len(v.values) == 2 and is_cf_attr(v.values[0])
              and isinstance(v.values[1], (ast.Dict, ast.List)) and not (v.values[1].keys if isinstance(v.values[1], ast.Dict) else v.values[1].elts)):
            rows.append((kw.arg, "file_or_empty", v.values[0].attr))
        elif isinstance(v, ast.Name) and v.id in local_kind:
            rows.append((kw.arg, local_kind[v.id][0], local_kind[v.id][1]))
        elif isinstance(v, ast.Name) and v.id in params and v.id != cfname:
            rows.append((kw.arg, "param", v.id))
        else:
            rows.append((kw.arg, "unknown", ast.unparse(v)[:60]))
    for f in cfg_fields:
        if f not in seen:
            rows.append((f, "unknown", "not passed"))
    return rows


# ---------------------------------------------------------------------------------------------- Python scan
class Ctx:
    pass


def parent_map(tree):
    pm = {}
    for n in ast.walk(tree):
        for fname, val in ast.iter_fields(n):
            if isinstance(val, ast.AST):
                pm[val] = (n, fname)
            elif isinstance(val, list):
                for x in val:
                    if isinstance(x, ast.AST):
                        pm[x] = (n, fname)
    return pm


def callee_name(call):
    f = call.func
    if isinstance(f, ast.Name):
        return f.id
    if isinstance(f, ast.Attribute):
        return f.attr
    return "<expr>"


def py_context(node, pm):
    """Classify how the value of `node` is used."""
    cur = node
    while True:
        p, fname = pm.get(cur, (None, None))
        if p is None:
            return "value"
        if isinstance(p, (ast.BoolOp, ast.Compare)) or (isinstance(p, ast.UnaryOp) and isinstance(p.op, ast.Not)):
            # a comparison / boolean combination: keep climbing; remember that the value was tested
            nxt, nf = pm.get(p, (None, None))
            if isinstance(nxt, (ast.If, ast.IfExp, ast.While)) and nf == "test":
                return "test"
            if isinstance(p, ast.BoolOp) and isinstance(p.op, ast.Or) and not isinstance(nxt, (ast.BoolOp, ast.If, ast.IfExp, ast.While, ast.UnaryOp, ast.Compare)):
                return "value"    # `x or default`
            cur = p
            continue
        if isinstance(p, (ast.If, ast.IfExp, ast.While)) and fname == "test":
            return "test"
        if isinstance(p, ast.Call):
            if fname == "args":
                return "arg:%s:%d" % (callee_name(p), p.args.index(cur))
            if fname == "func":
                return "called"
        if isinstance(p, ast.keyword):
            c, _ = pm[p]
            if isinstance(c, ast.Call):
                return "arg:%s:%s" % (callee_name(c), p.arg)
        if isinstance(p, (ast.For, ast.comprehension)) and fname == "iter":
            return "iter"
        if isinstance(p, ast.Attribute) and fname == "value":
            gp, gf = pm.get(p, (None, None))
            if isinstance(gp, ast.Call) and gf == "func":
                return "method:" + p.attr
            return "attr:" + p.attr
        if isinstance(p, ast.Subscript) and fname == "value":
            return "subscript"
        return "value"


def enclosing_site(node, pm):
    names = []
    cur = node
    while cur in pm:
        cur = pm[cur][0]
        if isinstance(cur, (ast.FunctionDef, ast.AsyncFunctionDef, ast.ClassDef)):
            names.append(cur.name)
    return ".".join(reversed(names)) if names else "<module>"


def enclosing_function(node, pm):
    cur = node
    while cur in pm:
        cur = pm[cur][0]
        if isinstance(cur, (ast.FunctionDef, ast.AsyncFunctionDef)):
            return cur
    return None


def ann_is_config(a):
    if a is None:
        return False
    s = ast.unparse(a).replace('"', "").replace("'", "")
    return s in ("Config", "config.Config", "openapi_python_client.config.Config", "openapi_python_client.Config")


class PyScan:
    def __init__(self, cfg_fields):
        self.cfg_fields = set(cfg_fields)
        self.rows = []          # (opt, file, site, ctx, via)
        self.takers = set()     # names of functions / classes of the package that accept a `config` parameter or field
        self.trees = {}
        self.derived_globals = {}   # template global name -> set of options
        self.project_derived = {}

    def load(self):
        for root, dirs, files in os.walk(PKG):
            dirs.sort()
            if "templates" in root.split(os.sep):
                continue
            for f in sorted(files):
                if f.endswith(".py"):
                    p = os.path.join(root, f)
                    rel = os.path.relpath(p, PKG).replace(os.sep, "/")
                    self.trees[rel] = ast.parse(open(p, encoding="utf-8").read())
        if len(self.trees) < 20:
            raise RuntimeError("implausibly few python files")
        for rel, tree in self.trees.items():
            for n in ast.walk(tree):
                if isinstance(n, (ast.FunctionDef, ast.AsyncFunctionDef)):
                    a = n.args
                    for arg in a.args + a.kwonlyargs + a.posonlyargs:
                        if arg.arg == "config" or ann_is_config(arg.annotation):
                            self.takers.add(n.name)
                elif isinstance(n, ast.ClassDef):
                    for st in n.body:
                        if isinstance(st, ast.AnnAssign) and isinstance(st.target, ast.Name) and (st.target.id == "config" or ann_is_config(st.annotation)):
                            self.takers.add(n.name)
                        if isinstance(st, ast.FunctionDef) and st.name == "__init__":
                            for arg in st.args.args + st.args.kwonlyargs:
                                if arg.arg == "config" or ann_is_config(arg.annotation):
                                    self.takers.add(n.name)

    # ---- which expressions are Config-valued
    def cfg_names(self, fn):
        names = {"config"}
        if fn is not None:
            a = fn.args
            for arg in a.args + a.kwonlyargs + a.posonlyargs:
                if ann_is_config(arg.annotation):
                    names.add(arg.arg)
        return names

    def is_cfg(self, e, pm):
        if isinstance(e, ast.Name):
            return e.id in self.cfg_names(enclosing_function(e, pm))
        if isinstance(e, ast.Attribute) and e.attr == "config" and isinstance(e.value, ast.Name) and e.value.id in ("self", "cls"):
            return True
        return False

    def scan_file(self, rel, tree):
        if rel == "config.py":
            return
        pm = parent_map(tree)
        for n in ast.walk(tree):
            if not isinstance(n, (ast.Name, ast.Attribute)) or not self.is_cfg(n, pm):
                continue
            p, fname = pm.get(n, (None, None))
            site = enclosing_site(n, pm)
            ctx_store = isinstance(getattr(n, "ctx", None), (ast.Store, ast.Del))
            line = n.lineno
            # (1) attribute read
            if isinstance(p, ast.Attribute) and fname == "value":
                if isinstance(p.ctx, ast.Load) and p.attr in self.cfg_fields:
                    self.rows.append((p.attr, rel, site, py_context(p, pm), "", line))
                elif isinstance(n, ast.Name) and n.id == "config" and isinstance(p.value, ast.Name) and p.attr == "config":
                    pass
                else:
                    self.rows.append((UNKNOWN, rel, site, "attr:" + p.attr, "", line))
                continue
            # (2) binding occurrences
            if ctx_store:
                if isinstance(n, ast.Attribute):      # self.config = <something>
                    val = p.value if isinstance(p, (ast.Assign, ast.AnnAssign)) else None
                    if val is not None and self.is_cfg(val, pm):
                        continue
                    self.rows.append((UNKNOWN, rel, site, "rebinding self.config", "", line))
                else:
                    # `config = f(...)`: a fresh Config from a call of the package is fine (cli.generate); anything else is unknown
                    val = p.value if isinstance(p, (ast.Assign, ast.AnnAssign)) else None
                    if isinstance(val, ast.Call) and callee_name(val) in ("_process_config", "from_sources", "Config"):
                        continue
                    self.rows.append((UNKNOWN, rel, site, "rebinding config", "", line))
                continue
            # (3) passed on
            if isinstance(p, ast.keyword):
                call = pm[p][0]
                cn = callee_name(call) if isinstance(call, ast.Call) else "?"
                if isinstance(call, ast.Call) and p.arg == "config" and cn in self.takers:
                    continue
                if isinstance(call, ast.Call) and p.arg == "config" and cn == "update" and "globals" in ast.unparse(call.func):
                    continue      # env.globals.update(config=config): handled by the template scan
                if isinstance(call, ast.Call) and p.arg == "config" and cn == "evolve":
                    # attr.evolve(x, config=config) does not occur; fail closed
                    pass
                self.rows.append((UNKNOWN, rel, site, "passed to %s(%s=)" % (cn, p.arg), "", line))
                continue
            if isinstance(p, ast.Call) and fname == "args":
                cn = callee_name(p)
                if cn in self.takers:
                    continue
                self.rows.append((UNKNOWN, rel, site, "passed to %s()" % cn, "", line))
                continue
            # (4) the right-hand side of self.config = config
            if isinstance(p, (ast.Assign, ast.AnnAssign)) and fname == "value":
                tg = p.targets[0] if isinstance(p, ast.Assign) else p.target
                if isinstance(tg, ast.Attribute) and tg.attr == "config" and isinstance(tg.value, ast.Name) and tg.value.id == "self":
                    continue
                self.rows.append((UNKNOWN, rel, site, "aliased", "", line))
                continue
            self.rows.append((UNKNOWN, rel, site, "other use: " + type(p).__name__, "", line))
        # dynamic access by name
        for n in ast.walk(tree):
            if isinstance(n, ast.Call) and isinstance(n.func, ast.Name) and n.func.id in ("getattr", "vars", "asdict", "astuple") and n.args and self.is_cfg(n.args[0], pm):
                pass   # already reported by (3) (callee not a taker)

    # ---- derived attributes of Project and template globals
    def options_of(self, e, pm_unused, derived):
        """options carried by expression e: direct config reads + derived self.X attributes"""
        out = set()
        for n in ast.walk(e):
            if isinstance(n, ast.Attribute):
                if n.attr in self.cfg_fields and (isinstance(n.value, ast.Name) and n.value.id == "config" or
                                                  isinstance(n.value, ast.Attribute) and n.value.attr == "config"):
                    out.add(n.attr)
                elif isinstance(n.value, ast.Name) and n.value.id == "self" and n.attr in derived:
                    out |= derived[n.attr]
        return out

    def derive_project(self):
        rel = "__init__.py"
        tree = self.trees[rel]
        pm = parent_map(tree)
        proj = [n for n in tree.body if isinstance(n, ast.ClassDef) and n.name == "Project"]
        if len(proj) != 1:
            raise RuntimeError("class Project not found")
        proj = proj[0]
        init = [f for f in proj.body if isinstance(f, ast.FunctionDef) and f.name == "__init__"][0]
        derived = {}

        def walk(stmts, control):
            for st in stmts:
                if isinstance(st, ast.If):
                    c2 = control | self.options_of(st.test, pm, derived)
                    walk(st.body, c2)
                    walk(st.orelse, c2)
                elif isinstance(st, (ast.Assign, ast.AnnAssign)):
                    tgs = st.targets if isinstance(st, ast.Assign) else [st.target]
                    val = st.value
                    for tg in tgs:
                        if isinstance(tg, ast.Attribute) and isinstance(tg.value, ast.Name) and tg.value.id == "self" and tg.attr != "config":
                            opts = set(control)
                            if val is not None:
                                opts |= self.options_of(val, pm, derived)
                            if opts:
                                derived[tg.attr] = derived.get(tg.attr, set()) | opts
                elif isinstance(st, (ast.For, ast.While, ast.With, ast.Try)):
                    for fld in ("body", "orelse", "finalbody"):
                        walk(getattr(st, fld, []) or [], control)
        walk(init.body, set())
        self.project_derived = derived
        # reads of derived attributes anywhere in the class
        for n in ast.walk(proj):
            if isinstance(n, ast.Attribute) and isinstance(n.ctx, ast.Load) and isinstance(n.value, ast.Name) and n.value.id == "self" and n.attr in derived:
                site = enclosing_site(n, pm)
                for o in sorted(derived[n.attr]):
                    self.rows.append((o, rel, site, py_context(n, pm), "self." + n.attr, n.lineno))
        # the class must not hand `self` to anything that could read derived attributes dynamically: self passed as an argument
        for n in ast.walk(proj):
            if isinstance(n, ast.Call):
                for a in list(n.args) + [k.value for k in n.keywords]:
                    if isinstance(a, ast.Name) and a.id == "self":
                        self.rows.append((UNKNOWN, rel, enclosing_site(n, pm), "self passed to " + callee_name(n), "", n.lineno))
        # template globals
        g = {}
        for rel2, tree2 in self.trees.items():
            for n in ast.walk(tree2):
                if not isinstance(n, ast.Call):
                    continue
                cn = callee_name(n)
                fsrc = ast.unparse(n.func)
                kws = []
                if cn == "update" and "globals" in fsrc:
                    if n.args:
                        kws.append((None, n.args[0]))
                    kws += [(k.arg, k.value) for k in n.keywords]
                elif cn == "render":
                    if n.args:
                        kws.append((None, n.args[0]))
                    kws += [(k.arg, k.value) for k in n.keywords]
                elif cn in ("get_template", "from_string", "select_template", "get_or_select_template"):
                    for k in n.keywords:
                        if k.arg == "globals":
                            if isinstance(k.value, ast.Dict) and all(isinstance(x, ast.Constant) for x in k.value.keys):
                                kws += [(x.value, v) for x, v in zip(k.value.keys, k.value.values)]
                            else:
                                kws.append((None, k.value))
                elif isinstance(n.func, ast.Attribute) and n.func.attr in ("globals", "filters", "tests"):
                    pass
                for name, val in kws:
                    if name == "config" and isinstance(val, ast.Name) and val.id == "config":
                        continue
                    opts = self.options_of(val, None, derived if rel2 == "__init__.py" else {})
                    if name is None:
                        if opts or any(isinstance(x, ast.Name) and x.id in ("config", "self") for x in ast.walk(val)):
                            g.setdefault(UNKNOWN + ":positional-context", set()).add(UNKNOWN)
                        continue
                    if opts:
                        g[name] = g.get(name, set()) | opts
            # subscript assignment env.globals["k"] = v / env.filters[...]
            for n in ast.walk(tree2):
                if isinstance(n, ast.Assign) and isinstance(n.targets[0], ast.Subscript):
                    s = n.targets[0]
                    if isinstance(s.value, ast.Attribute) and s.value.attr in ("globals", "filters", "tests"):
                        opts = self.options_of(n.value, None, derived if rel2 == "__init__.py" else {})
                        key = s.slice.value if isinstance(s.slice, ast.Constant) else None
                        if opts or any(isinstance(x, ast.Name) and x.id == "config" for x in ast.walk(n.value)):
                            g[key if isinstance(key, str) else UNKNOWN + ":dynamic-global"] = opts or {UNKNOWN}
        self.derived_globals = g


# ---------------------------------------------------------------------------------------------- template scan
def scan_templates(cfg_fields, derived_globals):
    import jinja2
    from jinja2 import nodes, meta
    tdir = os.path.join(PKG, "templates")
    env = jinja2.Environment(loader=jinja2.FileSystemLoader(tdir), trim_blocks=True, lstrip_blocks=True, extensions=["jinja2.ext.loopcontrols"], keep_trailing_newline=True)
    rows = []
    count = 0
    for root, dirs, files in os.walk(tdir):
        dirs.sort()
        for f in sorted(files):
            p = os.path.join(root, f)
            rel = "templates/" + os.path.relpath(p, tdir).replace(os.sep, "/")
            src = open(p, encoding="utf-8").read()
            tree = env.parse(src)
            count += 1
            undeclared = meta.find_undeclared_variables(tree)

            def ctx_of(stack):
                # stack: list of (node, fieldname-in-parent) from root to the node itself
                i = len(stack) - 1
                while i > 0:
                    node, fld = stack[i]
                    parent = stack[i - 1][0]
                    if isinstance(parent, (nodes.If, nodes.CondExpr)) and fld == "test":
                        return "test"
                    if isinstance(parent, (nodes.Not, nodes.And, nodes.Or, nodes.Compare, nodes.Operand, nodes.Test)):
                        i -= 1
                        continue
                    if isinstance(parent, nodes.Keyword):
                        call = stack[i - 2][0] if i >= 2 else None
                        cn = call.node.name if isinstance(call, nodes.Call) and isinstance(call.node, nodes.Name) else "<expr>"
                        return "arg:%s:%s" % (cn, parent.key)
                    if isinstance(parent, nodes.Call) and fld == "args":
                        cn = parent.node.name if isinstance(parent.node, nodes.Name) else "<expr>"
                        return "arg:%s:%d" % (cn, parent.args.index(node))
                    if isinstance(parent, nodes.Filter):
                        return "filter:" + parent.name
                    if isinstance(parent, nodes.Output):
                        return "output"
                    if isinstance(parent, nodes.For) and fld == "iter":
                        return "iter"
                    return "value"
                return "value"

            def site_of(stack):
                for node, _ in reversed(stack):
                    if isinstance(node, nodes.Macro):
                        return node.name
                return "<template>"

            def walk(node, stack):
                if isinstance(node, nodes.Name) and node.name == "config":
                    parent, fld = (stack[-2][0], stack[-1][1]) if len(stack) >= 2 else (None, None)
                    if node.ctx != "load":
                        rows.append((UNKNOWN, rel, site_of(stack), "config rebound in template", "", node.lineno))
                    elif isinstance(parent, nodes.Getattr) and fld == "node":
                        if parent.attr in cfg_fields and parent.ctx == "load":
                            rows.append((parent.attr, rel, site_of(stack), ctx_of(stack[:-1]), "", node.lineno))
                        else:
                            rows.append((UNKNOWN, rel, site_of(stack), "attr:" + parent.attr, "", node.lineno))
                    elif isinstance(parent, nodes.Getitem) and fld == "node" and isinstance(parent.arg, nodes.Const) and parent.arg.value in cfg_fields:
                        rows.append((parent.arg.value, rel, site_of(stack), ctx_of(stack[:-1]), "", node.lineno))
                    else:
                        rows.append((UNKNOWN, rel, site_of(stack), "config used as a value", "", node.lineno))
                elif isinstance(node, nodes.Name) and node.ctx == "load" and node.name in derived_globals and node.name in undeclared:
                    for o in sorted(derived_globals[node.name]):
                        rows.append((o, rel, site_of(stack), ctx_of(stack), node.name, node.lineno))
                for fld, val in node.iter_fields():
                    if isinstance(val, nodes.Node):
                        walk(val, stack + [(val, fld)])
                    elif isinstance(val, list):
                        for x in val:
                            if isinstance(x, nodes.Node):
                                walk(x, stack + [(x, fld)])
                            elif isinstance(x, tuple):
                                for y in x:
                                    if isinstance(y, nodes.Node):
                                        walk(y, stack + [(y, fld)])
            walk(tree, [(tree, None)])
    if count < 25:
        raise RuntimeError("implausibly few templates (%d)" % count)
    return rows


# ---------------------------------------------------------------------------------------------- writers of generated files
def scan_writers(trees, cfg_fields):
    """every call that writes a file (Path.write_text / write_bytes / open in a writing or unknown mode) in the package:
    (file, site, callee, encoded) where encoded = the call passes encoding=<config>.file_encoding"""
    rows = []
    for rel, tree in sorted(trees.items()):
        pm = parent_map(tree)
        for n in ast.walk(tree):
            if not isinstance(n, ast.Call):
                continue
            cn = callee_name(n)
            if cn in ("write_text", "write_bytes", "writelines") or (cn == "write" and isinstance(n.func, ast.Attribute)):
                pass
            elif cn == "open":
                mode = None
                if len(n.args) >= 2 and isinstance(n.func, ast.Name):
                    mode = n.args[1]
                elif isinstance(n.func, ast.Attribute) and n.args:
                    mode = n.args[0]
                for k in n.keywords:
                    if k.arg == "mode":
                        mode = k.value
                if mode is None or (isinstance(mode, ast.Constant) and isinstance(mode.value, str) and not set(mode.value) & set("wax+")):
                    continue        # reading
            else:
                continue
            enc = False
            for k in n.keywords:
                if k.arg == "encoding":
                    v = k.value
                    enc = (isinstance(v, ast.Attribute) and v.attr == "file_encoding" and
                           (isinstance(v.value, ast.Name) and v.value.id == "config" or isinstance(v.value, ast.Attribute) and v.value.attr == "config"))
            rows.append((rel, enclosing_site(n, pm), cn, enc, n.lineno))
    return rows


# ---------------------------------------------------------------------------------------------- triple-quoted literals in templates
def scan_docstring_literals():
    """every `{{ expression }}` that a template places lexically INSIDE a triple-quoted Python literal: (template, expression).
    Document text must only reach such a place through helpers.jinja's safe_docstring (raw literal when a backslash occurs)."""
    tdir = os.path.join(PKG, "templates")
    rows = []
    for root, dirs, files in os.walk(tdir):
        dirs.sort()
        for f in sorted(files):
            if not (f.endswith(".py.jinja") or f == "helpers.jinja" or f.endswith(".jinja") and "property_templates" in root):
                continue
            p = os.path.join(root, f)
            rel = "templates/" + os.path.relpath(p, tdir).replace(os.sep, "/")
            src = open(p, encoding="utf-8").read()
            # drop jinja comments
            src = re.sub(r"\{#.*?#\}", lambda m: "\n" * m.group(0).count("\n"), src, flags=re.S)
            inside, i, line = False, 0, 1
            while i < len(src):
                if src.startswith('"""', i) or src.startswith("'''", i):
                    inside = not inside
                    i += 3
                    continue
                if src.startswith("{{", i):
                    j = src.find("}}", i)
                    if j < 0:
                        raise RuntimeError("unterminated {{ in " + rel)
                    if inside:
                        rows.append((rel, " ".join(src[i + 2:j].split()), line))
                    line += src[i:j].count("\n")
                    i = j + 2
                    continue
                if src[i] == "\n":
                    line += 1
                i += 1
            if inside:
                rows.append((rel, UNKNOWN + " unbalanced triple quotes", line))
    return rows


# ---------------------------------------------------------------------------------------------- what the metadata templates read
METADATA_TEMPLATES = ["pyproject.toml.jinja", "pyproject_ruff.toml.jinja", "setup.py.jinja", "README.md.jinja", ".gitignore.jinja"]


def scan_metadata_reads():
    """every free variable a metadata template reads, with its attribute / item chain: (template, dotted expression).
    Names the template binds itself ({% set %}, loop variables, macro parameters) are not free. A dynamic use (getattr-like
    filters, a free name passed whole to a call) is reported with the bare name, which is outside every documented set
    for context objects such as `openapi` or `config`."""
    import jinja2
    from jinja2 import nodes, meta
    tdir = os.path.join(PKG, "templates")
    env = jinja2.Environment(loader=jinja2.FileSystemLoader(tdir), trim_blocks=True, lstrip_blocks=True, extensions=["jinja2.ext.loopcontrols"], keep_trailing_newline=True)
    rows = []
    present = sorted(f for f in os.listdir(tdir) if os.path.isfile(os.path.join(tdir, f)))
    # the templates rendered by Project._build_metadata / _build_pyproject_toml / _build_setup_py (+ includes): fixed list, checked against the directory
    for f in METADATA_TEMPLATES:
        if f not in present:
            rows.append((f, UNKNOWN + " template missing"))
            continue
        tree = env.parse(open(os.path.join(tdir, f), encoding="utf-8").read())
        free = meta.find_undeclared_variables(tree)
        for inc in meta.find_referenced_templates(tree):
            if inc is None or inc not in METADATA_TEMPLATES:
                rows.append((f, UNKNOWN + " includes " + str(inc)))

        def chain(node):
            if isinstance(node, nodes.Name):
                return node.name if node.name in free else None
            if isinstance(node, nodes.Getattr):
                b = chain(node.node)
                return None if b is None else b + "." + node.attr
            if isinstance(node, nodes.Getitem) and isinstance(node.arg, nodes.Const):
                b = chain(node.node)
                return None if b is None else b + "." + str(node.arg.value)
            return None

        def walk(node, parent_is_chain):
            if isinstance(node, (nodes.Name, nodes.Getattr, nodes.Getitem)) and not parent_is_chain:
                c = chain(node)
                if c is not None and getattr(node, "ctx", "load") == "load":
                    rows.append((f, c))
            for child in node.iter_child_nodes():
                walk(child, isinstance(node, (nodes.Getattr, nodes.Getitem)) and child is node.node and chain(node) is not None)
        walk(tree, False)
    # the list must be what the metadata writers of Project actually load (string constants ending in .jinja in those functions)
    ptree = ast.parse(open(os.path.join(PKG, "__init__.py"), encoding="utf-8").read())
    used = set()
    for n in ast.walk(ptree):
        if isinstance(n, ast.FunctionDef) and n.name in ("_build_metadata", "_build_pyproject_toml", "_build_setup_py"):
            for c in ast.walk(n):
                if isinstance(c, ast.Constant) and isinstance(c.value, str) and c.value.endswith(".jinja"):
                    used.add(c.value)
    for f in sorted(used - set(METADATA_TEMPLATES)):
        rows.append((f, UNKNOWN + " metadata writer loads an unlisted template"))
    if not used:
        rows.append(("__init__.py", UNKNOWN + " no template constant found in the metadata writers"))
    # any other template whose name looks like metadata but is not in the list
    for f in present:
        if f not in METADATA_TEMPLATES and (f.endswith(".toml.jinja") or f.endswith(".md.jinja") or f.startswith("setup") or f.startswith(".")):
            rows.append((f, UNKNOWN + " unlisted metadata template"))
    out, seen = [], set()
    for r in rows:
        if r not in seen:
            seen.add(r); out.append(r)
    return out


# ---------------------------------------------------------------------------------------------- output
def collect():
    cfg_fields, cf_fields = config_facts()
    ps = PyScan(cfg_fields)
    ps.load()
    for rel, tree in sorted(ps.trees.items()):
        ps.scan_file(rel, tree)
    ps.derive_project()
    rows = ps.rows + scan_templates(set(cfg_fields), ps.derived_globals)
    for k in ps.derived_globals:
        if k.startswith(UNKNOWN):
            rows.append((UNKNOWN, "__init__.py", "<template globals>", k, "", 0))
    # de-duplicate (same option, file, site, ctx, via): the line is kept only in the comment
    out, seen = [], set()
    for r in sorted(rows, key=lambda r: (r[1], r[5], r[0], r[2], r[3], r[4])):
        k = r[:5]
        if k not in seen:
            seen.add(k)
            out.append(r)
    return {"reads": out, "config_fields": cfg_fields, "configfile_fields": cf_fields, "readme_options": readme_options(),
            "merge": merge_facts(cfg_fields), "py_space": [c for c in range(0x110000) if chr(c).isspace()],
            "writers": scan_writers(ps.trees, cfg_fields), "docstring_literals": scan_docstring_literals(), "metadata_reads": scan_metadata_reads(),
            "derived_globals": {k: sorted(v) for k, v in ps.derived_globals.items()},
            "project_derived": {k: sorted(v) for k, v in ps.project_derived.items()}}


def generate(d):
    L = ["(* GENERATED by harness/translate/gen_frame.py from openapi_python_client/**/*.py, the templates, config.py and README.md. Do not edit. *)\n",
         "From Coq Require Import NArith List.\nImport ListNotations.\n",
         "(* one syntactic read of a configuration option: option (or [63] = ? when unclassifiable), file, enclosing function / macro,\n"
         "   syntactic context of the value, and the derived name it was read through (empty = read directly from the Config object) *)\n",
         "Record read := { r_opt : list N; r_file : list N; r_site : list N; r_ctx : list N; r_via : list N }.\n\n",
         "Definition gen_option_reads : list read := [\n"]
    ents = []
    for (o, f, s, c, v, line) in d["reads"]:
        ents.append("  {| r_opt := %s; r_file := %s;\n     r_site := %s; r_ctx := %s; r_via := %s |}  (* %s  %s:%d %s [%s]%s *)" % (
            coq_str(o), coq_str(f), coq_str(s), coq_str(c), coq_str(v), cmt(o), cmt(f), line, cmt(s), cmt(c), (" via " + cmt(v)) if v else ""))
    L.append(";\n".join(ents))
    L.append("\n].\n\n")
    L.append("(* fields of config.Config *)\nDefinition gen_config_fields : list (list N) := [\n" + ";\n".join("  %s  (* %s *)" % (coq_str(f), f) for f in d["config_fields"]) + "\n].\n\n")
    L.append("(* fields of config.ConfigFile with repr() of the default of ConfigFile() *)\nDefinition gen_configfile_fields : list (list N * list N) := [\n" +
             ";\n".join("  (%s, %s)  (* %s = %s *)" % (coq_str(f), coq_str(v), f, cmt(v)) for f, v in d["configfile_fields"]) + "\n].\n\n")
    L.append("(* the ### headings of the README's Configuration section *)\nDefinition gen_readme_options : list (list N) := [\n" +
             ";\n".join("  %s  (* %s *)" % (coq_str(f), cmt(f)) for f in d["readme_options"]) + "\n].\n\n")
    L.append("(* Config.from_sources: (Config field, how it is filled, from what) *)\nDefinition gen_merge : list (list N * list N * list N) := [\n" +
             ";\n".join("  (%s, %s, %s)  (* %s <- %s %s *)" % (coq_str(a), coq_str(b), coq_str(c), cmt(a), cmt(b), cmt(c)) for a, b, c in d["merge"]) + "\n].\n\n")
    L.append("(* every call of the package that writes a file: (file, function, callee, passes encoding=config.file_encoding) *)\n"
             "Definition gen_writers : list (list N * list N * list N * bool) := [\n" +
             ";\n".join("  (%s, %s, %s, %s)  (* %s:%d %s %s *)" % (coq_str(f), coq_str(st), coq_str(cn), "true" if enc else "false", cmt(f), ln, cmt(st), cn)
                        for f, st, cn, enc, ln in d["writers"]) + "\n].\n\n")
    L.append("(* every {{ expression }} a template places inside a triple-quoted Python literal: (template, expression) *)\n"
             "Definition gen_docstring_literals : list (list N * list N) := [\n" +
             ";\n".join("  (%s, %s)  (* %s:%d %s *)" % (coq_str(f), coq_str(e), cmt(f), ln, cmt(e)) for f, e, ln in d["docstring_literals"]) + "\n].\n\n")
    L.append("(* every free variable (with attribute chain) a metadata template reads: (template, expression) *)\n"
             "Definition gen_metadata_reads : list (list N * list N) := [\n" +
             ";\n".join("  (%s, %s)  (* %s: %s *)" % (coq_str(f), coq_str(e), cmt(f), cmt(e)) for f, e in d["metadata_reads"]) + "\n].\n\n")
    L.append("(* code points c with chr(c).isspace() in the interpreter that runs the generator (str.strip() strips exactly these) *)\n"
             "Definition gen_py_space : list N := [" + "; ".join(str(c) for c in d["py_space"]) + "]%N.\n")
    return "".join(L)


def write_if_changed(path, text):
    old = None
    if os.path.exists(path):
        old = open(path, encoding="utf-8").read()
    if old != text:
        os.makedirs(os.path.dirname(path), exist_ok=True)
        tmp = path + ".tmp%d" % os.getpid()
        open(tmp, "w", encoding="utf-8").write(text)
        os.replace(tmp, path)
        return True
    return False


if __name__ == "__main__":
    d = collect()
    if "--json" in sys.argv:
        print(json.dumps(d, indent=1))
        sys.exit(0)
    if len(d["reads"]) < 20 or not any(r[1].startswith("templates/") for r in d["reads"]) or len(d["config_fields"]) < 10:
        print("gen_frame: implausible result")
        sys.exit(1)
    changed = write_if_changed(os.path.join(HERE, "..", "..", "coq", "gen", "GenFrame.v"), generate(d))
    print("GenFrame.v", "rewritten" if changed else "unchanged", "(%d reads, %d unknown, %d options)" % (
        len(d["reads"]), sum(r[0] == UNKNOWN for r in d["reads"]), len(d["config_fields"])))
