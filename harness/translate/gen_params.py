"""Translator: regenerate coq/gen/GenParams.v (facts used by coq/Refs.v, property C20).

From the `ast` of the working tree (never by importing the functions it describes) plus the pydantic field table:
  * gen_param_fields   : every field of oai.Parameter with a stable id and its constructor default;
  * gen_param_copied   : the fields `parameter_from_data` copies from the component into the Parameter it registers for references
                         (keywords `f=data.f` of the `Parameter(...)` call; `name=name` counts only if the single caller passes `name=data.name`);
  * gen_param_reads    : the fields of a RESOLVED parameter that `Endpoint.add_parameters` reads (every `param.<attr>` in the function);
                         the whole object may only flow into `parameter_from_reference(param=...)` (the resolver) and into `<error>.data = param`
                         (diagnostic payload); any other escape makes the fact `unknown`;
  * gen_ref_evolved    : the keyword names of the `evolve(existing, ...)` call in `_property_from_ref` (what a schema reference may change);
  * gen_response_prefix, gen_param_ref_prefix : the string constants of `ref_path.startswith(...)` in response_from_data and of the
                         f-string `#/components/parameters/{name}` in build_parameters;
  * the character tables of the interpreter's urllib.parse.urlsplit that the reference-string model depends on
    (leading strip set, removed characters, scheme characters, whether the empty scheme is in `uses_params`).
Fail closed: any source shape this script cannot classify sets `gen_params_known := false`, which breaks RefsThm.gen_params_facts."""
import ast, os, sys
REPO = os.environ.get("OPC_REPO", "/repo")
sys.path.insert(0, REPO)
OUT = os.path.join(os.path.dirname(os.path.abspath(__file__)), "..", "..", "coq", "gen", "GenParams.v")
PKG = os.path.join(REPO, "openapi_python_client")

CANON = ["name", "param_in", "required", "param_schema", "style", "explode", "description", "deprecated", "allowEmptyValue", "allowReserved",
         "example", "examples", "content"]


def cstr(s):
    return "[" + ";".join(str(ord(c)) for c in s) + "]%N" if s else "(@nil N)"


def find_func(tree, name):
    for n in ast.walk(tree):
        if isinstance(n, (ast.FunctionDef, ast.AsyncFunctionDef)) and n.name == name:
            return n
    return None


def parents(tree):
    par = {}
    for n in ast.walk(tree):
        for c in ast.iter_child_nodes(n):
            par[c] = n
    return par


def main():
    known = True
    notes = []

    def unknown(why):
        nonlocal known
        known = False
        notes.append(why)

    from openapi_python_client import schema as oai
    fields = list(oai.Parameter.model_fields.items())
    names = [n for n, _ in fields]
    ids = {}
    nxt = len(CANON)
    for n in names:
        if n in CANON:
            ids[n] = CANON.index(n)
        else:
            ids[n] = nxt
            nxt += 1
    for need in CANON[:4]:
        if need not in ids:
            unknown("oai.Parameter lost field " + need)
            ids[need] = CANON.index(need)

    def default_of(info):
        from pydantic_core import PydanticUndefined
        d = info.default
        if d is PydanticUndefined:
            return "DRequired"
        if d is None:
            return "DNone"
        if d is False:
            return "DFalse"
        if d is True:
            return "DTrue"
        return "DOther"

    # ---------------- copied fields
    src_s = open(os.path.join(PKG, "parser", "properties", "schemas.py"), encoding="utf-8").read()
    tree_s = ast.parse(src_s)
    copied = []
    f = find_func(tree_s, "parameter_from_data")
    if f is None:
        unknown("parameter_from_data not found")
    else:
        calls = [n for n in ast.walk(f) if isinstance(n, ast.Call) and isinstance(n.func, ast.Name) and n.func.id == "Parameter"]
        if len(calls) != 1:
            unknown("parameter_from_data: expected exactly one Parameter(...) call, found %d" % len(calls))
        else:
            c = calls[0]
            if c.args or any(k.arg is None for k in c.keywords):
                unknown("Parameter(...) call with positional / ** arguments")
            for k in c.keywords:
                if k.arg is None:
                    continue
                v = k.value
                if isinstance(v, ast.Attribute) and isinstance(v.value, ast.Name) and v.value.id == "data":
                    if v.attr == k.arg and k.arg in ids:
                        copied.append(k.arg)
                    else:
                        unknown(f"Parameter({k.arg}=data.{v.attr}) is not a plain field copy")
                elif isinstance(v, ast.Name) and v.id == "name" and k.arg == "name":
                    # name=name : the function argument; its only caller must pass name=data.name
                    up = find_func(tree_s, "update_parameters_with_data")
                    ok = False
                    if up is not None:
                        for n in ast.walk(up):
                            if isinstance(n, ast.Call) and isinstance(n.func, ast.Name) and n.func.id == "parameter_from_data":
                                for kk in n.keywords:
                                    if kk.arg == "name" and isinstance(kk.value, ast.Attribute) and isinstance(kk.value.value, ast.Name) \
                                            and kk.value.value.id == "data" and kk.value.attr == "name":
                                        ok = True
                    # and no other caller anywhere in the package
                    others = 0
                    for root, _, fs in os.walk(PKG):
                        for fn in fs:
                            if fn.endswith(".py"):
                                t = ast.parse(open(os.path.join(root, fn), encoding="utf-8").read())
                                for n in ast.walk(t):
                                    if isinstance(n, ast.Call) and ((isinstance(n.func, ast.Name) and n.func.id == "parameter_from_data") or
                                                                     (isinstance(n.func, ast.Attribute) and n.func.attr == "parameter_from_data")):
                                        others += 1
                    if ok and others == 1:
                        copied.append("name")
                    else:
                        unknown("name=name in parameter_from_data but the caller does not pass data.name (or there are %d callers)" % others)
                else:
                    unknown(f"Parameter({k.arg}=<expression>) is not a plain field copy")
            # the returned / registered object must be that call's result
            rets = [n for n in ast.walk(f) if isinstance(n, ast.Return)]
            tgt = None
            par = parents(f)
            p = par.get(c)
            if isinstance(p, ast.Assign) and len(p.targets) == 1 and isinstance(p.targets[0], ast.Name):
                tgt = p.targets[0].id
            good = [r for r in rets if isinstance(r.value, ast.Tuple) and isinstance(r.value.elts[0], ast.Name)]
            if not (tgt and len(good) == 1 and good[0].value.elts[0].id == tgt):
                unknown("parameter_from_data does not return the constructed Parameter")

    # ---------------- read fields
    src_o = open(os.path.join(PKG, "parser", "openapi.py"), encoding="utf-8").read()
    tree_o = ast.parse(src_o)
    reads = []
    f = find_func(tree_o, "add_parameters")
    if f is None:
        unknown("add_parameters not found")
    else:
        par = parents(f)
        loops = [n for n in ast.walk(f) if isinstance(n, ast.For) and isinstance(n.target, ast.Name) and n.target.id == "param"]
        if len(loops) != 1:
            unknown("add_parameters: expected one `for param in ...` loop")
        for n in ast.walk(f):
            if isinstance(n, ast.Name) and n.id == "param":
                p = par.get(n)
                if isinstance(p, ast.Attribute) and p.value is n:
                    if p.attr in ids:
                        if p.attr not in reads:
                            reads.append(p.attr)
                    else:
                        unknown("add_parameters reads param.%s (not a Parameter field)" % p.attr)
                elif isinstance(p, ast.For) and p.target is n:
                    pass
                elif isinstance(p, ast.keyword) and p.arg == "param" and isinstance(par.get(p), ast.Call) and \
                        isinstance(par[p].func, ast.Name) and par[p].func.id == "parameter_from_reference":
                    pass
                elif isinstance(p, ast.Assign) and p.value is n and len(p.targets) == 1 and isinstance(p.targets[0], ast.Attribute) and p.targets[0].attr == "data":
                    pass     # <error>.data = param
                elif isinstance(p, ast.Assign) and n in p.targets and isinstance(p.value, ast.Name) and p.value.id == "param_or_error":
                    pass     # param = param_or_error
                else:
                    unknown("the resolved parameter escapes add_parameters through %s (line %d)" % (type(p).__name__, getattr(n, "lineno", 0)))
        # nothing else of the package may read fields of Parameters' tables
        if "classes_by_reference" in src_o:
            unknown("parser/openapi.py touches classes_by_reference directly")

    # ---------------- evolve fields of _property_from_ref
    src_p = open(os.path.join(PKG, "parser", "properties", "__init__.py"), encoding="utf-8").read()
    tree_p = ast.parse(src_p)
    evolved = []
    f = find_func(tree_p, "_property_from_ref")
    if f is None:
        unknown("_property_from_ref not found")
    else:
        calls = [n for n in ast.walk(f) if isinstance(n, ast.Call) and ((isinstance(n.func, ast.Name) and n.func.id == "evolve") or (isinstance(n.func, ast.Attribute) and n.func.attr == "evolve"))]
        if len(calls) != 1 or len(calls[0].args) != 1 or not isinstance(calls[0].args[0], ast.Name) or calls[0].args[0].id != "existing" or any(k.arg is None for k in calls[0].keywords):
            unknown("_property_from_ref: expected exactly one evolve(existing, kw=...) call")
        else:
            evolved = [k.arg for k in calls[0].keywords]
        # the result must be that evolved object
        if not any(isinstance(n, ast.Return) and isinstance(n.value, ast.Tuple) and isinstance(n.value.elts[0], ast.Name) and n.value.elts[0].id == "prop" for n in ast.walk(f)):
            unknown("_property_from_ref does not return the evolved property `prop`")

    # ---------------- string constants
    resp_prefix = None
    src_r = open(os.path.join(PKG, "parser", "responses.py"), encoding="utf-8").read()
    f = find_func(ast.parse(src_r), "response_from_data")
    if f is not None:
        c = [n for n in ast.walk(f) if isinstance(n, ast.Call) and isinstance(n.func, ast.Attribute) and n.func.attr == "startswith" and
             isinstance(n.func.value, ast.Name) and n.func.value.id == "ref_path" and len(n.args) == 1 and isinstance(n.args[0], ast.Constant) and isinstance(n.args[0].value, str)]
        if len(c) == 1:
            resp_prefix = c[0].args[0].value
    if resp_prefix is None:
        unknown("response_from_data: no unique ref_path.startswith(<str>)")
        resp_prefix = ""
    param_prefix = None
    f = find_func(tree_p, "build_parameters")
    if f is not None:
        for n in ast.walk(f):
            if isinstance(n, ast.Call) and isinstance(n.func, ast.Name) and n.func.id == "parse_reference_path" and len(n.args) == 1 and isinstance(n.args[0], ast.JoinedStr):
                js = n.args[0].values
                if len(js) == 2 and isinstance(js[0], ast.Constant) and isinstance(js[1], ast.FormattedValue) and isinstance(js[1].value, ast.Name) and js[1].value.id == "name" \
                        and js[1].conversion == -1 and js[1].format_spec is None:
                    param_prefix = js[0].value
    if param_prefix is None:
        unknown("build_parameters: no parse_reference_path(f\"<const>{name}\")")
        param_prefix = ""

    # ---------------- urllib tables of the interpreter that runs the generator
    import urllib.parse as up
    strip = getattr(up, "_WHATWG_C0_CONTROL_OR_SPACE", None)
    remove = getattr(up, "_UNSAFE_URL_BYTES_TO_REMOVE", None)
    if strip is None or remove is None or any(len(x) != 1 for x in remove):
        unknown("urllib.parse of this interpreter has no lstrip / unsafe-byte tables (different urlsplit)")
        strip, remove = strip or "", remove or []
    import inspect
    us = inspect.getsource(up.urlsplit)
    if "url.lstrip(_WHATWG_C0_CONTROL_OR_SPACE)" not in us or "url[:2] == '//'" not in us or "url.split('#', 1)" not in us or "url.split('?', 1)" not in us:
        unknown("urlsplit source of this interpreter differs from the modelled algorithm")

    L = ["(* GENERATED by harness/translate/gen_params.py from openapi_python_client/parser (ast) and the interpreter's urllib.parse. Do not edit. *)",
         "From Coq Require Import NArith List Bool. Import ListNotations. Open Scope N_scope.",
         "Inductive pdefault := DRequired | DNone | DFalse | DTrue | DOther.",
         "(* (field id, field name, constructor default) of oai.Parameter *)",
         "Definition gen_param_fields : list (N * (list N * pdefault)) := ["]
    L.append(";\n".join(f"  ({ids[n]}, ({cstr(n)}, {default_of(info)}))" for n, info in fields))
    L.append("].")
    for i, need in enumerate(CANON[:4]):
        L.append(f"Definition gf_{need} : N := {i}.")
    L.append("Definition gen_param_copied : list N := " + ("[" + "; ".join(str(ids[n]) for n in copied) + "]" if copied else "[]") + ".  (* " + ", ".join(copied) + " *)")
    L.append("Definition gen_param_reads : list N := " + ("[" + "; ".join(str(ids[n]) for n in reads) + "]" if reads else "[]") + ".  (* " + ", ".join(reads) + " *)")
    L.append("Definition gen_ref_evolved : list (list N) := " + ("[" + "; ".join(cstr(n) for n in evolved) + "]" if evolved else "[]") + ".  (* " + ", ".join(evolved) + " *)")
    L.append(f"Definition gen_response_prefix : list N := {cstr(resp_prefix)}.  (* {resp_prefix} *)")
    L.append(f"Definition gen_param_ref_prefix : list N := {cstr(param_prefix)}.  (* {param_prefix} *)")
    L.append("Definition gen_url_strip : list N := " + cstr("".join(sorted(strip))) + ".")
    L.append("Definition gen_url_remove : list N := " + cstr("".join(remove)) + ".")
    L.append("Definition gen_scheme_chars : list N := " + cstr(up.scheme_chars) + ".")
    L.append("Definition gen_uses_params_empty : bool := " + ("true" if "" in up.uses_params else "false") + ".")
    L.append(f"Definition gen_params_known : bool := {'true' if known else 'false'}.")
    for n in notes:
        L.append("(* unknown: %s *)" % n.replace("*)", "* )").replace('"', "'"))
    txt = "\n".join(L) + "\n"
    try:
        old = open(OUT, encoding="utf-8").read()
    except OSError:
        old = None
    if old != txt:
        os.makedirs(os.path.dirname(OUT), exist_ok=True)
        open(OUT, "w", encoding="utf-8").write(txt)
        print("GenParams.v rewritten")
    else:
        print("GenParams.v unchanged")
    for n in notes:
        print("unknown:", n)


if __name__ == "__main__":
    main()
