"""Translator: regenerate coq/gen/GenLoops.v = table of every place where the generator turns an UNORDERED collection
(a Python set, or a collection accumulated over the document's unordered maps) into an ORDER (text), and whether that place
sorts first.

 (a) templates: the Jinja AST of every template (parsed with the same Environment options as Project) is walked; every
     `for` loop, every order-sensitive filter (join/first/last/format/...) and every `{{ set }}` output whose iterable is
     set-typed is a site; `| sort`, `| dictsort` make it sorted.
 (b) Python: ast scan of openapi_python_client/**/*.py for `for x in S`, comprehensions, join/list/tuple/enumerate/..., `*S`,
     `S.pop()`, f-string formatting of a set; `sorted(S)` sites are recorded as sorted.

Set-typedness is DERIVED from the code (annotations of class attributes, properties, function parameters/returns, local
assignments; name based and conservative: an attribute name that is set-typed in ANY class counts as a set). An iterable that
cannot be classified is emitted with known=false (=> unsafe unless sorted).  Fail closed: any exception => exit 1."""
import ast, json, os, sys

HERE = os.path.dirname(os.path.abspath(__file__))
REPO = os.environ.get("OPC_REPO", "/repo")
PKGNAME = "openapi_python_client"
PKG = os.path.join(REPO, PKGNAME)
sys.path.insert(0, REPO)

SET, UNK, SCALAR, BOT, NONSET = "set", "unk", "scalar", "bot", "nonset"   # BOT: cyclic definition (ignored by join); NONSET: known not to be a set, shape unknown
SETN = {"set", "Set", "frozenset", "FrozenSet", "AbstractSet", "MutableSet"}
SEQN = {"list", "List", "tuple", "Tuple", "Sequence", "MutableSequence", "Iterator", "Generator", "deque"}
DICTN = {"dict", "Dict", "Mapping", "MutableMapping", "defaultdict", "OrderedDict"}
UNKN = {"Iterable", "Collection", "Any", "object", "Container"}
WRAPN = {"Optional", "ClassVar", "Final", "Annotated", "Required", "NotRequired"}
SCALN = {"Literal", "type", "Type", "Callable", "Pattern", "Match"}


def seq(e=UNK):
    return ("seq", e)


def dct(v=UNK):
    return ("dict", v)


def join(ts, optional_ok=True):
    """Conservative join of alternative types."""
    ts = [t for t in ts if t != BOT]
    if not ts:
        return BOT
    if any(t == SET for t in ts):
        return SET
    if optional_ok:
        ns = [t for t in ts if t != SCALAR]
        if ns and len(ns) < len(ts):
            ts = ns
    if any(t == UNK for t in ts):
        return UNK
    if all(t == ts[0] for t in ts):
        return ts[0]
    if all(isinstance(t, tuple) and t[0] == "seq" for t in ts):
        return seq(join([t[1] for t in ts]))
    if all(isinstance(t, tuple) and t[0] == "dict" for t in ts):
        return dct(join([t[1] for t in ts]))
    return NONSET   # several different shapes, none of them a set


def elem_of(t, i=None):
    """type of an element (for-target / subscript / i-th component of a tuple unpacking)"""
    if t == BOT:
        return BOT
    if isinstance(t, tuple):
        if t[0] == "tup":
            return t[1][i] if (i is not None and i < len(t[1])) else join(list(t[1]), optional_ok=False)
        if t[0] == "seq":
            return t[1]
        if t[0] == "dict":
            return t[1] if i is None else UNK
    return UNK


# ------------------------------------------------------------------ hints from source
class Hints:
    def __init__(self):
        self.attr = {}      # attribute/property name -> [types]
        self.func = {}      # function/method name -> [return types]
        self.funcdefs = {}  # name -> [FunctionDef]
        self.aliases = {}   # module-level type alias name -> annotation node
        self.classes = set()
        self.files = {}     # relpath -> ast.Module

    def base_name(self, n):
        if isinstance(n, ast.Name):
            return n.id
        if isinstance(n, ast.Attribute):
            return n.attr
        return None

    def ann(self, n, depth=0):
        if n is None or depth > 12:
            return UNK
        if isinstance(n, ast.Constant):
            if isinstance(n.value, str):
                try:
                    return self.ann(ast.parse(n.value, mode="eval").body, depth + 1)
                except SyntaxError:
                    return UNK
            return SCALAR
        if isinstance(n, (ast.Name, ast.Attribute)):
            b = self.base_name(n)
            if b in SETN:
                return SET
            if b in SEQN:
                return seq()
            if b in DICTN:
                return dct()
            if b in UNKN:
                return UNK
            if b in self.aliases:
                return self.ann(self.aliases[b], depth + 1)
            return SCALAR  # a class / scalar type (str iterates in a fixed order)
        if isinstance(n, ast.Subscript):
            b = self.base_name(n.value)
            sl = n.slice
            elts = list(sl.elts) if isinstance(sl, ast.Tuple) else [sl]
            if b in SETN:
                return SET
            if b in WRAPN:
                return self.ann(elts[0], depth + 1)
            if b == "Union":
                return join([self.ann(e, depth + 1) for e in elts])
            if b in ("tuple", "Tuple") and elts and not any(isinstance(e, ast.Constant) and e.value is Ellipsis for e in elts):
                return ("tup", tuple(self.ann(e, depth + 1) for e in elts))
            if b in SEQN:
                es = [self.ann(e, depth + 1) for e in elts if not (isinstance(e, ast.Constant) and e.value is Ellipsis)]
                return seq(join(es, optional_ok=False) if es else UNK)
            if b in DICTN:
                return dct(self.ann(elts[1], depth + 1) if len(elts) == 2 else UNK)
            if b in UNKN:
                return UNK
            if b in SCALN:
                return SCALAR
            if b in self.aliases or b in self.classes:
                return SCALAR
            return UNK
        if isinstance(n, ast.BinOp) and isinstance(n.op, ast.BitOr):
            return join([self.ann(n.left, depth + 1), self.ann(n.right, depth + 1)])
        return UNK

    def load(self):
        for dp, dn, fn in os.walk(PKG):
            dn.sort()
            if "templates" in dp.split(os.sep):
                continue
            for f in sorted(fn):
                if f.endswith(".py"):
                    p = os.path.join(dp, f)
                    self.files[os.path.relpath(p, REPO)] = ast.parse(open(p, encoding="utf-8").read(), filename=p)
        typing_like = SETN | SEQN | DICTN | UNKN | WRAPN | SCALN | {"Union"}
        for rel, mod in self.files.items():
            for st in ast.walk(mod):
                if isinstance(st, ast.ClassDef):
                    self.classes.add(st.name)
            for st in mod.body:
                if isinstance(st, ast.Assign) and len(st.targets) == 1 and isinstance(st.targets[0], ast.Name):
                    v = st.value
                    if (isinstance(v, ast.Subscript) and self.base_name(v.value) in typing_like) or (isinstance(v, ast.BinOp) and isinstance(v.op, ast.BitOr)):
                        self.aliases[st.targets[0].id] = v
                if isinstance(st, ast.AnnAssign) and isinstance(st.target, ast.Name) and self.base_name(st.annotation) == "TypeAlias" and st.value is not None:
                    self.aliases[st.target.id] = st.value
        pending = []
        for rel, mod in self.files.items():
            for node in ast.walk(mod):
                if isinstance(node, ast.ClassDef):
                    for st in node.body:
                        if isinstance(st, ast.AnnAssign) and isinstance(st.target, ast.Name):
                            pending.append(("attr", st.target.id, st.annotation))
                        if isinstance(st, (ast.FunctionDef, ast.AsyncFunctionDef)):
                            isprop = any(self.base_name(d) in ("property", "cached_property") for d in st.decorator_list)
                            if isprop:
                                pending.append(("attr", st.name, st.returns))
                            for sub in ast.walk(st):
                                if isinstance(sub, ast.AnnAssign) and isinstance(sub.target, ast.Attribute) and isinstance(sub.target.value, ast.Name) and sub.target.value.id == "self":
                                    pending.append(("attr", sub.target.attr, sub.annotation))
                if isinstance(node, (ast.FunctionDef, ast.AsyncFunctionDef)):
                    pending.append(("func", node.name, node.returns))
                    self.funcdefs.setdefault(node.name, []).append(node)
        for kind, name, annot in pending:
            (self.attr if kind == "attr" else self.func).setdefault(name, []).append(self.ann(annot))

    def attr_type(self, name):
        return join(self.attr[name], optional_ok=False) if name in self.attr else UNK

    def func_type(self, name):
        return join(self.func[name], optional_ok=False) if name in self.func else UNK


# ------------------------------------------------------------------ Python expression typing
STR_LIST_METHODS = {"split", "rsplit", "splitlines", "findall", "finditer", "groups", "partition", "rpartition", "readlines", "most_common"}
STR_SCALAR_METHODS = {"join", "format", "lower", "upper", "strip", "lstrip", "rstrip", "replace", "capitalize", "title", "encode", "decode", "startswith", "endswith",
                      "isupper", "islower", "read", "read_text", "write_text", "exists", "group", "count", "index", "find"}
SET_METHODS = {"union", "intersection", "difference", "symmetric_difference"}
INSENSITIVE = {"set", "frozenset", "sorted", "any", "all", "sum", "len", "min", "max"}
INSENSITIVE_METHODS = {"update", "issubset", "issuperset", "isdisjoint", "union", "intersection", "difference", "symmetric_difference", "intersection_update", "difference_update"}
ORDER_FREEZERS = {"list", "tuple", "enumerate", "zip", "iter", "next", "reversed", "map", "filter", "chain"}


class Scope:
    """Bindings of names inside one function (or the module)."""
    def __init__(self, H, node, parent=None):
        self.H, self.node, self.parent = H, node, parent
        self.b = {}
        self._busy = set()
        if isinstance(node, (ast.FunctionDef, ast.AsyncFunctionDef, ast.Lambda)):
            a = node.args
            for arg in a.posonlyargs + a.args + a.kwonlyargs + ([a.vararg] if a.vararg else []) + ([a.kwarg] if a.kwarg else []):
                self.b.setdefault(arg.arg, []).append(("ann", arg.annotation) if arg.annotation is not None else (("const", SCALAR) if arg.arg in ("self", "cls") else ("const", UNK)))
        body = node.body if isinstance(node.body, list) else [node.body]
        for st in body:
            self._collect(st)

    def _bind_target(self, tgt, how):
        if isinstance(tgt, ast.Name):
            self.b.setdefault(tgt.id, []).append(how)
        elif isinstance(tgt, (ast.Tuple, ast.List)):
            for i, e in enumerate(tgt.elts):
                if how[0] == "val":
                    self._bind_target(e, ("tupelem", how[1], i))
                elif how[0] == "elem":
                    self._bind_target(e, ("elemtup", how[1], i))
                else:
                    self._bind_target(e, ("const", UNK))
        elif isinstance(tgt, ast.Starred):
            self._bind_target(tgt.value, ("const", seq()))

    def _collect(self, st):
        for n in ast.walk(st):
            if isinstance(n, (ast.FunctionDef, ast.AsyncFunctionDef, ast.ClassDef)) and n is not st:
                self.b.setdefault(n.name, []).append(("const", SCALAR))
            if isinstance(n, ast.AnnAssign):
                self._bind_target(n.target, ("annval", n.annotation, n.value))
            elif isinstance(n, ast.Assign):
                for t in n.targets:
                    self._bind_target(t, ("val", n.value))
            elif isinstance(n, ast.NamedExpr):
                self._bind_target(n.target, ("val", n.value))
            elif isinstance(n, (ast.For, ast.AsyncFor)):
                self._bind_target(n.target, ("elem", n.iter))
            elif isinstance(n, ast.comprehension):
                self._bind_target(n.target, ("elem", n.iter))
            elif isinstance(n, (ast.With, ast.AsyncWith)):
                for it in n.items:
                    if it.optional_vars is not None:
                        self._bind_target(it.optional_vars, ("const", UNK))
            elif isinstance(n, ast.ExceptHandler) and n.name:
                self.b.setdefault(n.name, []).append(("const", SCALAR))
            elif isinstance(n, (ast.Import, ast.ImportFrom)):
                for al in n.names:
                    self.b.setdefault((al.asname or al.name).split(".")[0], []).append(("const", SCALAR))

    def name_type(self, name):
        if name in self.b:
            key = (id(self), name)
            if key in self._busy:
                return BOT  # cyclic: ignore this path
            self._busy.add(key)
            try:
                ts = []
                for how in self.b[name]:
                    if how[0] == "const":
                        ts.append(how[1])
                    elif how[0] == "ann":
                        ts.append(self.H.ann(how[1]))
                    elif how[0] == "annval":
                        t = self.H.ann(how[1])
                        if t == UNK and how[2] is not None:
                            t = self.expr(how[2])
                        ts.append(t)
                    elif how[0] == "val":
                        t = self.expr(how[1])
                        ts.append(t)
                    elif how[0] == "elem":
                        ts.append(elem_of(self.expr(how[1])))
                    elif how[0] == "tupelem":
                        ts.append(elem_of(self.expr(how[1]), how[2]))
                    elif how[0] == "elemtup":
                        ts.append(elem_of(elem_of(self.expr(how[1])), how[2]))
                return join(ts)
            finally:
                self._busy.discard(key)
        if self.parent is not None:
            return self.parent.name_type(name)
        if name in self.H.classes or name in self.H.funcdefs:
            return SCALAR
        return UNK

    def expr(self, e):
        H = self.H
        if isinstance(e, (ast.Set, ast.SetComp)):
            return SET
        if isinstance(e, (ast.ListComp, ast.GeneratorExp)):
            t = self.expr(e.generators[0].iter)
            return SET if t == SET else (UNK if t == UNK else seq())   # order inherited from the first generator
        if isinstance(e, (ast.List, ast.Tuple)):
            return seq()
        if isinstance(e, (ast.Dict, ast.DictComp)):
            return dct()
        if isinstance(e, (ast.Constant, ast.JoinedStr, ast.Compare)):
            return SCALAR
        if isinstance(e, ast.UnaryOp):
            return SCALAR
        if isinstance(e, ast.Name):
            return self.name_type(e.id)
        if isinstance(e, ast.Attribute):
            return H.attr_type(e.attr)
        if isinstance(e, ast.NamedExpr):
            return self.expr(e.value)
        if isinstance(e, ast.Starred):
            return self.expr(e.value)
        if isinstance(e, ast.Subscript):
            t = self.expr(e.value)
            if isinstance(e.slice, ast.Slice):
                return t
            return elem_of(t)
        if isinstance(e, ast.IfExp):
            return join([self.expr(e.body), self.expr(e.orelse)])
        if isinstance(e, ast.BoolOp):
            return join([self.expr(v) for v in e.values])
        if isinstance(e, ast.BinOp):
            l, r = self.expr(e.left), self.expr(e.right)
            if isinstance(e.op, (ast.BitOr, ast.BitAnd, ast.Sub, ast.BitXor)):
                if SET in (l, r):
                    return SET
                if l == SCALAR and r == SCALAR:
                    return SCALAR
                return UNK
            if isinstance(e.op, ast.Add):
                if SET in (l, r):
                    return SET
                return join([l, r], optional_ok=False)
            if isinstance(e.op, ast.Mod) or isinstance(e.op, ast.Mult):
                return l if l != SET else SET
            return SCALAR
        if isinstance(e, ast.Call):
            f = e.func
            args = list(e.args)
            if isinstance(f, ast.Name):
                n = f.id
                if n in ("set", "frozenset"):
                    return SET
                if n == "sorted":
                    return seq()
                if n in ("list", "tuple", "reversed", "iter"):
                    if not args:
                        return seq()
                    t = self.expr(args[0])
                    return SET if t == SET else (UNK if t == UNK else seq())
                if n in ("enumerate", "zip", "chain", "map", "filter"):
                    ts = [self.expr(a) for a in (args[1:] if n in ("map", "filter") else args)]
                    return SET if SET in ts else (UNK if UNK in ts else seq())
                if n == "dict":
                    return dct()
                if n == "range":
                    return seq(SCALAR)
                if n in ("len", "str", "int", "bool", "float", "isinstance", "any", "all", "sum", "min", "max", "repr", "type", "hasattr", "print", "id", "hash"):
                    return SCALAR
                if n == "cast" and len(args) == 2:
                    return H.ann(args[0])
                if n in self.b:
                    return UNK
                if n in H.classes:
                    return SCALAR
                if n in H.func:
                    return H.func_type(n)
                return UNK
            if isinstance(f, ast.Attribute):
                m = f.attr
                recv = self.expr(f.value)
                if m in ("items", "keys"):
                    return seq()
                if m == "values":
                    return seq(recv[1]) if isinstance(recv, tuple) and recv[0] == "dict" else seq()
                if m in ("get", "pop", "setdefault"):
                    if isinstance(recv, tuple) and recv[0] == "dict":
                        ts = [recv[1]] + ([self.expr(args[1])] if len(args) > 1 else [])
                        return join(ts)
                    if recv == SET or (isinstance(recv, tuple) and recv[0] == "seq" and m == "pop"):
                        return SCALAR if recv == SET else recv[1]
                    return UNK
                if m in SET_METHODS:
                    return SET if recv == SET or any(self.expr(a) == SET for a in args) else UNK
                if m == "copy":
                    return recv
                if m in STR_LIST_METHODS:
                    return seq(SCALAR)
                if m in STR_SCALAR_METHODS:
                    return SCALAR
                if m == "from_iterable":
                    return UNK
                if m in H.func:
                    return H.func_type(m)
                if m in H.classes:
                    return SCALAR
                return UNK
            return UNK
        return UNK


# ------------------------------------------------------------------ Python scan
def src(node):
    try:
        s = ast.unparse(node)
    except Exception:
        s = "?"
    return " ".join(s.split())[:90]


class PyScan:
    def __init__(self, H):
        self.H = H
        self.sites = []
        self._fe_memo = {}

    # ---- effect of a loop body: "none" (iterations commute), "diag" (only diagnostic text depends on order), "output"
    def stmt_effect(self, st, scope, in_callee):
        if isinstance(st, (ast.Pass, ast.Continue)):
            return "none"
        if isinstance(st, ast.Expr) and isinstance(st.value, ast.Constant):
            return "none"
        if isinstance(st, ast.Return):
            return "none" if (in_callee and st.value is None) else "output"
        if isinstance(st, ast.If):
            return self.block_effect(st.body + st.orelse, scope, in_callee)
        if isinstance(st, (ast.For,)):
            return self.block_effect(st.body + st.orelse, scope, in_callee)
        if isinstance(st, ast.Delete):
            return "none" if all(isinstance(t, ast.Subscript) for t in st.targets) else "output"
        if isinstance(st, ast.Expr) and isinstance(st.value, ast.Call):
            f = st.value.func
            if isinstance(f, ast.Attribute):
                if f.attr in ("add", "update", "discard"):
                    return "none"
                if f.attr == "setdefault" and len(st.value.args) == 2:
                    return "none"
                if f.attr == "pop" and len(st.value.args) >= 1 and not (scope.expr(f.value) != UNK and isinstance(scope.expr(f.value), tuple) and scope.expr(f.value)[0] == "seq"):
                    return "none"
                name = f.attr
            elif isinstance(f, ast.Name):
                name = f.id
            else:
                return "output"
            defs = self.H.funcdefs.get(name, [])
            if len(defs) == 1:
                return self.func_effect(defs[0])
            return "output"
        if isinstance(st, (ast.Assign, ast.AugAssign)):
            tgts = st.targets if isinstance(st, ast.Assign) else [st.target]
            ok = True
            for t in tgts:
                if not (isinstance(t, ast.Attribute) and t.attr in ("detail", "header") and isinstance(t.value, ast.Name) and self._is_error_var(t.value.id, scope)):
                    ok = False
            return "diag" if ok else "output"
        return "output"

    def _is_error_var(self, name, scope):
        for how in scope.b.get(name, []):
            if how[0] in ("ann", "annval"):
                b = self.H.base_name(how[1]) if isinstance(how[1], (ast.Name, ast.Attribute)) else None
                if b in ("PropertyError", "ParseError", "GeneratorError"):
                    return True
        return False

    def block_effect(self, body, scope, in_callee):
        effs = [self.stmt_effect(s, scope, in_callee) for s in body]
        return "output" if "output" in effs else ("diag" if "diag" in effs else "none")

    def func_effect(self, fd):
        k = id(fd)
        if k in self._fe_memo:
            return self._fe_memo[k] or "none"   # in progress (recursion): neutral
        self._fe_memo[k] = None
        e = self.block_effect(fd.body, Scope(self.H, fd, None), True)
        self._fe_memo[k] = e
        return e

    # ---- candidates
    def add(self, rel, node, itexpr, t, is_sorted, effect, what):
        if t == BOT:
            t = UNK
        if effect == "output" and self._in_error_ctor(node):
            effect = "diag"
        if t == SET or t == UNK:
            self.sites.append(dict(file=rel, line=node.lineno, iter=f"{what}:{src(itexpr)}", sorted=is_sorted, known=(t == SET), kind="py", effect=effect))

    def _in_error_ctor(self, node):
        """the value is only used to build the text of a diagnostic: an ancestor (within the statement) is a call of an *Error class of the repo"""
        p = node
        while p in self.parents and not isinstance(p, ast.stmt):
            p = self.parents[p]
            if isinstance(p, ast.Call):
                b = self.H.base_name(p.func)
                if b in self.H.classes and b.endswith("Error"):
                    return True
        return False

    def scan_file(self, rel, mod):
        H = self.H
        parents = {}
        for n in ast.walk(mod):
            for c in ast.iter_child_nodes(n):
                parents[c] = n
        self.parents = parents
        modscope = Scope(H, mod, None)
        scopes = {}

        def scope_of(n):
            chain = []
            p = n
            while p in parents:
                p = parents[p]
                if isinstance(p, (ast.FunctionDef, ast.AsyncFunctionDef, ast.Lambda)):
                    chain.append(p)
            sc = modscope
            for fd in reversed(chain):
                if fd not in scopes:
                    scopes[fd] = Scope(H, fd, sc)
                sc = scopes[fd]
            return sc

        def consumer_insensitive(n):
            """n is consumed by something that ignores order (or sorts: reported at the sorted() call itself)."""
            p = parents.get(n)
            if isinstance(p, ast.Call) and n in p.args:
                if isinstance(p.func, ast.Name) and p.func.id in INSENSITIVE:
                    return True
                if isinstance(p.func, ast.Attribute) and p.func.attr in INSENSITIVE_METHODS:
                    return True
            if isinstance(p, ast.Compare):
                return True
            return False

        def len_test(t, want, op, k):
            return (isinstance(t, ast.Compare) and len(t.ops) == 1 and isinstance(t.ops[0], op) and isinstance(t.left, ast.Call) and isinstance(t.left.func, ast.Name)
                    and t.left.func.id == "len" and len(t.left.args) == 1 and src(t.left.args[0]) == want and isinstance(t.comparators[0], ast.Constant) and t.comparators[0].value == k)

        def singleton_guard(n, recv):
            """the set has at most one element here: inside `if len(S) == 1:` or after an earlier sibling `if len(S) > 1: return/raise`"""
            p = n
            want = src(recv)
            st = n
            while st in parents and not isinstance(st, ast.stmt):
                st = parents[st]
            blk = parents.get(st)
            for field in ("body", "orelse", "finalbody"):
                b = getattr(blk, field, None)
                if isinstance(b, list) and st in b:
                    for prev in b[: b.index(st)]:
                        if isinstance(prev, ast.If) and len_test(prev.test, want, ast.Gt, 1) and prev.body and isinstance(prev.body[-1], (ast.Return, ast.Raise)):
                            return True
            while p in parents:
                c, p = p, parents[p]
                if isinstance(p, ast.If) and c in p.body:
                    t = p.test
                    if isinstance(t, ast.Compare) and len(t.ops) == 1 and isinstance(t.ops[0], ast.Eq) and isinstance(t.left, ast.Call) and isinstance(t.left.func, ast.Name) \
                            and t.left.func.id == "len" and src(t.left.args[0]) == want and isinstance(t.comparators[0], ast.Constant) and t.comparators[0].value == 1:
                        return True
            return False

        for n in ast.walk(mod):
            if isinstance(n, (ast.For, ast.AsyncFor)):
                sc = scope_of(n)
                t = sc.expr(n.iter)
                eff = self.block_effect(n.body + n.orelse, sc, False) if t in (SET, UNK) else "output"
                self.add(rel, n, n.iter, t, False, eff, "for")
            elif isinstance(n, (ast.ListComp, ast.GeneratorExp, ast.DictComp)):
                if consumer_insensitive(n):
                    continue
                sc = scope_of(n)
                for g in n.generators:
                    self.add(rel, n, g.iter, sc.expr(g.iter), False, "output", "comp")
            elif isinstance(n, ast.Call):
                sc = scope_of(n)
                f = n.func
                if isinstance(f, ast.Name) and f.id == "sorted" and n.args:
                    # sorted(S) on strings is a total order; sorted(S, key=...) is only as good as the key is injective (str.lower ties 'FooBar' / 'Foobar'
                    # and the tied elements keep the set's iteration order): a keyed sort of a set does NOT count as sorted
                    keyed = any(kw.arg == "key" for kw in n.keywords)
                    self.add(rel, n, n.args[0], sc.expr(n.args[0]), not keyed, "output", "sorted-by-key" if keyed else "sorted")
                elif isinstance(f, ast.Name) and f.id in ORDER_FREEZERS and not consumer_insensitive(n):
                    pp = parents.get(n)
                    if f.id == "iter" and isinstance(pp, ast.Call) and isinstance(pp.func, ast.Name) and pp.func.id == "next":
                        continue   # reported at next(...)
                    for a in (n.args[1:] if f.id in ("map", "filter") else n.args):
                        t = sc.expr(a)
                        if t == SET:   # unknown arguments of list()/tuple()/... are not flagged (too coarse); sets are
                            inner = a.args[0] if (f.id == "next" and isinstance(a, ast.Call) and isinstance(a.func, ast.Name) and a.func.id == "iter" and a.args) else a
                            self.add(rel, n, a, t, singleton_guard(n, inner), "output", f.id)
                elif isinstance(f, ast.Attribute) and f.attr in ("join", "extend", "writelines", "from_iterable") and n.args:
                    a = n.args[0]
                    t = sc.expr(a)
                    if isinstance(a, (ast.ListComp, ast.GeneratorExp)):
                        continue  # reported at the comprehension
                    if t == UNK and f.attr != "join":
                        continue
                    self.add(rel, n, a, t, False, "output", f.attr)
                elif isinstance(f, ast.Attribute) and f.attr == "pop" and not n.args:
                    t = sc.expr(f.value)
                    if t == SET:
                        self.add(rel, n, f.value, t, singleton_guard(n, f.value), "output", "setpop")
                elif isinstance(f, ast.Name) and f.id in ("str", "repr") and n.args and sc.expr(n.args[0]) == SET:
                    self.add(rel, n, n.args[0], SET, False, "output", f.id)
            elif isinstance(n, ast.Starred) and isinstance(n.ctx, ast.Load):
                p = parents.get(n)
                if isinstance(p, ast.Set):
                    continue
                sc = scope_of(n)
                t = sc.expr(n.value)
                if t == SET:
                    self.add(rel, n, n.value, t, False, "output", "star")
            elif isinstance(n, ast.FormattedValue):
                sc = scope_of(n)
                if sc.expr(n.value) == SET:
                    self.add(rel, n, n.value, SET, False, "output", "fstring")
            elif isinstance(n, ast.YieldFrom):
                sc = scope_of(n)
                t = sc.expr(n.value)
                if t == SET:
                    self.add(rel, n, n.value, t, False, "output", "yieldfrom")
            elif isinstance(n, ast.AugAssign) and isinstance(n.op, ast.Add):
                sc = scope_of(n)
                if sc.expr(n.value) == SET and sc.expr(n.target) != SET:
                    self.add(rel, n, n.value, SET, False, "output", "extend")


# ------------------------------------------------------------------ render kwargs (collections handed to templates by name)
def render_kwargs(H):
    """name -> type of the Python expression passed as `.render(name=expr)`; lists accumulated in the calling function are
    tagged ('acc',) : they follow the iteration order of the document's collections and must be sorted by the template."""
    out = {}
    for rel, mod in H.files.items():
        for fd in ast.walk(mod):
            if not isinstance(fd, (ast.FunctionDef, ast.AsyncFunctionDef)):
                continue
            sc = None
            for n in ast.walk(fd):
                if isinstance(n, ast.Call) and isinstance(n.func, ast.Attribute) and n.func.attr == "render":
                    for kw in n.keywords:
                        if kw.arg is None:
                            out["**"] = UNK
                            continue
                        sc = sc or Scope(H, fd, Scope(H, mod, None))
                        t = sc.expr(kw.value)
                        if isinstance(kw.value, ast.Name) and isinstance(t, tuple) and t[0] == "seq":
                            appended = any(isinstance(c, ast.Call) and isinstance(c.func, ast.Attribute) and c.func.attr in ("append", "extend", "insert")
                                           and isinstance(c.func.value, ast.Name) and c.func.value.id == kw.value.id for c in ast.walk(fd))
                            if appended:
                                t = ("acc",)
                        out.setdefault(kw.arg, []).append(t)
    return out


# ------------------------------------------------------------------ templates
J_PASS = {"list", "map", "select", "reject", "selectattr", "rejectattr", "unique", "batch", "slice", "reverse", "default", "d"}
J_SORT = {"sort", "dictsort"}
J_SCALARIZE = {"join", "first", "last", "string", "random", "tojson", "pprint", "format", "groupby", "safe", "escape", "e", "trim"}
J_SCALAR_RESULT = {"length", "count", "lower", "upper", "indent", "replace", "capitalize", "title", "int", "float", "abs", "round", "sum", "min", "max", "wordcount", "center", "striptags", "truncate", "urlencode"}


def scan_templates(H, kwargs):
    import jinja2
    from jinja2 import nodes
    tdir = os.path.join(PKG, "templates")
    env = jinja2.Environment(loader=jinja2.FileSystemLoader(tdir), trim_blocks=True, lstrip_blocks=True, extensions=["jinja2.ext.loopcontrols"], keep_trailing_newline=True)
    sites = []
    names = sorted(env.list_templates())
    if not names:
        raise RuntimeError("no templates found under " + tdir)
    for tname in names:
        source = env.loader.get_source(env, tname)[0]
        tree = env.parse(source)
        rel = f"{PKGNAME}/templates/{tname}"
        assigns = {}
        macro_params = set()
        loop_targets = set()
        for n in tree.find_all(nodes.Assign):
            if isinstance(n.target, nodes.Name):
                assigns.setdefault(n.target.name, []).append(n.node)
        for n in tree.find_all(nodes.Macro):
            for a in n.args:
                macro_params.add(a.name)
        for n in tree.find_all(nodes.For):
            for t in n.target.find_all(nodes.Name) if not isinstance(n.target, nodes.Name) else [n.target]:
                loop_targets.add(t.name)

        def jname(e):
            if isinstance(e, nodes.Name):
                return e.name
            if isinstance(e, nodes.Getattr):
                return jname(e.node) + "." + e.attr
            if isinstance(e, nodes.Getitem):
                return jname(e.node) + "[...]"
            if isinstance(e, nodes.Call):
                return jname(e.node) + "()"
            if isinstance(e, nodes.Filter):
                return (jname(e.node) if e.node is not None else "") + "|" + e.name
            if isinstance(e, nodes.Add):
                return jname(e.left) + "+" + jname(e.right)
            return type(e).__name__

        def jtype(e, depth=0):
            """-> (type, sorted?)"""
            if depth > 10:
                return UNK, False
            if isinstance(e, nodes.Filter):
                if e.name in J_SORT:
                    t, _ = jtype(e.node, depth + 1)
                    return t, True
                if e.name in J_PASS:
                    return jtype(e.node, depth + 1)
                if e.name == "items":
                    return (("dictattr",) if isinstance(e.node, nodes.Getattr) else seq()), False
                if e.name in J_SCALAR_RESULT or e.name in J_SCALARIZE:
                    return SCALAR, False
                return UNK, False
            if isinstance(e, nodes.Getattr):
                t = H.attr_type(e.attr)
                return (("dictattr",) if isinstance(t, tuple) and t[0] == "dict" else t), False
            if isinstance(e, nodes.Call):
                f = e.node
                if isinstance(f, nodes.Getattr):
                    if f.attr in ("items", "keys", "values"):
                        # a dict view: insertion order. For an ATTRIBUTE of a parsed object that order is whatever registration of the object
                        # survived (Schemas.classes_by_name compat overwrite compares dicts, i.e. ignores order) => an order-producing site
                        if isinstance(f.node, nodes.Getattr):
                            return ("dictattr",), False
                        return seq(), False
                    if f.attr in H.func:
                        return H.func_type(f.attr), False
                if isinstance(f, nodes.Name) and f.name in ("sorted",):
                    return jtype(e.args[0], depth + 1)[0], True
                if isinstance(f, nodes.Name) and f.name in ("range", "cycler", "joiner", "namespace", "lipsum", "dict"):
                    return seq(), False
                return UNK, False
            if isinstance(e, nodes.Name):
                if e.name in assigns:
                    ts = [jtype(v, depth + 1) for v in assigns[e.name]]
                    return join([t for t, _ in ts]), all(s for _, s in ts)
                if e.name in macro_params or e.name in loop_targets:
                    return UNK, False
                if e.name in kwargs:
                    ts = kwargs[e.name]
                    if any(t == ("acc",) for t in ts):
                        return ("acc",), False
                    return join(ts), False
                return UNK, False
            if isinstance(e, (nodes.Add,)):
                l, r = jtype(e.left, depth + 1), jtype(e.right, depth + 1)
                t = SET if SET in (l[0], r[0]) else join([l[0], r[0]], optional_ok=False)
                return t, False
            if isinstance(e, (nodes.List, nodes.Tuple)):
                return seq(), False
            if isinstance(e, nodes.Dict):
                return dct(), False
            if isinstance(e, (nodes.Const, nodes.TemplateData, nodes.Concat, nodes.Compare, nodes.Not, nodes.And, nodes.Mul, nodes.Mod, nodes.Test)):
                return SCALAR, False
            if isinstance(e, nodes.CondExpr):
                a, b = jtype(e.expr1, depth + 1), (jtype(e.expr2, depth + 1) if e.expr2 is not None else (SCALAR, True))
                return join([a[0], b[0]]), a[1] and b[1]
            if isinstance(e, nodes.Or):
                a, b = jtype(e.left, depth + 1), jtype(e.right, depth + 1)
                return join([a[0], b[0]]), a[1] and b[1]
            if isinstance(e, nodes.Getitem):
                t, _ = jtype(e.node, depth + 1)
                if isinstance(t, tuple) and t[0] in ("seq", "dict"):
                    return t[1], False
                return UNK, False
            return UNK, False

        def add(n, e, what, flag_unknown=True):
            t, s = jtype(e)
            if t == SET or t == ("acc",) or t == ("dictattr",) or (t == UNK and flag_unknown):
                sites.append(dict(file=rel, line=n.lineno, iter=jname(e if not (isinstance(e, nodes.Filter) and e.name in J_SORT) else e), sorted=s, known=(t != UNK),
                                  kind="jinja", effect="output", what=what))

        for n in tree.find_all(nodes.For):
            add(n, n.iter, "for")
        for n in tree.find_all(nodes.Filter):
            if n.name in J_SCALARIZE:
                if n.node is not None and n.name != "format":
                    add(n, n.node, n.name, flag_unknown=False)
                for a in n.args:
                    add(n, a, n.name + "-arg", flag_unknown=False)
        for n in tree.find_all(nodes.Output):
            for e in n.nodes:
                if not isinstance(e, nodes.TemplateData):
                    add(n, e, "output", flag_unknown=False)
    return sites



# ------------------------------------------------------------------ registration sites (Schemas.classes_by_name overwrites)
def scan_registrations(H):
    """Every dict display `{**schemas.classes_by_name, K: V}` (a new registry in which K is (re)bound) is a registration site.
    fresh    : an earlier `if K in schemas.classes_by_name:` in the function unconditionally returns (first registration only)
    compat   : such an `if` rejects (returns) under a nested condition (a different class of that name is an error)
    sticky   : V was last assigned from evolve(V, kw=<constant>, ...) - the stored copy does not depend on the other uses
    overwrite: anything else (last registration wins) => unsafe."""
    sites = []
    for rel, mod in sorted(H.files.items()):
        for fd in ast.walk(mod):
            if not isinstance(fd, (ast.FunctionDef, ast.AsyncFunctionDef)):
                continue
            for n in ast.walk(fd):
                if not isinstance(n, ast.Dict):
                    continue
                spread = [v for k, v in zip(n.keys, n.values) if k is None and isinstance(v, ast.Attribute) and v.attr == "classes_by_name"
                          and isinstance(v.value, ast.Name) and v.value.id == "schemas"]
                if not spread:
                    continue
                for k, v in zip(n.keys, n.values):
                    if k is None:
                        continue
                    ksrc = src(k)
                    kind = "overwrite"
                    for st in ast.walk(fd):
                        if isinstance(st, ast.If) and st.lineno < n.lineno and isinstance(st.test, ast.Compare) and len(st.test.ops) == 1 and isinstance(st.test.ops[0], ast.In) \
                                and src(st.test.left) == ksrc and src(st.test.comparators[0]) == "schemas.classes_by_name":
                            if st.body and isinstance(st.body[-1], ast.Return):
                                kind = "fresh"
                            elif any(isinstance(x, ast.Return) for x in ast.walk(st)):
                                kind = "compat"
                    if kind == "overwrite" and isinstance(v, ast.Name):
                        last = None
                        for st in ast.walk(fd):
                            if isinstance(st, ast.Assign) and st.lineno < n.lineno and any(isinstance(t, ast.Name) and t.id == v.id for t in st.targets):
                                if last is None or st.lineno > last.lineno:
                                    last = st
                        if last is not None and isinstance(last.value, ast.Call) and H.base_name(last.value.func) == "evolve" and len(last.value.args) == 1 \
                                and isinstance(last.value.args[0], ast.Name) and last.value.args[0].id == v.id and last.value.keywords \
                                and all(kw.arg is not None and isinstance(kw.value, ast.Constant) for kw in last.value.keywords):
                            kind = "sticky"
                    sites.append(dict(file=rel, line=n.lineno, key=ksrc, kind=kind))
    return sites

# ------------------------------------------------------------------ shape of the "Recursive allOf reference" test of _process_models
def recursion_test_exact(H):
    """True iff every `<ref>.endswith(<f-string>)` test inside _process_models compares with "/" + class name, i.e. with the whole last path
    segment (a plain suffix test would confuse Cat with WildCat).  No such test at all is fine (nothing is finalised early); any other shape => False."""
    defs = H.funcdefs.get("_process_models", [])
    if len(defs) != 1:
        return False
    ok = True
    for n in ast.walk(defs[0]):
        if isinstance(n, ast.Call) and isinstance(n.func, ast.Attribute) and n.func.attr in ("endswith", "startswith", "find", "rfind", "index", "count"):
            a = n.args[0] if n.args else None
            good = (n.func.attr == "endswith" and isinstance(a, ast.JoinedStr) and len(a.values) == 2 and isinstance(a.values[0], ast.Constant) and a.values[0].value == "/"
                    and isinstance(a.values[1], ast.FormattedValue) and src(a.values[1].value).endswith("class_info.name"))
            ok = ok and good
        if isinstance(n, ast.Compare) and any(isinstance(o, (ast.In, ast.NotIn)) for o in n.ops) and "ref" in src(n):
            ok = False   # substring test on a reference
    return ok


# ------------------------------------------------------------------ _create_schemas queues EVERY failed component for the next round
def create_retry_unconditional(H):
    """True iff in _create_schemas the branch `if isinstance(<result of update_schemas_with_data>, PropertyError):` appends to next_round as a direct
    statement (not under a further condition on the error).  Whether a failure is final is decided by 'no progress in a whole round', never by
    looking at the error: an error whose data is a schema (a failing INLINE member of a union) is as retryable as one whose data is a reference."""
    defs = H.funcdefs.get("_create_schemas", [])
    if len(defs) != 1:
        return False
    found = False
    for n in ast.walk(defs[0]):
        if isinstance(n, ast.If) and isinstance(n.test, ast.Call) and isinstance(n.test.func, ast.Name) and n.test.func.id == "isinstance" and len(n.test.args) == 2 \
                and src(n.test.args[1]).endswith("PropertyError") and isinstance(n.test.args[0], ast.Name) and n.test.args[0].id == "schemas_or_err":
            direct = [st for st in n.body if isinstance(st, ast.Expr) and isinstance(st.value, ast.Call) and isinstance(st.value.func, ast.Attribute)
                      and st.value.func.attr == "append" and src(st.value.func.value) == "next_round"]
            first_exit = next((i for i, st in enumerate(n.body) if isinstance(st, (ast.Continue, ast.Return, ast.Break, ast.Raise)) or
                               (isinstance(st, ast.If) and any(isinstance(x, (ast.Continue, ast.Return, ast.Break, ast.Raise)) for x in ast.walk(st)))), len(n.body))
            if not direct or n.body.index(direct[0]) > first_exit:
                return False
            found = True
    return found


# ------------------------------------------------------------------ Schemas registries are only extended through copies (evolve), never in place
def registries_persistent(H):
    """True iff no statement inserts into classes_by_name / classes_by_reference / models_to_process of an existing object in place
    (subscript assignment, append/extend/insert/update/setdefault, augmented assignment).  Deletions (pop / del: removal propagation after the
    loops) are not insertions.  A failed parse attempt can then leave no registration behind: the caller still holds the old object."""
    regs = {"classes_by_name", "classes_by_reference", "models_to_process"}
    def is_reg(e):
        return isinstance(e, ast.Attribute) and e.attr in regs
    for rel, mod in H.files.items():
        for n in ast.walk(mod):
            if isinstance(n, (ast.Assign, ast.AugAssign, ast.AnnAssign)):
                tgts = n.targets if isinstance(n, ast.Assign) else [n.target]
                for t in tgts:
                    if isinstance(t, ast.Subscript) and is_reg(t.value):
                        return False
                    if isinstance(n, ast.AugAssign) and is_reg(t):
                        return False
                    if isinstance(t, ast.Attribute) and t.attr in regs and not (isinstance(t.value, ast.Name) and t.value.id == "self"):
                        return False   # schemas.classes_by_name = ... on an existing object
            if isinstance(n, ast.Call) and isinstance(n.func, ast.Attribute) and n.func.attr in ("append", "extend", "insert", "update", "setdefault", "__setitem__") and is_reg(n.func.value):
                return False
            if isinstance(n, ast.Call) and isinstance(n.func, ast.Attribute) and n.func.attr == "__setattr__" and any(isinstance(a, ast.Constant) and a.value in regs for a in n.args):
                return False
    return True


# ------------------------------------------------------------------ emit
def coq_str(s):
    return "[" + "; ".join(str(ord(c)) for c in s) + "]%N" if s else "(@nil N)"


def strip_sort(name):
    for suf in ("|sort", "|dictsort"):
        if name.endswith(suf):
            name = name[: -len(suf)]
    while name.endswith("|list"):
        name = name[:-5]
    return name


def collect():
    H = Hints()
    H.load()
    ps = PyScan(H)
    for rel, mod in sorted(H.files.items()):
        ps.scan_file(rel, mod)
    kw = render_kwargs(H)
    js = scan_templates(H, kw)
    for s in js:
        s["iter"] = strip_sort(s["iter"])
    sites = js + ps.sites
    sites.sort(key=lambda s: (s["kind"], s["file"], s["line"], s["iter"], s["sorted"]))
    # de-duplicate identical entries (same node reached twice)
    out, seen = [], set()
    for s in sites:
        k = (s["file"], s["line"], s["iter"], s["sorted"], s["known"], s["effect"])
        if k not in seen:
            seen.add(k)
            out.append(s)
    return out


def generate(sites, regs=(), rec_exact=False, persistent=False, retry_all=False):
    eff = {"none": "ENone", "diag": "EDiag", "output": "EOutput"}
    lines = ["(* GENERATED by harness/translate/gen_loops.py from the templates and the Python sources under openapi_python_client/. Do not edit. *)\n",
             "From Coq Require Import NArith List Bool.\nImport ListNotations.\nRequire Import OPC.Order OPC.Registry.\n",
             "Definition gen_loops : list loop_site := [\n"]
    ents = []
    for s in sites:
        ents.append("  {| ls_file := %s;\n     ls_line := %d%%N; ls_iter := %s;\n     ls_sorted := %s; ls_known := %s; ls_effect := %s |}  (* %s:%d %s *)" % (
            coq_str(s["file"]), s["line"], coq_str(s["iter"]), "true" if s["sorted"] else "false", "true" if s["known"] else "false", eff[s["effect"]],
            s["file"].replace("*)", "* )"), s["line"], s["iter"].replace("*)", "* )").replace("(*", "( *").replace('"', "'")))
    lines.append(";\n".join(ents))
    lines.append("\n].\n")
    rk = {"fresh": "RFresh", "compat": "RCompat", "sticky": "RSticky", "overwrite": "ROverwrite"}
    lines.append("Definition gen_registrations : list reg_site := [\n")
    lines.append(";\n".join("  {| rs_file := %s; rs_line := %d%%N; rs_kind := %s |}  (* %s:%d %s *)" % (coq_str(r["file"]), r["line"], rk[r["kind"]], r["file"], r["line"],
                                                                                                   r["key"].replace("*)", "* )").replace("(*", "( *").replace('"', "'")) for r in regs))
    lines.append("\n].\n")
    lines.append("(* parser/properties/__init__.py _process_models: the recursive-allOf test compares the unresolved $ref with \"/\" ++ class name (whole last segment) *)\n")
    lines.append("Definition gen_recursion_test_exact : bool := %s.\n" % ("true" if rec_exact else "false"))
    lines.append("(* no in-place insertion into Schemas.classes_by_name / classes_by_reference / models_to_process anywhere in the package (only evolve'd copies) *)\n")
    lines.append("Definition gen_registries_persistent : bool := %s.\n" % ("true" if persistent else "false"))
    lines.append("(* _create_schemas queues every failed component for the next round, whatever the error looks like *)\n")
    lines.append("Definition gen_create_retry_unconditional : bool := %s.\n" % ("true" if retry_all else "false"))
    return "".join(lines)


def write_if_changed(path, text):
    old = None
    if os.path.exists(path):
        old = open(path, encoding="utf-8").read()
    if old != text:
        os.makedirs(os.path.dirname(path), exist_ok=True)
        tmp = path + ".tmp%d" % os.getpid()
        open(tmp, "w", encoding="utf-8").write(text)
        os.replace(tmp, path)
        return True
    return False


if __name__ == "__main__":
    sites = collect()
    _H = Hints()
    _H.load()
    regs = scan_registrations(_H)
    if "--json" in sys.argv:
        print(json.dumps({"sites": sites, "registrations": regs}, indent=1))
        sys.exit(0)
    if not regs:
        print("gen_loops: implausible result (no registration site of Schemas.classes_by_name found)")
        sys.exit(1)
    if not any(s["kind"] == "jinja" for s in sites) or not any(s["kind"] == "py" for s in sites):
        print("gen_loops: implausible result (no template sites or no python sites)")
        sys.exit(1)
    changed = write_if_changed(os.path.join(HERE, "..", "..", "coq", "gen", "GenLoops.v"), generate(sites, regs, recursion_test_exact(_H), registries_persistent(_H), create_retry_unconditional(_H)))
    print("GenLoops.v", "rewritten" if changed else "unchanged", "(%d sites, %d unsorted, %d unknown; %d registration sites: %s)" % (len(sites), sum(not s["sorted"] for s in sites), sum(not s["known"] for s in sites), len(regs), ",".join(r["kind"] for r in regs)))
