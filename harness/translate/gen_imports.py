"""Translator: regenerate coq/gen/GenImports.v = the pool of FIXED import lines (lines that do not depend on a class name of the document)
which the property classes can put into a module's import set, and whether the probes that collected it were complete.

The sets `relative_imports` / `lazy_imports` are emitted through Jinja's `| sort`, i.e. sorted(key=str.lower) - case-insensitive and stable.
OrderThm.sorted_emission_deterministic therefore needs the key to be injective on the emitted set.  For the fixed lines that is a finite fact:
no two DISTINCT lines of the pool have the same lower-cased key (OrderThm.import_pool_keys_distinct, vm_compute).

The pool = (a) what get_imports / get_lazy_imports return on probe properties of EVERY property class (each kind, required and optional, with
and without default, as model property / parameter / body / response, prefixes '..' and '...', literal_enums on and off), obtained by running the
real parser on probe documents, plus the relative_imports of every probe model and endpoint; (b) every string literal of the package's Python
sources that looks like an import line and has no placeholder other than `prefix`.  Lines that mention `models.` are class dependent and excluded
(two of them tie only when two classes share a module: known finding sort_case_tie).
Fail closed: a property class that no probe exercised (both required and optional), or any exception => gen_import_probe_complete = false."""
import ast, contextlib, io, json, os, re, sys, tempfile, shutil
from pathlib import Path

HERE = os.path.dirname(os.path.abspath(__file__))
REPO = os.environ.get("OPC_REPO", "/repo")
sys.path.insert(0, REPO)
PKG = os.path.join(REPO, "openapi_python_client")

R = lambda n: {"$ref": "#/components/schemas/" + n}


def probe_kinds():
    return {
        "any": {}, "bool": {"type": "boolean"}, "int": {"type": "integer"}, "float": {"type": "number"}, "str": {"type": "string"},
        "date": {"type": "string", "format": "date"}, "datetime": {"type": "string", "format": "date-time"}, "uuid": {"type": "string", "format": "uuid"},
        "file": {"type": "string", "format": "binary"}, "null": {"type": "null"},
        "conststr": {"const": "fixed"}, "constint": {"const": 7},
        "enumstr": {"type": "string", "enum": ["a", "b"]}, "enumint": {"type": "integer", "enum": [1, 2]},
        "enumref": R("Color"), "modelref": R("Other"), "inline": {"type": "object", "properties": {"z": {"type": "string"}}},
        "list": {"type": "array", "items": {"type": "string"}}, "listref": {"type": "array", "items": R("Other")}, "listdate": {"type": "array", "items": {"type": "string", "format": "date"}},
        "unionscalar": {"anyOf": [{"type": "string"}, {"type": "integer"}]}, "unionconst": {"oneOf": [{"const": "x"}, {"const": "y"}]},
        "unionmodel": {"oneOf": [R("Other"), R("Third")]}, "unionmixed": {"anyOf": [R("Other"), {"type": "string", "format": "date-time"}, {"type": "null"}]},
        "typelist": {"type": ["string", "integer", "null"]},
    }


DEFAULTS = {"bool": True, "int": 3, "float": 1.5, "str": "s", "date": "2020-01-01", "datetime": "2020-01-01T00:00:00Z", "uuid": "00000000-0000-0000-0000-000000000000",
            "conststr": "fixed", "constint": 7, "enumstr": "a", "enumint": 1, "unionscalar": "s"}


HEADER_OK = ("bool", "int", "float", "str", "enumstr", "enumint", "enumref", "unionscalar")


def probe_documents():
    kinds = probe_kinds()
    props, req = {}, []
    for k, s in kinds.items():
        props[f"req_{k}"] = dict(s)
        req.append(f"req_{k}")
        props[f"opt_{k}"] = dict(s)
        if k in DEFAULTS:
            props[f"dft_{k}"] = {**s, "default": DEFAULTS[k]}
    schemas = {"Kinds": {"type": "object", "properties": props, "required": req, "additionalProperties": R("Other")},
               "Other": {"type": "object", "properties": {"o": {"type": "string"}, "k": R("Kinds")}},
               "Third": {"type": "object", "properties": {"t": {"type": "integer"}}},
               "Child": {"allOf": [R("Other"), {"type": "object", "properties": {"c": {"const": "c"}}}]},
               "Color": {"type": "string", "enum": ["red", "green"]}}
    params = []
    for k in ("bool", "int", "float", "str", "date", "datetime", "uuid", "conststr", "constint", "enumstr", "enumint", "enumref", "list", "unionscalar", "unionconst", "any"):
        for loc in ("query", "header", "cookie"):
            if loc != "query" and k not in HEADER_OK:
                continue
            params.append({"name": f"{loc[0]}r_{k}", "in": loc, "required": True, "schema": dict(kinds[k])})
            params.append({"name": f"{loc[0]}o_{k}", "in": loc, "required": False, "schema": dict(kinds[k])})
    ok = {"200": {"description": "ok", "content": {"application/json": {"schema": {"oneOf": [R("Kinds"), R("Other")]}}}},
          "404": {"description": "no", "content": {"application/json": {"schema": {"type": "array", "items": R("Third")}}}}}
    paths = {"/p/{pid}": {"post": {"operationId": "probe", "tags": ["t"], "parameters": params + [{"name": "pid", "in": "path", "required": True, "schema": {"type": "string", "format": "uuid"}}],
                                   "requestBody": {"content": {"application/json": {"schema": R("Kinds")}, "multipart/form-data": {"schema": R("Kinds")},
                                                               "application/x-www-form-urlencoded": {"schema": R("Other")}, "application/octet-stream": {"schema": {"type": "string", "format": "binary"}}}},
                                   "responses": ok}},
             "/q": {"get": {"operationId": "probe_get", "tags": ["t"], "parameters": [{"name": "x", "in": "query", "schema": {"const": "only"}}, {"name": "y", "in": "query", "schema": {"type": "string"}}],
                            "responses": {"200": {"description": "ok", "content": {"application/json": {"schema": {"type": "string", "format": "date"}}, "text/plain": {"schema": {"type": "string"}}}}}}}}
    return [{"openapi": "3.1.0", "info": {"title": "probe", "version": "1"}, "paths": paths, "components": {"schemas": schemas}}]


def walk_props(p, seen, out):
    if id(p) in seen:
        return
    seen.add(id(p))
    out.append(p)
    for attr in ("inner_property", "additional_properties"):
        q = getattr(p, attr, None)
        if q is not None and not isinstance(q, bool):
            walk_props(q, seen, out)
    for attr in ("inner_properties", "required_properties", "optional_properties"):
        for q in getattr(p, attr, None) or []:
            walk_props(q, seen, out)


def property_classes():
    """names of the concrete property classes defined under parser/properties (ast: classes whose name ends in Property, not the protocol)"""
    out = set()
    d = os.path.join(PKG, "parser", "properties")
    for f in sorted(os.listdir(d)):
        if f.endswith(".py"):
            for n in ast.walk(ast.parse(open(os.path.join(d, f), encoding="utf-8").read())):
                if isinstance(n, ast.ClassDef) and n.name.endswith("Property") and n.name != "PropertyProtocol":
                    out.add(n.name)
    return out


def static_literals():
    """import-looking string literals of the package's Python sources, instantiated for prefix in ('..', '...'); class dependent ones skipped"""
    out = set()
    for dp, dn, fn in os.walk(PKG):
        if "templates" in dp.split(os.sep):
            continue
        for f in sorted(fn):
            if not f.endswith(".py"):
                continue
            for n in ast.walk(ast.parse(open(os.path.join(dp, f), encoding="utf-8").read())):
                if isinstance(n, ast.Constant) and isinstance(n.value, str) and (n.value.startswith("from ") or n.value.startswith("import ")) and "\n" not in n.value:
                    out.add(n.value)
                if isinstance(n, ast.JoinedStr) and n.values and isinstance(n.values[0], ast.Constant) and isinstance(n.values[0].value, str) \
                        and (n.values[0].value.startswith("from ") or n.values[0].value.startswith("import ")):
                    holes = [v for v in n.values if isinstance(v, ast.FormattedValue)]
                    if all(isinstance(h.value, ast.Name) and h.value.id == "prefix" for h in holes):
                        for pre in ("..", "..."):
                            out.add("".join(v.value if isinstance(v, ast.Constant) else pre for v in n.values))
    return out


def collect():
    from openapi_python_client.parser import GeneratorData
    from openapi_python_client.config import Config, ConfigFile, MetaType
    want = property_classes()
    seen_req, seen_opt = set(), set()
    pool = set()
    complete = True
    notes = []
    for doc in probe_documents():
        for lit in (False, True):
            d = Path(tempfile.mkdtemp(prefix="opc_imp_"))
            try:
                cfg = Config.from_sources(ConfigFile(post_hooks=[], literal_enums=lit), MetaType("none"), d / "doc.json", "utf-8", False, output_path=d / "out")
                with contextlib.redirect_stdout(io.StringIO()):
                    data = GeneratorData.from_dict(doc, config=cfg)
                if not hasattr(data, "models"):
                    complete = False
                    notes.append("probe document rejected: " + str(getattr(data, "detail", data))[:200])
                    continue
                if data.errors or any(c.parse_errors for c in data.endpoint_collections_by_tag.values()):
                    complete = False
                    notes.append("probe document has diagnostics: " + "; ".join((str(getattr(e, "header", "")) + " " + str(e.detail))[:160] for e in list(data.errors)[:3] + [e for c in data.endpoint_collections_by_tag.values() for e in c.parse_errors][:3]))
                props, seen = [], set()
                for m in list(data.models):
                    walk_props(m, seen, props)
                    pool.update(m.relative_imports or ())
                    pool.update(m.lazy_imports or ())
                for e in list(data.enums):
                    walk_props(e, seen, props)
                for coll in data.endpoint_collections_by_tag.values():
                    for ep in coll.endpoints:
                        pool.update(ep.relative_imports)
                        for p in ep.list_all_parameters():
                            walk_props(p, seen, props)
                        for r in ep.responses:
                            walk_props(r.prop, seen, props)
                for p in props:
                    (seen_req if p.required else seen_opt).add(type(p).__name__)
                    for pre in ("..", "..."):
                        pool.update(p.get_imports(prefix=pre))
                        pool.update(p.get_lazy_imports(prefix=pre))
            finally:
                shutil.rmtree(d, ignore_errors=True)
    missing = sorted((want - seen_req) | (want - seen_opt - {"NoneProperty"}))
    # NoneProperty optional: `type: null` optional property is exercised too, but tolerate a parser that folds it
    if missing:
        complete = False
        notes.append("property classes not exercised both required and optional: " + ", ".join(missing))
    pool |= static_literals()
    fixed = sorted(l for l in pool if "models." not in l and re.match(r"^(from \S+ import \S|import \S)", l))
    return fixed, complete, notes


def coq_str(s):
    return "[" + "; ".join(str(ord(c)) for c in s) + "]%N" if s else "(@nil N)"


def generate(fixed, complete, notes):
    out = ["(* GENERATED by harness/translate/gen_imports.py from probe runs of the real parser and the package's string literals. Do not edit. *)\n",
           "From Coq Require Import NArith List Bool.\nImport ListNotations.\n",
           "Definition gen_import_pool : list (list N) := [\n"]
    out.append(";\n".join("  %s  (* %s *)" % (coq_str(l), l.replace("*)", "* )").replace("(*", "( *").replace('"', "'")) for l in fixed))
    out.append("\n].\n")
    for n in notes:
        out.append("(* note: %s *)\n" % n.replace("*)", "* )").replace("(*", "( *").replace('"', "'"))
    out.append("Definition gen_import_probe_complete : bool := %s.\n" % ("true" if complete else "false"))
    return "".join(out)


def write_if_changed(path, text):
    old = open(path, encoding="utf-8").read() if os.path.exists(path) else None
    if old != text:
        os.makedirs(os.path.dirname(path), exist_ok=True)
        tmp = path + ".tmp%d" % os.getpid()
        open(tmp, "w", encoding="utf-8").write(text)
        os.replace(tmp, path)
        return True
    return False


if __name__ == "__main__":
    try:
        fixed, complete, notes = collect()
    except Exception as e:   # fail closed, but still emit a file the build can read
        import traceback
        fixed, complete, notes = [], False, ["translator exception: " + repr(e) + " " + traceback.format_exc()[-300:].replace("\n", " | ")]
    if "--json" in sys.argv:
        print(json.dumps({"pool": fixed, "complete": complete, "notes": notes}, indent=1))
        sys.exit(0)
    changed = write_if_changed(os.path.join(HERE, "..", "..", "coq", "gen", "GenImports.v"), generate(fixed, complete, notes))
    print("GenImports.v", "rewritten" if changed else "unchanged", "(%d fixed import lines, complete=%s)" % (len(fixed), complete), "; ".join(notes))
