"""Translator: regenerate coq/gen/GenCli.v = the facts about the error plumbing of the generator that Cli.v / CliThm.v consume
(C06).  Everything is read from the AST of the working tree (no import of the package):

  gen_error_levels        members of parser/errors.py ErrorLevel, in declaration order
  gen_default_levels      dataclass -> default of its own `level` field (GeneratorError ERROR, ParseError WARNING)
  gen_exit_rule           cli.handle_errors: empty list returns first; level starts at WARNING and is raised to ERROR by an
                          `error.level == ErrorLevel.ERROR` scan; the last statement is
                          `if error_level == ErrorLevel.ERROR or fail_on_warning: raise typer.Exit(code=1)`; no other raise/exit
  gen_generate_shape      __init__.generate returns `[project]` for a GeneratorError and `project.build()` otherwise;
                          _get_project_for_url_or_path returns the loader error / the validation error before Project(...)
  gen_get_errors_shape    Project._get_errors extends collection.parse_errors (every collection), openapi.errors, self.errors;
                          GeneratorData.from_dict passes errors=schemas.errors + parameters.errors
  gen_loader_catches      _load_yaml_or_json catches ValueError (JSON) / YAMLError (YAML) and _get_document catches
                          httpx.HTTPError + httpcore.NetworkError and wraps source.read_bytes() in try/except OSError, each handler
                          returning a GeneratorError
  gen_validation_caught   from_dict wraps OpenAPI.model_validate in try/except ValidationError returning a GeneratorError
  gen_scalar_guard        the `"swagger" in data` test of that handler is guarded by isinstance(data, dict)   (scalar_document_crash)
  gen_mkdir_parents       Project.build creates the project dir with mkdir(parents=True)                        (missing_parent_dir)
  gen_retry_loops         per function (_create_schemas, _process_models, build_parameters): the loop is
                          `while still_making_progress:` whose body first clears the flag, sets it to True only inside the for loop
                          over to_process, re-queues failures in next_round and ends with `to_process = next_round`
  gen_body_ref_guard      bodies._resolve_reference loops `while isinstance(body, Reference) and body.ref not in references_seen`,
                          appends body.ref to references_seen in the body, and maps a remaining Reference to a ParseError

  gen_kind_guards         every value read out of Schemas.classes_by_name (subscript / .get / iteration over .values()) anywhere in
                          parser/ has its attributes used only under an isinstance test of that value (earlier operand of the same
                          `or` as `not isinstance(v, C)`, earlier operand of the same `and` / comprehension filter as `isinstance(v, C)`,
                          or the body of `if isinstance(v, C):`): classes of different KINDS share that table, so an unguarded
                          `existing.values` raises AttributeError when a model is registered under an enum's class name

  gen_detail_none_safe    error values may carry only a header (detail=None, e.g. `Unsupported enum type`): every read of `<x>.detail`
                          anywhere in the package tolerates None, i.e. it is (a) interpolated whole in an f-string, (b) the left part of
                          `<x>.detail or "<str>"`, (c) a truth / `is None` test, or guarded by such a test of the same expression,
                          (d) passed on unchanged as a `detail=` keyword, or (e) for `<x>.detail += ...` preceded in an enclosing block by
                          `<x>.detail = <x>.detail or ""` / an f-string / a string constant.  Anything else (str.join element,
                          concatenation, slicing, method call, positional argument, alias assignment) makes the fact false.

  gen_ctype_dispatch      _get_document picks the media type as Norm.content_type_of does: `.split(";")[0]` is applied only to
                          `response.headers["content-type"]` inside `if "content-type" in response.headers:`; the else branch assigns
                          mimetypes.guess_type(source...)[0] as it is (it may be None); no other method call on a possibly-None media type

Fail closed: a shape this script cannot recognise is emitted as false (the theorem CliThm.code_shape then no longer checks);
a file that cannot be parsed makes the script exit 1."""
import ast, os, sys

REPO = os.environ.get("OPC_REPO", "/repo")
PKG = os.path.join(REPO, "openapi_python_client")
OUT = os.path.join(os.path.dirname(os.path.abspath(__file__)), "..", "..", "coq", "gen", "GenCli.v")


def cstr(s):
    return "[" + ";".join(str(ord(c)) for c in s) + "]%N" if s else "(@nil N)"


def b(x):
    return "true" if x else "false"


def parse(rel):
    with open(os.path.join(PKG, rel), encoding="utf-8") as f:
        return ast.parse(f.read())


def find_func(tree, name, cls=None):
    for n in ast.walk(tree):
        if cls is not None:
            if isinstance(n, ast.ClassDef) and n.name == cls:
                for m in n.body:
                    if isinstance(m, (ast.FunctionDef, ast.AsyncFunctionDef)) and m.name == name:
                        return m
        elif isinstance(n, (ast.FunctionDef, ast.AsyncFunctionDef)) and n.name == name:
            return n
    return None


def body_wo_doc(fn):
    bd = list(fn.body)
    if bd and isinstance(bd[0], ast.Expr) and isinstance(bd[0].value, ast.Constant) and isinstance(bd[0].value.value, str):
        bd = bd[1:]
    return bd


def u(n):
    return ast.unparse(n) if n is not None else ""


def is_level(n, member):
    return isinstance(n, ast.Attribute) and n.attr == member and u(n.value) == "ErrorLevel"


def returns_generator_error(stmts):
    """the handler body ends by returning GeneratorError(...) (no re-raise)"""
    if not stmts or any(isinstance(x, ast.Raise) for s in stmts for x in ast.walk(s)):
        return False
    last = stmts[-1]
    return isinstance(last, ast.Return) and isinstance(last.value, ast.Call) and u(last.value.func) == "GeneratorError"


# ------------------------------------------------------------------ individual facts
def fact_levels():
    t = parse("parser/errors.py")
    levels, defaults = [], []
    for n in t.body:
        if isinstance(n, ast.ClassDef) and n.name == "ErrorLevel":
            for s in n.body:
                if isinstance(s, ast.Assign) and len(s.targets) == 1 and isinstance(s.targets[0], ast.Name):
                    levels.append(s.targets[0].id)
        if isinstance(n, ast.ClassDef):
            for s in n.body:
                if isinstance(s, ast.AnnAssign) and isinstance(s.target, ast.Name) and s.target.id == "level" and s.value is not None:
                    v = s.value
                    defaults.append((n.name, v.attr if isinstance(v, ast.Attribute) and u(v.value) == "ErrorLevel" else "?"))
    return levels, defaults


def fact_exit_rule():
    fn = find_func(parse("cli.py"), "handle_errors")
    if fn is None:
        return False
    args = [a.arg for a in fn.args.args]
    if args[:2] != ["errors", "fail_on_warning"]:
        return False
    bd = body_wo_doc(fn)
    if len(bd) < 4:
        return False
    # 1. empty list: plain return, before anything else
    first = bd[0]
    if not (isinstance(first, ast.If) and u(first.test) in ("len(errors) == 0", "not errors") and len(first.body) == 1
            and isinstance(first.body[0], ast.Return) and first.body[0].value is None and not first.orelse):
        return False
    # 2. error_level initialised to WARNING exactly once at top level
    inits = [s for s in bd if isinstance(s, ast.Assign) and u(s.targets[0]) == "error_level"]
    if len(inits) != 1 or not is_level(inits[0].value, "WARNING"):
        return False
    # 3. a scan raising it to ERROR on `error.level == ErrorLevel.ERROR`; no other assignment to error_level anywhere
    scans = 0
    for s in bd:
        if isinstance(s, ast.For) and u(s.iter) == "errors" and isinstance(s.target, ast.Name):
            v = s.target.id
            for i in s.body:
                if isinstance(i, ast.If) and isinstance(i.test, ast.Compare) and len(i.test.ops) == 1 and isinstance(i.test.ops[0], ast.Eq) \
                        and u(i.test.left) == f"{v}.level" and is_level(i.test.comparators[0], "ERROR") and not i.orelse:
                    if any(isinstance(x, ast.Assign) and u(x.targets[0]) == "error_level" and is_level(x.value, "ERROR") for x in i.body):
                        scans += 1
    all_assign = [x for x in ast.walk(fn) if isinstance(x, (ast.Assign, ast.AugAssign, ast.AnnAssign)) and
                  u(x.targets[0] if isinstance(x, ast.Assign) else x.target) == "error_level"]
    if scans != 1 or len(all_assign) != 2:
        return False
    # 4. last statement: if error_level == ErrorLevel.ERROR or fail_on_warning: raise typer.Exit(code=1)
    last = bd[-1]
    if not (isinstance(last, ast.If) and isinstance(last.test, ast.BoolOp) and isinstance(last.test.op, ast.Or) and len(last.test.values) == 2 and not last.orelse):
        return False
    parts = sorted(u(v) for v in last.test.values)
    if parts != sorted(["error_level == ErrorLevel.ERROR", "fail_on_warning"]):
        return False
    if not (len(last.body) == 1 and isinstance(last.body[0], ast.Raise) and u(last.body[0].exc) == "typer.Exit(code=1)"):
        return False
    # 5. no other raise / return-with-value / sys.exit in the function
    raises = [x for x in ast.walk(fn) if isinstance(x, ast.Raise)]
    rets = [x for x in ast.walk(fn) if isinstance(x, ast.Return)]
    exits = [x for x in ast.walk(fn) if isinstance(x, ast.Call) and u(x.func) in ("sys.exit", "exit", "quit", "os._exit")]
    return len(raises) == 1 and len(rets) == 1 and not exits


def fact_generate_shape():
    t = parse("__init__.py")
    g = find_func(t, "generate")
    p = find_func(t, "_get_project_for_url_or_path")
    if g is None or p is None:
        return False
    gb = body_wo_doc(g)
    ok = (len(gb) == 3 and isinstance(gb[0], ast.Assign) and u(gb[0].targets[0]) == "project" and isinstance(gb[0].value, ast.Call)
          and u(gb[0].value.func) == "_get_project_for_url_or_path"
          and isinstance(gb[1], ast.If) and u(gb[1].test) == "isinstance(project, GeneratorError)" and len(gb[1].body) == 1
          and isinstance(gb[1].body[0], ast.Return) and u(gb[1].body[0].value) == "[project]" and not gb[1].orelse
          and isinstance(gb[2], ast.Return) and u(gb[2].value) == "project.build()")
    pb = body_wo_doc(p)
    ok = ok and (len(pb) == 5
                 and isinstance(pb[0], ast.Assign) and u(pb[0].targets[0]) == "data_dict" and isinstance(pb[0].value, ast.Call) and u(pb[0].value.func) == "_get_document"
                 and isinstance(pb[1], ast.If) and u(pb[1].test) == "isinstance(data_dict, GeneratorError)" and u(pb[1].body[0]) == "return data_dict" and not pb[1].orelse
                 and isinstance(pb[2], ast.Assign) and u(pb[2].targets[0]) == "openapi" and isinstance(pb[2].value, ast.Call) and u(pb[2].value.func) == "GeneratorData.from_dict"
                 and isinstance(pb[3], ast.If) and u(pb[3].test) == "isinstance(openapi, GeneratorError)" and u(pb[3].body[0]) == "return openapi" and not pb[3].orelse
                 and isinstance(pb[4], ast.Return) and isinstance(pb[4].value, ast.Call) and u(pb[4].value.func) == "Project")
    # Project.build: the directory-exists branch returns one GeneratorError and the normal path returns self._get_errors()
    bld = find_func(t, "build", cls="Project")
    if bld is None:
        return False
    bb = body_wo_doc(bld)
    ok = ok and isinstance(bb[-1], ast.Return) and u(bb[-1].value) == "self._get_errors()"
    return bool(ok)


def fact_get_errors_shape():
    t = parse("__init__.py")
    ge = find_func(t, "_get_errors", cls="Project")
    if ge is None:
        return False
    bd = body_wo_doc(ge)
    if not (len(bd) == 5 and isinstance(bd[0], (ast.Assign, ast.AnnAssign)) and u(bd[0].value) == "[]"):
        return False
    name = u(bd[0].target if isinstance(bd[0], ast.AnnAssign) else bd[0].targets[0])
    f = bd[1]
    ok = (isinstance(f, ast.For) and u(f.iter) == "self.openapi.endpoint_collections_by_tag.values()" and len(f.body) == 1
          and u(f.body[0]) == f"{name}.extend({u(f.target)}.parse_errors)" and not f.orelse
          and u(bd[2]) == f"{name}.extend(self.openapi.errors)" and u(bd[3]) == f"{name}.extend(self.errors)" and u(bd[4]) == f"return {name}")
    fd = find_func(parse("parser/openapi.py"), "from_dict", cls="GeneratorData")
    if fd is None:
        return False
    calls = [c for c in ast.walk(fd) if isinstance(c, ast.Call) and u(c.func) == "GeneratorData"]
    ok = ok and len(calls) == 1 and any(k.arg == "errors" and u(k.value) == "schemas.errors + parameters.errors" for k in calls[0].keywords)
    # the schemas / parameters handed to GeneratorData are the ones returned by EndpointCollection.from_data
    ok = ok and any(isinstance(s, ast.Assign) and u(s.targets[0]) == "(endpoint_collections_by_tag, schemas, parameters)" and isinstance(s.value, ast.Call)
                    and u(s.value.func) == "EndpointCollection.from_data" for s in fd.body)
    return bool(ok)


def fact_loader_catches():
    t = parse("__init__.py")
    ld = find_func(t, "_load_yaml_or_json")
    gd = find_func(t, "_get_document")
    if ld is None or gd is None:
        return False
    tries = [x for x in ast.walk(ld) if isinstance(x, ast.Try)]
    caught = {}
    for tr in tries:
        src = " ".join(u(s) for s in tr.body)
        kind = "json" if "json.loads" in src else ("yaml" if "yaml.load" in src or "YAML(" in src else "?")
        for h in tr.handlers:
            if returns_generator_error(h.body):
                caught.setdefault(kind, set()).add(u(h.type))
    ok = caught.get("json") == {"ValueError"} and caught.get("yaml") == {"YAMLError"}
    # every json.loads / yaml.load call sits inside one of those try bodies
    inside = set()
    for tr in tries:
        for s in tr.body:
            for x in ast.walk(s):
                inside.add(id(x))
    for x in ast.walk(ld):
        if isinstance(x, ast.Call) and u(x.func) in ("json.loads", "yaml.load") and id(x) not in inside:
            ok = False
    gtries = [x for x in ast.walk(gd) if isinstance(x, ast.Try)]
    okg = False
    for tr in gtries:
        if any("httpx.get" in u(s) for s in tr.body):
            for h in tr.handlers:
                if returns_generator_error(h.body) and isinstance(h.type, ast.Tuple) and {u(e) for e in h.type.elts} >= {"httpx.HTTPError", "httpcore.NetworkError"}:
                    okg = True
    # the file branch: every source.read_bytes() sits in a try whose OSError (or broader) handler returns a GeneratorError
    reads = [x for x in ast.walk(gd) if isinstance(x, ast.Call) and u(x.func) == "source.read_bytes"]
    okr = bool(reads)
    for rd in reads:
        covered = False
        for tr in gtries:
            if any(rd is x for s_ in tr.body for x in ast.walk(s_)):
                for h in tr.handlers:
                    names = {u(e) for e in h.type.elts} if isinstance(h.type, ast.Tuple) else ({u(h.type)} if h.type is not None else {"BaseException"})
                    if names & {"OSError", "IOError", "EnvironmentError", "Exception"} and returns_generator_error(h.body):
                        covered = True
        okr = okr and covered
    return bool(ok and okg and okr)


def fact_validation():
    fd = find_func(parse("parser/openapi.py"), "from_dict", cls="GeneratorData")
    if fd is None:
        return False, False
    bd = body_wo_doc(fd)
    tr = bd[0] if bd else None
    if not (isinstance(tr, ast.Try) and len(tr.body) == 1 and "OpenAPI.model_validate(data)" in u(tr.body[0]) and len(tr.handlers) == 1
            and u(tr.handlers[0].type) == "ValidationError" and returns_generator_error(tr.handlers[0].body)):
        return False, False
    h = tr.handlers[0]
    # every `'swagger' in data` (any `in data` / iteration over data) inside the handler must be under isinstance(data, dict)
    guarded = True
    found = False

    def visit(node, under_guard):
        nonlocal guarded, found
        if isinstance(node, ast.If):
            t = node.test
            conj = t.values if isinstance(t, ast.BoolOp) and isinstance(t.op, ast.And) else [t]
            g = under_guard
            for c in conj:
                if uses_data(c) and not is_guard(c):
                    found = True
                    if not g:
                        guarded = False
                if is_guard(c):
                    g = True
            for s in node.body:
                visit(s, g)
            for s in node.orelse:
                visit(s, under_guard)
            return
        if isinstance(node, ast.stmt) and not isinstance(node, (ast.If,)):
            if uses_data(node):
                found = True
                if not under_guard:
                    guarded = False
            return

    def is_guard(c):
        return u(c) in ("isinstance(data, dict)", "isinstance(data, Mapping)", "isinstance(data, (dict,))")

    def uses_data(n):
        return any(isinstance(x, ast.Name) and x.id == "data" for x in ast.walk(n))

    for s in h.body:
        visit(s, False)
    return True, (guarded if found else True)


def fact_mkdir_parents():
    bld = find_func(parse("__init__.py"), "build", cls="Project")
    if bld is None:
        return False
    calls = [c for c in ast.walk(bld) if isinstance(c, ast.Call) and u(c.func) == "self.project_dir.mkdir"]
    if len(calls) != 1:
        return False
    return any(k.arg == "parents" and isinstance(k.value, ast.Constant) and k.value.value is True for k in calls[0].keywords)


def fact_retry_loop(rel, name):
    fn = find_func(parse(rel), name)
    if fn is None:
        return False
    whiles = [x for x in ast.walk(fn) if isinstance(x, ast.While)]
    if len(whiles) != 1:
        return False
    w = whiles[0]
    if u(w.test) != "still_making_progress" or w.orelse:
        return False
    bd = w.body
    # flag cleared first
    if not (bd and u(bd[0]) == "still_making_progress = False"):
        return False
    # next_round reset inside the body, before the for loop; last statement re-queues
    if u(bd[-1]) != "to_process = next_round":
        return False
    fors = [s for s in bd if isinstance(s, ast.For)]
    if len(fors) != 1 or u(fors[0].iter) != "to_process" or fors[0].orelse:
        return False
    pre = bd[1:bd.index(fors[0])]
    if not any(u(s) == "next_round = []" for s in pre):
        return False
    # the flag is set to True only inside the for loop, at its top level (after the failure branches `continue`d)
    sets = [x for x in ast.walk(w) if isinstance(x, ast.Assign) and u(x.targets[0]) == "still_making_progress" and u(x.value) == "True"]
    top = [s for s in fors[0].body if isinstance(s, ast.Assign) and u(s.targets[0]) == "still_making_progress" and u(s.value) == "True"]
    if len(sets) != 1 or len(top) != 1:
        return False
    # every `if` of the for body that does not fall through ends in `continue`; one of them appends to next_round
    requeue = False
    for s in fors[0].body:
        if isinstance(s, ast.If):
            if not isinstance(s.body[-1], ast.Continue):
                return False
            if any(isinstance(x, ast.Call) and u(x.func) == "next_round.append" for x in ast.walk(s)):
                requeue = True
    # no break / no other loop-control, no assignment to to_process elsewhere in the while body, no append to to_process
    if any(isinstance(x, ast.Break) for x in ast.walk(w)):
        return False
    tp = [x for x in ast.walk(w) if isinstance(x, ast.Assign) and u(x.targets[0]) == "to_process"]
    grow = [x for x in ast.walk(w) if isinstance(x, ast.Call) and u(x.func) in ("to_process.append", "to_process.extend", "to_process.insert")]
    # the flag is initialised to True before the loop
    init = [s for s in fn.body if isinstance(s, ast.Assign) and u(s.targets[0]) == "still_making_progress" and u(s.value) == "True"]
    return bool(requeue and len(tp) == 1 and not grow and len(init) == 1)


def fact_body_ref_guard():
    fn = find_func(parse("parser/bodies.py"), "_resolve_reference")
    if fn is None:
        return False
    whiles = [x for x in ast.walk(fn) if isinstance(x, ast.While)]
    if len(whiles) != 1:
        return False
    w = whiles[0]
    t = w.test
    if not (isinstance(t, ast.BoolOp) and isinstance(t.op, ast.And) and len(t.values) == 2):
        return False
    parts = {u(v) for v in t.values}
    if parts != {"isinstance(body, oai.Reference)", "body.ref not in references_seen"}:
        return False
    if u(t.values[0]) != "isinstance(body, oai.Reference)":   # the isinstance test must come first (body may be None / a RequestBody)
        return False
    if [u(s) for s in w.body] != ["references_seen.append(body.ref)", "body = request_bodies.get(get_reference_simple_name(body.ref))"]:
        return False
    # after the loop: a remaining Reference becomes a ParseError
    after = fn.body[fn.body.index(w) + 1:]
    circ = any(isinstance(s, ast.If) and u(s.test) == "isinstance(body, oai.Reference)" and isinstance(s.body[-1], ast.Return)
               and isinstance(s.body[-1].value, ast.Call) and u(s.body[-1].value.func) == "ParseError" for s in after)
    init = any(u(s) == "references_seen = []" for s in fn.body)
    return bool(circ and init)


def _is_isinstance(n, var, negated):
    if negated:
        return isinstance(n, ast.UnaryOp) and isinstance(n.op, ast.Not) and _is_isinstance(n.operand, var, False)
    return isinstance(n, ast.Call) and u(n.func) == "isinstance" and len(n.args) == 2 and u(n.args[0]) == var


def _attr_uses(n, var):
    return [x for x in ast.walk(n) if isinstance(x, ast.Attribute) and isinstance(x.value, ast.Name) and x.value.id == var]


def _unguarded(node, var, guarded):
    """attribute reads of `var` below node that are not dominated by an isinstance test of var"""
    bad = []
    if isinstance(node, ast.BoolOp):
        g = guarded
        for v in node.values:
            bad += _unguarded(v, var, g)
            if _is_isinstance(v, var, negated=isinstance(node.op, ast.Or)):
                g = True
        return bad
    if isinstance(node, ast.If) or isinstance(node, ast.IfExp):
        bad += _unguarded(node.test, var, guarded)
        gb = guarded or _is_isinstance(node.test, var, False) or (isinstance(node.test, ast.BoolOp) and isinstance(node.test.op, ast.And)
                                                                  and any(_is_isinstance(v, var, False) for v in node.test.values))
        body = node.body if isinstance(node.body, list) else [node.body]
        orelse = node.orelse if isinstance(node.orelse, list) else [node.orelse]
        ge = guarded or _is_isinstance(node.test, var, True)
        for s_ in body:
            bad += _unguarded(s_, var, gb)
        for s_ in orelse:
            bad += _unguarded(s_, var, ge)
        return bad
    if isinstance(node, ast.Attribute) and isinstance(node.value, ast.Name) and node.value.id == var:
        return [] if guarded else [node]
    for c in ast.iter_child_nodes(node):
        bad += _unguarded(c, var, guarded)
    return bad


def fact_kind_guards():
    """see module docstring; also requires that at least the two enum builders were recognised (fail closed on a rewrite)"""
    seen_sites = 0
    for dp, dn, fn in os.walk(os.path.join(PKG, "parser")):
        dn.sort()
        for f in sorted(fn):
            if not f.endswith(".py"):
                continue
            tree = parse(os.path.relpath(os.path.join(dp, f), PKG))
            for fnode in [x for x in ast.walk(tree) if isinstance(x, (ast.FunctionDef, ast.AsyncFunctionDef))]:
                # variables bound to a value of classes_by_name
                for st in ast.walk(fnode):
                    if isinstance(st, ast.Assign) and len(st.targets) == 1 and isinstance(st.targets[0], ast.Name):
                        v = st.value
                        src = u(v)
                        if (isinstance(v, ast.Subscript) and u(v.value).endswith("schemas.classes_by_name")) or \
                           (isinstance(v, ast.Call) and u(v.func).endswith("schemas.classes_by_name.get")) or \
                           (isinstance(v, ast.Call) and u(v.func).endswith("schemas.classes_by_name.pop")):
                            seen_sites += 1
                            var = st.targets[0].id
                            if _unguarded(fnode, var, False):
                                return False
                    if isinstance(st, (ast.GeneratorExp, ast.ListComp, ast.SetComp, ast.DictComp)):
                        for g in st.generators:
                            if u(g.iter).endswith("schemas.classes_by_name.values()") and isinstance(g.target, ast.Name):
                                seen_sites += 1
                                var = g.target.id
                                ok_filter = any(_is_isinstance(c, var, False) for c in g.ifs)
                                elt = st.elt if not isinstance(st, ast.DictComp) else ast.Tuple(elts=[st.key, st.value], ctx=ast.Load())
                                if _attr_uses(elt, var) and not ok_filter:
                                    return False
                                g0 = False
                                for c in g.ifs:
                                    if _unguarded(c, var, g0):
                                        return False
                                    if _is_isinstance(c, var, False):
                                        g0 = True
                    if isinstance(st, ast.For) and u(st.iter).endswith("schemas.classes_by_name.values()") and isinstance(st.target, ast.Name):
                        seen_sites += 1
                        if any(_unguarded(b_, st.target.id, False) for b_ in st.body):
                            return False
    # the two enum builders must have been seen (plus the two generator expressions of GeneratorData.from_dict)
    for rel, cls in (("parser/properties/enum_property.py", "EnumProperty"), ("parser/properties/literal_enum_property.py", "LiteralEnumProperty")):
        b_ = find_func(parse(rel), "build", cls=cls)
        if b_ is None or "classes_by_name" not in u(b_):
            return False
    return seen_sites >= 2


def fact_ctype_dispatch():
    fn = find_func(parse("__init__.py"), "_get_document")
    if fn is None:
        return False
    par = _parents(fn)
    ifs = [x for x in ast.walk(fn) if isinstance(x, ast.If) and u(x.test) in ("'content-type' in response.headers", '"content-type" in response.headers')]
    if len(ifs) != 1:
        return False
    node = ifs[0]
    guarded = set()
    for st in node.body:
        for x in ast.walk(st):
            guarded.add(id(x))
    # every method call / subscript-of-call on the header value or on content_type must be inside the guarded body
    for x in ast.walk(fn):
        if isinstance(x, ast.Call) and isinstance(x.func, ast.Attribute) and x.func.attr in ("split", "partition", "strip", "lower", "startswith", "rsplit", "casefold"):
            recv = u(x.func.value)
            if "content" in recv or "headers" in recv or "guess_type" in recv or "mimetypes" in recv:
                if id(x) not in guarded or recv not in ("response.headers['content-type']", 'response.headers["content-type"]'):
                    return False
        if isinstance(x, ast.Call) and u(x.func) in ("response.headers.get", "response.headers.pop", "response.headers.setdefault"):
            return False        # a default value (possibly None) merged into the header lookup: not the recognised shape
    body_ok = len(node.body) == 1 and u(node.body[0]) in ("content_type = response.headers['content-type'].split(';')[0]",)
    else_ok = len(node.orelse) == 1 and isinstance(node.orelse[0], ast.Assign) and u(node.orelse[0].targets[0]) == "content_type" \
        and u(node.orelse[0].value).startswith("mimetypes.guess_type(source") and u(node.orelse[0].value).endswith("[0]")
    # the file branch: guess from the path's URI, unsplit
    file_ok = any(isinstance(x, ast.Assign) and u(x.targets[0]) == "content_type" and u(x.value).startswith("mimetypes.guess_type(source.absolute().as_uri()") for x in ast.walk(fn))
    ret_ok = isinstance(fn.body[-1], ast.Return) and u(fn.body[-1].value) == "_load_yaml_or_json(yaml_bytes, content_type)"
    return bool(body_ok and else_ok and file_ok and ret_ok)


def _parents(tree):
    par = {}
    for n in ast.walk(tree):
        for c in ast.iter_child_nodes(n):
            par[id(c)] = n
    return par


def _str_valued(expr, target_src):
    """expr certainly evaluates to a str: f-string, str constant, or `<target> or "<str>"`"""
    if isinstance(expr, ast.JoinedStr) or (isinstance(expr, ast.Constant) and isinstance(expr.value, str)):
        return True
    if isinstance(expr, ast.BoolOp) and isinstance(expr.op, ast.Or) and u(expr.values[0]) == target_src:
        return all(_str_valued(v, target_src) for v in expr.values[1:])
    return False


def _dominating_str_assign(stmt, par, target_src):
    """some statement before `stmt` in its own or an enclosing statement list assigns a str to target_src"""
    node = stmt
    while node is not None:
        parent = par.get(id(node))
        if parent is None:
            return False
        for field in ("body", "orelse", "finalbody"):
            lst = getattr(parent, field, None)
            if isinstance(lst, list) and node in lst:
                for prev in lst[:lst.index(node)]:
                    if isinstance(prev, ast.Assign) and len(prev.targets) == 1 and u(prev.targets[0]) == target_src and _str_valued(prev.value, target_src):
                        return True
        if isinstance(parent, (ast.FunctionDef, ast.AsyncFunctionDef, ast.ClassDef, ast.Module)):
            return False
        node = parent
    return False


def _guarded_by_test(node, par, src):
    """an enclosing if / conditional expression / and-chain tests `src` for truth or `is not None` before node is evaluated"""
    def is_test(t):
        if u(t) == src:
            return True
        if isinstance(t, ast.Compare) and len(t.ops) == 1 and isinstance(t.ops[0], ast.IsNot) and u(t.left) == src and u(t.comparators[0]) == "None":
            return True
        if isinstance(t, ast.BoolOp) and isinstance(t.op, ast.And):
            return any(is_test(v) for v in t.values)
        return False
    child = node
    while True:
        parent = par.get(id(child))
        if parent is None or isinstance(parent, (ast.FunctionDef, ast.AsyncFunctionDef, ast.ClassDef, ast.Module)):
            return False
        if isinstance(parent, ast.If) and child in parent.body and is_test(parent.test):
            return True
        if isinstance(parent, ast.IfExp) and child is parent.body and is_test(parent.test):
            return True
        if isinstance(parent, ast.IfExp) and child is parent.orelse and isinstance(parent.test, ast.Compare) and len(parent.test.ops) == 1 \
                and isinstance(parent.test.ops[0], ast.Is) and u(parent.test.left) == src and u(parent.test.comparators[0]) == "None":
            return True
        if isinstance(parent, ast.BoolOp) and isinstance(parent.op, ast.And) and child in parent.values and any(is_test(v) for v in parent.values[:parent.values.index(child)]):
            return True
        child = parent


def fact_detail_none_safe():
    seen = 0
    for dp, dn, fn in os.walk(PKG):
        dn.sort()
        if "templates" in dp.split(os.sep):
            continue
        for f in sorted(fn):
            if not f.endswith(".py"):
                continue
            tree = parse(os.path.relpath(os.path.join(dp, f), PKG))
            par = _parents(tree)
            for n in ast.walk(tree):
                if isinstance(n, ast.AugAssign) and isinstance(n.target, ast.Attribute) and n.target.attr == "detail":
                    seen += 1
                    if not _dominating_str_assign(n, par, u(n.target)):
                        return False
                if not (isinstance(n, ast.Attribute) and n.attr == "detail" and isinstance(n.ctx, ast.Load)):
                    continue
                seen += 1
                src = u(n)
                p_ = par.get(id(n))
                if isinstance(p_, ast.FormattedValue) and p_.value is n and p_.format_spec is None:
                    continue                                                   # (a)
                if isinstance(p_, ast.BoolOp) and isinstance(p_.op, ast.Or) and p_.values[0] is n and all(_str_valued(v, src) for v in p_.values[1:]):
                    continue                                                   # (b)
                if isinstance(p_, (ast.If, ast.IfExp, ast.While)) and p_.test is n:
                    continue                                                   # (c) truth test
                if isinstance(p_, ast.UnaryOp) and isinstance(p_.op, ast.Not):
                    continue
                if isinstance(p_, ast.Compare) and all(isinstance(o, (ast.Is, ast.IsNot)) for o in p_.ops):
                    continue
                if isinstance(p_, ast.BoolOp) and isinstance(p_.op, ast.And) and _guarded_by_test(n, par, src) is False and p_.values[0] is n:
                    continue                                                   # first operand of an and-chain: a truth test
                if isinstance(p_, ast.keyword) and p_.arg == "detail":
                    continue                                                   # (d)
                if _guarded_by_test(n, par, src):
                    continue                                                   # (c) guarded
                # statement-level dominance for reads inside an f-string assignment etc. is covered by (a); everything else is unsafe
                return False
    return seen >= 5


LOOPS = [("parser/properties/__init__.py", "_create_schemas"), ("parser/properties/__init__.py", "_process_models"),
         ("parser/properties/__init__.py", "build_parameters")]


def main():
    levels, defaults = fact_levels()
    validation_caught, scalar_guard = fact_validation()
    lines = ["(* GENERATED by harness/translate/gen_cli.py from the AST of openapi_python_client/{cli,__init__}.py, parser/{errors,openapi,bodies}.py,",
             "   parser/properties/__init__.py. Do not edit. *)",
             "From Coq Require Import NArith List Bool. Import ListNotations. Open Scope N_scope.",
             "Definition gen_error_levels : list (list N) := [%s]. (* %s *)" % ("; ".join(cstr(x) for x in levels), ", ".join(levels)),
             "Definition gen_default_levels : list (list N * list N) := [%s]. (* %s *)" % (
                 "; ".join(f"({cstr(c)}, {cstr(l)})" for c, l in defaults), ", ".join(f"{c}={l}" for c, l in defaults)),
             f"Definition gen_exit_rule : bool := {b(fact_exit_rule())}.",
             f"Definition gen_generate_shape : bool := {b(fact_generate_shape())}.",
             f"Definition gen_get_errors_shape : bool := {b(fact_get_errors_shape())}.",
             f"Definition gen_loader_catches : bool := {b(fact_loader_catches())}.",
             f"Definition gen_validation_caught : bool := {b(validation_caught)}.",
             f"Definition gen_scalar_guard : bool := {b(scalar_guard and validation_caught)}.",
             f"Definition gen_mkdir_parents : bool := {b(fact_mkdir_parents())}.",
             "Definition gen_retry_loops : list (list N * bool) := [%s]. (* %s *)" % (
                 "; ".join(f"({cstr(n)}, {b(fact_retry_loop(rel, n))})" for rel, n in LOOPS), ", ".join(n for _, n in LOOPS)),
             f"Definition gen_body_ref_guard : bool := {b(fact_body_ref_guard())}.",
             f"Definition gen_kind_guards : bool := {b(fact_kind_guards())}.",
             f"Definition gen_detail_none_safe : bool := {b(fact_detail_none_safe())}.",
             f"Definition gen_ctype_dispatch : bool := {b(fact_ctype_dispatch())}."]
    txt = "\n".join(lines) + "\n"
    os.makedirs(os.path.dirname(OUT), exist_ok=True)
    old = None
    if os.path.exists(OUT):
        with open(OUT, encoding="utf-8") as f:
            old = f.read()
    if old != txt:
        with open(OUT, "w", encoding="utf-8") as f:
            f.write(txt)
    print("GenCli.v:", "changed" if old != txt else "unchanged")


if __name__ == "__main__":
    try:
        main()
    except Exception as e:  # fail closed
        import traceback
        traceback.print_exc()
        sys.exit(1)
