(* PyEval.v — a mini evaluator for the sub-language of Python expressions that convert_value emits as defaults:
   integer literals, True/False/None, float tokens, string literals, isoparse(<str>)[.date()], UUID(<str>), Class.MEMBER. *)
From Coq Require Import NArith ZArith List Bool Lia.
Import ListNotations.
Require Import OPC.gen.GenTables OPC.Uni OPC.Names OPC.PyLit OPC.Values.
Open Scope N_scope.

Inductive pyval :=
| PVNone | PVBool (b : bool) | PVInt (z : Z) | PVFloat (tok : str) | PVStr (s : str)
| PVDate (s : str) | PVDateTime (s : str) | PVUuid (s : str) | PVMember (cls key : str).

Definition is_digit (c : N) : bool := (48 <=? c) && (c <=? 57).

Fixpoint parse_dec (s : str) (acc : N) : option N :=
  match s with
  | [] => Some acc
  | c :: s' => if is_digit c then parse_dec s' (acc * 10 + (c - 48)) else None
  end.

(* a Python decimal integer literal without leading zeros (or the literal 0) *)
Definition parse_nat_lit (s : str) : option N :=
  match s with
  | [] => None
  | [48] => Some 0
  | 48 :: _ => None
  | _ => parse_dec s 0
  end.

Definition parse_int (s : str) : option Z :=
  match s with
  | 45 :: r => match parse_nat_lit r with Some n => Some (- Z.of_N n)%Z | None => None end
  | _ => match parse_nat_lit s with Some n => Some (Z.of_N n) | None => None end
  end.

Fixpoint strip_prefix (p s : str) : option str :=
  match p, s with
  | [], _ => Some s
  | x :: p', y :: s' => if x =? y then strip_prefix p' s' else None
  | _ :: _, [] => None
  end.

(* float literal token: digits with at least one of . e E, optional sign, exponent sign; inf / nan are NOT literals *)
Definition float_char (c : N) : bool := is_digit c || (c =? 46) || (c =? 101) || (c =? 69) || (c =? 43) || (c =? 45).
Definition is_float_tok (s : str) : bool :=
  forallb float_char s && existsb is_digit s && existsb (fun c => (c =? 46) || (c =? 101) || (c =? 69)) s.

Definition ident_char (c : N) : bool := xid_continue c.
Fixpoint split_dot (s : str) (acc : str) : option (str * str) :=
  match s with
  | [] => None
  | c :: s' => if c =? 46 then Some (rev acc, s') else split_dot s' (c :: acc)
  end.

Definition eval_code (s : str) : option pyval :=
  if str_eqb s s_True then Some (PVBool true)
  else if str_eqb s s_False then Some (PVBool false)
  else if str_eqb s s_None then Some PVNone
  else match parse_int s with
  | Some z => Some (PVInt z)
  | None =>
    if is_float_tok s then Some (PVFloat s) else
    match lex_string s with
    | Some (v, []) => Some (PVStr v)
    | Some _ => None
    | None =>
      match strip_prefix s_isoparse_open s with
      | Some r => match lex_string r with
                  | Some (v, [41]) => Some (PVDateTime v)
                  | Some (v, rest) => if str_eqb rest s_date_close then Some (PVDate v) else None
                  | None => None
                  end
      | None =>
        match strip_prefix [85;85;73;68;40] s with       (* UUID( *)
        | Some r => match lex_string r with Some (v, [41]) => Some (PVUuid v) | _ => None end
        | None =>
          match split_dot s [] with
          | Some (c, k) => if is_identifier c && is_identifier k then Some (PVMember c k) else None
          | None => None
          end
        end
      end
    end
  end.

(* ---- specification side: what a JSON default means for a kind (lenient numeric strings are part of the documented
   behaviour and count as the equivalent typed value) ---- *)
Definition int_meaning (o : oracles) (v : jval) : option Z :=
  match v with
  | JInt z => Some z
  | JFloat f => if f_finite f then f_int f else None
  | JStr s => match parse_float o s with Some f => if f_finite f then f_int f else None | None => None end
  | _ => None
  end.
Definition bool_meaning (v : jval) : option bool :=
  match v with
  | JBool b => Some b
  | JStr s => if str_eqb (lower s) s_true then Some true else if str_eqb (lower s) s_false then Some false else None
  | _ => None
  end.
