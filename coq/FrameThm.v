(* FrameThm.v - proofs for Frame.v (property C16). *)
From Coq Require Import NArith List Bool String Ascii Lia.
Import ListNotations.
Require Import OPC.gen.GenTables OPC.Uni OPC.Names OPC.NamesThm OPC.Fs OPC.gen.GenFrame OPC.Frame.
Open Scope N_scope.

(* ------------------------------------------------------------------------------------------------ 1. the frame *)
(* what the boolean means *)
Lemma frame_sound : forall doc reads,
  forallb (reads_within doc) reads = true ->
  forall r, In r reads -> exists s, In s (doc (r_opt r)) /\ site_match s r = true.
Proof.
  intros doc reads H r Hr. rewrite forallb_forall in H. specialize (H r Hr).
  unfold reads_within in H. apply existsb_exists in H. exact H.
Qed.

Lemma pat_match_spec p a : pat_match p a = true <-> p = star \/ p = a.
Proof.
  unfold pat_match. rewrite orb_true_iff, !str_eqb_eq. tauto.
Qed.

Lemma site_match_spec s r : site_match s r = true <->
  (s_file s = star \/ s_file s = r_file r) /\ (s_site s = star \/ s_site s = r_site r) /\
  (s_ctx s = star \/ s_ctx s = r_ctx r) /\ s_via s = r_via r.
Proof.
  unfold site_match. rewrite !andb_true_iff, !pat_match_spec, str_eqb_eq. tauto.
Qed.

(* reflection on the regenerated table *)
Theorem frame : forallb (reads_within documented_sites) gen_option_reads = true.
Proof. vm_compute. reflexivity. Qed.

(* every syntactic read of an option lies in that option's documented site set (and no read is unclassified: the option `?`
   has no documented site) *)
Theorem frame_reads_documented : forall r, In r gen_option_reads ->
  exists s, In s (documented_sites (r_opt r)) /\
    (s_file s = star \/ s_file s = r_file r) /\ (s_site s = star \/ s_site s = r_site r) /\
    (s_ctx s = star \/ s_ctx s = r_ctx r) /\ s_via s = r_via r.
Proof.
  intros r Hr. destruct (frame_sound _ _ frame r Hr) as [s [Hs Hm]].
  exists s. split; [exact Hs|]. apply site_match_spec. exact Hm.
Qed.

Theorem unknown_has_no_site : documented_sites (s2l "?") = [].
Proof. vm_compute. reflexivity. Qed.

Theorem defaults_documented : defaults_ok = true.
Proof. vm_compute. reflexivity. Qed.
Theorem options_documented : options_documented_ok = true.
Proof. vm_compute. reflexivity. Qed.
Theorem merge_faithful : merge_ok = true.
Proof. vm_compute. reflexivity. Qed.
Theorem every_option_read : every_option_read_ok = true.
Proof. vm_compute. reflexivity. Qed.

Lemma merge_row_sound field kind src : In (field, kind, src) gen_merge ->
  src = field /\ (In field cli_params \/ In field (map fst gen_configfile_fields)).
Proof.
  intros H. pose proof merge_faithful as M. unfold merge_ok in M. apply andb_true_iff in M. destruct M as [M _].
  rewrite forallb_forall in M. specialize (M _ H). unfold merge_row_ok in M.
  apply andb_true_iff in M. destruct M as [M1 M2]. apply str_eqb_eq in M1. split; [symmetry; exact M1|].
  destruct (str_eqb kind (s2l "param")).
  - left. apply mem_str_In. exact M2.
  - right. apply andb_true_iff in M2. destruct M2 as [_ M2]. apply mem_str_In. exact M2.
Qed.

(* ------------------------------------------------------------------------------------------------ 2a. class_overrides *)
Lemma lookup_str_nil {A} k : @lookup_str A k [] = None.
Proof. reflexivity. Qed.

(* without overrides: the default Class *)
Lemma class_from_string_default s p :
  class_from_string s p [] = (class_name (ref_simple_name s) p, python_identifier (class_name (ref_simple_name s) p) p false).
Proof. reflexivity. Qed.

(* the overridden Class is a function of the DEFAULT class name alone: the override table is a relabelling of default names *)
Theorem override_is_renaming : forall s p ovs,
  class_from_string s p ovs = rename_class ovs p (fst (class_from_string s p [])).
Proof.
  intros s p ovs. unfold class_from_string, rename_class. cbn [lookup_str fst].
  destruct (lookup_str (class_name (ref_simple_name s) p) ovs) as [[oc om]|]; cbn [o_class o_module].
  - destruct oc; destruct om; reflexivity.
  - reflexivity.
Qed.

(* classes the table does not name are untouched *)
Theorem override_local : forall s p ovs,
  lookup_str (fst (class_from_string s p [])) ovs = None -> class_from_string s p ovs = class_from_string s p [].
Proof.
  intros s p ovs H. rewrite override_is_renaming. unfold rename_class. rewrite H. reflexivity.
Qed.

(* a named class gets exactly the requested names, passed through the same ClassName / PythonIdentifier normalisation *)
Theorem override_hit : forall s p ovs o,
  lookup_str (fst (class_from_string s p [])) ovs = Some o ->
  fst (class_from_string s p ovs) = match o_class o with Some c => class_name c p | None => fst (class_from_string s p []) end /\
  snd (class_from_string s p ovs) =
    python_identifier (match o_module o with Some m => m | None => fst (class_from_string s p ovs) end) p false.
Proof.
  intros s p ovs o H. rewrite override_is_renaming. unfold rename_class. rewrite H. cbn [fst snd]. split; reflexivity.
Qed.

(* two strings that mint the same default class get the same overridden class: no override can split a class *)
Corollary override_respects_default : forall s1 s2 p ovs,
  fst (class_from_string s1 p []) = fst (class_from_string s2 p []) -> class_from_string s1 p ovs = class_from_string s2 p ovs.
Proof. intros s1 s2 p ovs H. rewrite (override_is_renaming s1), (override_is_renaming s2), H. reflexivity. Qed.

Lemma nodup_str_NoDup l : nodup_str l = true -> NoDup l.
Proof.
  induction l as [|x l IH]; intros H; [constructor|].
  cbn [nodup_str] in H. apply andb_true_iff in H. destruct H as [H1 H2]. constructor; [|apply IH; exact H2].
  intros Hin. apply mem_str_In in Hin. rewrite Hin in H1. discriminate.
Qed.

Lemma NoDup_map_inj {A B} (f : A -> B) l : NoDup (map f l) -> forall a b, In a l -> In b l -> f a = f b -> a = b.
Proof.
  induction l as [|x l IH]; intros H a b Ha Hb E; [destruct Ha|].
  cbn [map] in H. inversion H as [|? ? Hn Hd]; subst.
  destruct Ha as [Ha|Ha]; destruct Hb as [Hb|Hb]; subst.
  - reflexivity.
  - exfalso. apply Hn. rewrite E. apply in_map. exact Hb.
  - exfalso. apply Hn. rewrite <- E. apply in_map. exact Ha.
  - apply IH; assumption.
Qed.

(* under the (decidable) guard that the table is injective on the document's default names, it is a bijective relabelling:
   distinct classes keep distinct class names and distinct module names *)
Theorem override_injective : forall ovs p names n1 n2,
  rename_injective_on ovs p names = true -> In n1 names -> In n2 names ->
  (fst (rename_class ovs p n1) = fst (rename_class ovs p n2) \/ snd (rename_class ovs p n1) = snd (rename_class ovs p n2)) -> n1 = n2.
Proof.
  intros ovs p names n1 n2 H H1 H2 E. unfold rename_injective_on in H. apply andb_true_iff in H. destruct H as [Ha Hb].
  apply nodup_str_NoDup in Ha. apply nodup_str_NoDup in Hb. destruct E as [E|E].
  - exact (NoDup_map_inj _ _ Ha n1 n2 H1 H2 E).
  - exact (NoDup_map_inj _ _ Hb n1 n2 H1 H2 E).
Qed.

(* the guard is not vacuous, and it can fail: an override onto an existing class name merges two classes *)
Definition ov_example : overrides := [(s2l "Pet", {| o_class := Some (s2l "Animal"); o_module := Some (s2l "zoo") |})].
Example override_injective_example : rename_injective_on ov_example (s2l "field_") [s2l "Pet"; s2l "Owner"] = true
  /\ class_from_string (s2l "#/components/schemas/Pet") (s2l "field_") ov_example = (s2l "Animal", s2l "zoo").
Proof. vm_compute. split; reflexivity. Qed.
Theorem override_collision_refuted : exists ovs names, rename_injective_on ovs (s2l "field_") names = false.
Proof. exists [(s2l "Pet", {| o_class := Some (s2l "Owner"); o_module := None |})], [s2l "Pet"; s2l "Owner"]. vm_compute. reflexivity. Qed.

(* the module component of the guard: an override may send a class into the module file of another class (the writer does not
   check module names: known finding override_module_collision) *)
Theorem override_module_collision_refuted : exists ovs n1 n2,
  n1 <> n2 /\ fst (rename_class ovs (s2l "field_") n1) <> fst (rename_class ovs (s2l "field_") n2) /\
  snd (rename_class ovs (s2l "field_") n1) = snd (rename_class ovs (s2l "field_") n2) /\
  rename_injective_on ovs (s2l "field_") [n1; n2] = false.
Proof.
  exists [(s2l "Alpha", {| o_class := None; o_module := Some (s2l "beta") |})], (s2l "Alpha"), (s2l "Beta").
  vm_compute. repeat split; try reflexivity; discriminate.
Qed.

(* ------------------------------------------------------------------------------------------------ 2b. field_prefix *)
Theorem prefix_decompose : forall v p skip,
  python_identifier v p skip = if needs_prefix v skip then p ++ ident_core v skip else ident_core v skip.
Proof.
  intros v p skip. unfold python_identifier, needs_prefix, ident_core.
  assert (E : sanitize (sanitize v) = sanitize v).
  { unfold sanitize. induction v as [|c v IH]; [reflexivity|]. cbn [filter].
    destruct (is_word c || is_delim c) eqn:Ec; cbn [filter]; [rewrite Ec, IH; reflexivity|exact IH]. }
  destruct skip.
  - reflexivity.
  - unfold snake_case. rewrite E. reflexivity.
Qed.

(* the prefix has an effect exactly on the names that need one *)
Theorem prefix_only_prefixes : forall v skip p1 p2,
  (needs_prefix v skip = false -> python_identifier v p1 skip = python_identifier v p2 skip) /\
  (needs_prefix v skip = true -> (python_identifier v p1 skip = python_identifier v p2 skip <-> p1 = p2)) /\
  (needs_prefix v skip = true -> python_identifier v p1 skip = p1 ++ ident_core v skip).
Proof.
  intros v skip p1 p2. rewrite !prefix_decompose. destruct (needs_prefix v skip).
  - split; [discriminate|]. split; [|reflexivity]. intros _. split.
    + apply app_inv_tail.
    + intros ->. reflexivity.
  - split; [reflexivity|]. split; discriminate.
Qed.

(* when that is: the normalised name is empty, starts with a non-XID_Start character (e.g. a digit), contains a character that
   is not XID_Continue, or the original starts with an underscore *)
Theorem needs_prefix_spec : forall v skip,
  needs_prefix v skip = true <->
  ident_core v skip = [] \/
  (exists c r, ident_core v skip = c :: r /\ (xid_start c = false \/ forallb xid_continue r = false)) \/
  starts_us v = true.
Proof.
  intros v skip. unfold needs_prefix. rewrite orb_true_iff, negb_true_iff. unfold is_identifier.
  destruct (ident_core v skip) as [|c r].
  - split; [intros _; left; reflexivity|]. intros _. left. reflexivity.
  - rewrite andb_false_iff. split.
    + intros [H|H]; [right; left; exists c, r; split; [reflexivity|exact H]|right; right; exact H].
    + intros [H|[[c' [r' [E H]]]|H]]; [discriminate| |right; exact H].
      inversion E; subst. left. exact H.
Qed.

Theorem class_prefix_decompose : forall v p,
  class_name v p = if class_needs_prefix v then fix_reserved (pascal_case (sanitize (p ++ class_core v))) else class_core v.
Proof. intros v p. unfold class_name, class_needs_prefix, class_core. reflexivity. Qed.

Corollary class_prefix_only_prefixes : forall v p1 p2, class_needs_prefix v = false -> class_name v p1 = class_name v p2.
Proof. intros v p1 p2 H. rewrite !class_prefix_decompose, H. reflexivity. Qed.

Example needs_prefix_examples :
  needs_prefix (s2l "name") false = false /\ needs_prefix (s2l "1st") false = true /\ needs_prefix (s2l "_private") false = true /\
  needs_prefix (s2l "$$") false = true /\ python_identifier (s2l "1st") (s2l "attr_") false = s2l "attr_1st".
Proof. vm_compute. repeat split; reflexivity. Qed.

(* ------------------------------------------------------------------------------------------------ 2c. generate_all_tags *)
Section CollectThm.
  Variable E : Type.
  Implicit Types (c : colls E) (e : E) (t : str).

  Lemma str_eqb_refl t : str_eqb t t = true.
  Proof. apply str_eqb_eq. reflexivity. Qed.
  Lemma str_eqb_sym a b : str_eqb a b = str_eqb b a.
  Proof.
    destruct (str_eqb a b) eqn:E1; destruct (str_eqb b a) eqn:E2; try reflexivity.
    - apply str_eqb_eq in E1. subst. rewrite str_eqb_refl in E2. discriminate.
    - apply str_eqb_eq in E2. subst. rewrite str_eqb_refl in E1. discriminate.
  Qed.

  Definition has_key t c : bool := match lookup_str t c with Some _ => true | None => false end.

  Lemma lookup_setdefault t t' c :
    lookup_str t (setdefault t' c) = match lookup_str t c with Some l => Some l | None => if str_eqb t' t then Some [] else None end.
  Proof.
    induction c as [|[k v] c IH].
    - cbn [setdefault lookup_str]. reflexivity.
    - cbn [setdefault]. destruct (str_eqb k t') eqn:Ek.
      + cbn [lookup_str]. destruct (str_eqb k t) eqn:Ekt; [reflexivity|].
        apply str_eqb_eq in Ek. subst k. rewrite Ekt.
        destruct (lookup_str t c); reflexivity.
      + cbn [lookup_str]. destruct (str_eqb k t) eqn:Ekt; [reflexivity|]. exact IH.
  Qed.

  Lemma endpoints_setdefault t t' c : endpoints_at t (setdefault t' c) = endpoints_at t c.
  Proof.
    unfold endpoints_at. rewrite lookup_setdefault. destruct (lookup_str t c); [reflexivity|].
    destruct (str_eqb t' t); reflexivity.
  Qed.

  Lemma has_key_setdefault_same t c : has_key t (setdefault t c) = true.
  Proof. unfold has_key. rewrite lookup_setdefault. destruct (lookup_str t c); [reflexivity|]. rewrite str_eqb_refl. reflexivity. Qed.
  Lemma has_key_setdefault_mono t t' c : has_key t c = true -> has_key t (setdefault t' c) = true.
  Proof. unfold has_key. rewrite lookup_setdefault. destruct (lookup_str t c); [reflexivity|discriminate]. Qed.

  Lemma lookup_append t t' e c :
    lookup_str t (append_to t' e c) =
      if str_eqb t' t then option_map (fun l => l ++ [e]) (lookup_str t c) else lookup_str t c.
  Proof.
    induction c as [|[k v] c IH].
    - cbn [append_to lookup_str]. destruct (str_eqb t' t); reflexivity.
    - cbn [append_to]. destruct (str_eqb k t') eqn:Ek.
      + apply str_eqb_eq in Ek. subst k. cbn [lookup_str]. destruct (str_eqb t' t) eqn:Et; reflexivity.
      + cbn [lookup_str]. destruct (str_eqb k t) eqn:Ekt.
        * destruct (str_eqb t' t) eqn:Et; [|reflexivity].
          apply str_eqb_eq in Ekt. apply str_eqb_eq in Et. subst. rewrite str_eqb_refl in Ek. discriminate.
        * exact IH.
  Qed.

  Lemma has_key_append t t' e c : has_key t (append_to t' e c) = has_key t c.
  Proof. unfold has_key. rewrite lookup_append. destruct (str_eqb t' t); destruct (lookup_str t c); reflexivity. Qed.

  Lemma endpoints_append t t' e c : has_key t' c = true ->
    endpoints_at t (append_to t' e c) = endpoints_at t c ++ (if str_eqb t t' then [e] else []).
  Proof.
    intros Hk. unfold endpoints_at. rewrite lookup_append. rewrite (str_eqb_sym t t').
    destruct (str_eqb t' t) eqn:Et.
    - apply str_eqb_eq in Et. subst t'. unfold has_key in Hk. destruct (lookup_str t c); [reflexivity|discriminate].
    - rewrite app_nil_r. reflexivity.
  Qed.

  Lemma fold_setdefault_endpoints t ts : forall c, endpoints_at t (fold_left (fun c t => setdefault t c) ts c) = endpoints_at t c.
  Proof. induction ts as [|x ts IH]; intros c; [reflexivity|]. cbn [fold_left]. rewrite IH. apply endpoints_setdefault. Qed.

  Lemma fold_setdefault_keys ts : forall c x,
    (In x ts \/ has_key x c = true) -> has_key x (fold_left (fun c t => setdefault t c) ts c) = true.
  Proof.
    induction ts as [|y ts IH]; intros c x H.
    - destruct H as [[]|H]. exact H.
    - cbn [fold_left]. apply IH. destruct H as [[->|H]|H].
      + right. apply has_key_setdefault_same.
      + left. exact H.
      + right. apply has_key_setdefault_mono. exact H.
  Qed.

  Lemma fold_append_endpoints t e ts : forall c,
    (forall x, In x ts -> has_key x c = true) ->
    endpoints_at t (fold_left (fun c t => append_to t e c) ts c) = endpoints_at t c ++ repeat e (count_str t ts).
  Proof.
    induction ts as [|y ts IH]; intros c Hk.
    - cbn. rewrite app_nil_r. reflexivity.
    - cbn [fold_left]. rewrite IH.
      + rewrite endpoints_append by (apply Hk; left; reflexivity).
        rewrite <- app_assoc. f_equal. unfold count_str. cbn [filter]. destruct (str_eqb t y); reflexivity.
      + intros x Hx. rewrite has_key_append. apply Hk. right. exact Hx.
  Qed.

  Lemma place_endpoints t c ts (oe : option E) :
    endpoints_at t (place c ts oe) = endpoints_at t c ++ match oe with None => [] | Some e => repeat e (count_str t ts) end.
  Proof.
    unfold place. destruct oe as [e|].
    - rewrite fold_append_endpoints.
      + rewrite fold_setdefault_endpoints. reflexivity.
      + intros x Hx. apply fold_setdefault_keys. left. exact Hx.
    - rewrite fold_setdefault_endpoints, app_nil_r. reflexivity.
  Qed.

  Lemma collect_from_spec all t ops : forall c,
    endpoints_at t (collect_from all ops c) = endpoints_at t c ++ expected_at all t ops.
  Proof.
    induction ops as [|[tags oe] ops IH]; intros c.
    - cbn. rewrite app_nil_r. reflexivity.
    - unfold collect_from in *. cbn [fold_left fst snd]. rewrite IH, place_endpoints, <- app_assoc. reflexivity.
  Qed.

  (* complete characterisation of the tag selection, for every list of operations *)
  Theorem collect_spec : forall all t (ops : list (list str * option E)),
    endpoints_at t (collect all ops) = expected_at all t ops.
  Proof. intros all t ops. unfold collect. rewrite collect_from_spec. reflexivity. Qed.

  Lemma count_str_pos t l : In t l -> (0 < count_str t l)%nat.
  Proof.
    induction l as [|x l IH]; intros H; [destruct H|]. unfold count_str in *. cbn [filter].
    destruct (str_eqb t x) eqn:Ex; [cbn; lia|]. destruct H as [->|H]; [rewrite str_eqb_refl in Ex; discriminate|]. apply IH. exact H.
  Qed.
  Lemma count_str_In t l : (0 < count_str t l)%nat -> In t l.
  Proof.
    induction l as [|x l IH]; unfold count_str in *; cbn [filter]; intros H; [cbn in H; lia|].
    destruct (str_eqb t x) eqn:Ex; [left; symmetry; apply str_eqb_eq; exact Ex|right; apply IH; exact H].
  Qed.

  Lemma In_expected all t ops e :
    In e (expected_at all t ops) <-> exists tags, In (tags, Some e) ops /\ In t (op_tags all tags).
  Proof.
    unfold expected_at. rewrite in_flat_map. split.
    - intros [[tags oe] [Hop Hin]]. cbn [fst snd] in Hin. destruct oe as [e'|]; [|destruct Hin].
      apply repeat_spec in Hin as Heq. subst e'. exists tags. split; [exact Hop|].
      apply count_str_In. destruct (count_str t (op_tags all tags)); [destruct Hin|lia].
    - intros [tags [Hop Ht]]. exists (tags, Some e). split; [exact Hop|]. cbn [fst snd].
      apply count_str_pos in Ht. destruct (count_str t (op_tags all tags)) as [|n]; [lia|]. left. reflexivity.
  Qed.

  (* generate_all_tags: the SAME endpoint value sits under every one of its tags *)
  Theorem all_tags_identical : forall (ops : list (list str * option E)) tags e t,
    In (tags, Some e) ops -> In t (op_tags true tags) -> In e (endpoints_at t (collect true ops)).
  Proof. intros ops tags e t Hop Ht. rewrite collect_spec. apply In_expected. exists tags. split; assumption. Qed.

  (* option off: an endpoint sits under its first tag only *)
  Theorem first_tag_only : forall (ops : list (list str * option E)) e t,
    In e (endpoints_at t (collect false ops)) <-> exists tags, In (tags, Some e) ops /\ hd_error (op_tags true tags) = Some t.
  Proof.
    intros ops e t. rewrite collect_spec, In_expected. split; intros [tags [Hop H]]; exists tags; (split; [exact Hop|]).
    - unfold op_tags in *. destruct (map _ _) as [|x l]; [destruct H|]. cbn in H. destruct H as [->|[]]. reflexivity.
    - unfold op_tags in *. destruct (map _ _) as [|x l]; [discriminate|]. cbn in H. inversion H. left. reflexivity.
  Qed.

  (* the module an endpoint gets with the option off is also there with the option on, holding the same value, and an endpoint
     that only has one tag is placed identically *)
  Theorem off_within_on : forall (ops : list (list str * option E)) e t,
    In e (endpoints_at t (collect false ops)) -> In e (endpoints_at t (collect true ops)).
  Proof.
    intros ops e t H. rewrite collect_spec, In_expected in *. destruct H as [tags [Hop H]]. exists tags. split; [exact Hop|].
    unfold op_tags in *. destruct (map _ _) as [|x l]; [destruct H|]. destruct H as [->|[]]. left. reflexivity.
  Qed.

  Theorem op_tags_off : forall tags, op_tags false tags = firstn 1 (op_tags true tags).
  Proof. reflexivity. Qed.
  Theorem op_tags_nonempty : forall all tags, op_tags all tags <> [].
  Proof. intros all tags. unfold op_tags. destruct tags; destruct all; discriminate. Qed.
  Theorem single_tag_same : forall tags, (List.length tags <= 1)%nat -> op_tags true tags = op_tags false tags.
  Proof. intros [|a [|b l]] H; try reflexivity. cbn in H. lia. Qed.
End CollectThm.

(* ------------------------------------------------------------------------------------------------ 2d. content_type_overrides *)
Lemma ct_target_nil ct : ct_target [] ct = ct.
Proof. reflexivity. Qed.

(* classification is that of the override target *)
Theorem content_type_override : forall ovs ct, get_content_type ovs ct = get_content_type [] (ct_target ovs ct).
Proof. reflexivity. Qed.

(* ... while the media type string kept for the request header is the document's own *)
Theorem body_override : forall ovs ct,
  body_of ovs ct = option_map (fun b => {| b_sent := ct; b_type := b_type b |}) (body_of [] (ct_target ovs ct)).
Proof.
  intros ovs ct. unfold body_of. rewrite content_type_override. rewrite (content_type_override [] (ct_target ovs ct)), ct_target_nil.
  destruct (get_content_type [] (ct_target ovs ct)) as [p|]; [|reflexivity].
  destruct (body_type_of p); reflexivity.
Qed.

Theorem body_sent_as_itself : forall ovs ct b, body_of ovs ct = Some b -> b_sent b = ct.
Proof.
  intros ovs ct b. unfold body_of. destruct (get_content_type ovs ct) as [p|]; [|discriminate].
  destruct (body_type_of p); [|discriminate]. cbn. intros H. inversion H. reflexivity.
Qed.

Theorem source_override : forall ovs ct, source_of ovs ct = source_of [] (ct_target ovs ct).
Proof. reflexivity. Qed.

(* media types the table does not name are untouched *)
Theorem content_type_override_local : forall ovs ct, lookup_str ct ovs = None ->
  get_content_type ovs ct = get_content_type [] ct /\ body_of ovs ct = body_of [] ct /\ source_of ovs ct = source_of [] ct.
Proof.
  intros ovs ct H. unfold body_of, source_of. rewrite content_type_override. unfold ct_target. rewrite H.
  repeat split; reflexivity.
Qed.

Example content_type_override_example :
  let ovs := [(s2l "application/zip", s2l "application/octet-stream")] in
  body_of [] (s2l "application/zip") = None /\
  body_of ovs (s2l "application/zip") = Some {| b_sent := s2l "application/zip"; b_type := BContent |} /\
  source_of ovs (s2l "application/zip") = Some SrcBytes /\
  get_content_type [] (s2l "application/json; charset=utf-8") = Some (s2l "application/json") /\
  get_content_type [] (s2l "Application/JSON") = None.
Proof. vm_compute. repeat split; reflexivity. Qed.

(* ------------------------------------------------------------------------------------------------ 2e. metadata flavour *)
(* the generated file set = the package subtree (a function of the document alone, placed under the package prefix) + what the
   flavour decides *)
Lemma map_flat_map {A B C} (g : B -> C) (f : A -> list B) l : map g (flat_map f l) = flat_map (fun x => map g (f x)) l.
Proof. induction l as [|x l IH]; [reflexivity|]. cbn [flat_map]. rewrite map_app, IH. reflexivity. Qed.

Theorem flavour_files : forall fl pkg d p,
  In p (gen_files fl pkg d) <-> In p (map (app (pkg_prefix fl pkg)) (core_files d)) \/ In p (flavour_only fl pkg).
Proof.
  intros fl pkg d p. unfold gen_files, package_files, metadata_files, model_files, client_files, api_files, core_files.
  set (pp := pkg_prefix fl pkg).
  rewrite !map_app, !in_app_iff. cbn [map]. rewrite !map_map, map_flat_map.
  assert (EA : forall te : str * list str,
            map (app pp) ([d_api_dir; fst te; f_init] :: map (fun e => [d_api_dir; fst te; e ++ ext_py]) (snd te)) =
            (pp ++ [d_api_dir; fst te; f_init]) :: map (fun e => pp ++ [d_api_dir; fst te; e ++ ext_py]) (snd te)).
  { intros te. cbn [map]. rewrite map_map. reflexivity. }
  rewrite (flat_map_ext _ _ EA).
  destruct fl; cbn [flavour_only pkg_prefix] in *; subst pp; cbn [In app]; tauto.
Qed.

(* the subtree itself does not mention the flavour or the package name *)
Theorem package_subtree_flavour_independent : forall fl1 fl2 pkg1 pkg2 d q,
  In (pkg_prefix fl1 pkg1 ++ q) (map (app (pkg_prefix fl1 pkg1)) (core_files d)) <->
  In (pkg_prefix fl2 pkg2 ++ q) (map (app (pkg_prefix fl2 pkg2)) (core_files d)).
Proof.
  intros. rewrite !in_map_iff. split; intros [x [E H]]; apply app_inv_head in E; subst x; exists q; split; auto.
Qed.

(* exactly these: pyproject.toml, README.md, .gitignore (+ setup.py for setup), py.typed in the nested package; nothing for none *)
Theorem flavour_only_table : forall pkg,
  flavour_only FNone pkg = [] /\
  flavour_only FPoetry pkg = [[f_pyproject]; [f_readme]; [f_gitignore]; [pkg; f_pytyped]] /\
  flavour_only FPdm pkg = [[f_pyproject]; [f_readme]; [f_gitignore]; [pkg; f_pytyped]] /\
  flavour_only FSetup pkg = [[f_pyproject]; [f_setup]; [f_readme]; [f_gitignore]; [pkg; f_pytyped]].
Proof. intros; repeat split; reflexivity. Qed.

(* ------------------------------------------------------------------------------------------------ 2f. title prefixing *)
Theorem title_prefix_option : forall b title name parent,
  (* no usable title: the option has no effect *)
  ((title = None \/ title = Some []) -> model_class_string b title name parent = model_class_string true title name parent) /\
  (* a title and the option off: exactly the title *)
  (forall c r, title = Some (c :: r) -> model_class_string false title name parent = c :: r).
Proof.
  intros b title name parent. split.
  - intros [->| ->]; destruct b; reflexivity.
  - intros c r ->. reflexivity.
Qed.

(* ------------------------------------------------------------------------------------------------ 2g. project / package names *)
(* an override is taken verbatim *)
Theorem project_name_override_verbatim : forall c r title, project_name (Some (c :: r)) title = c :: r.
Proof. reflexivity. Qed.
Theorem package_name_override_verbatim : forall c r po title, package_name (Some (c :: r)) po title = c :: r.
Proof. reflexivity. Qed.

(* without a package override the package name is the project name with every `-` replaced by `_` and NOTHING else changed:
   same length, and position by position either the same character, or `-` became `_` *)
Theorem package_name_is_dash_replacement : forall po title,
  let p := project_name po title in
  let k := package_name None po title in
  List.length k = List.length p /\
  forall i, nth i k 0 = (if nth i p 0 =? 45 then 95 else nth i p 0).
Proof.
  intros po title p k. unfold k, package_name, nonempty_or. fold p. unfold replace_dash. split.
  - apply map_length.
  - intros i. exact (map_nth (fun c => if c =? 45 then 95 else c) p 0 i).
Qed.

(* in particular: case, digits, dots, spaces and underscores of a project_name_override survive; no dash remains *)
Theorem package_name_keeps_other_chars : forall c r title x,
  In x (package_name None (Some (c :: r)) title) -> x <> 45 /\ (In x (c :: r) \/ (x = 95 /\ In 45 (c :: r))).
Proof.
  intros c r title x H. unfold package_name, nonempty_or, project_name, replace_dash in H.
  apply in_map_iff in H. destruct H as [y [Hy Hin]]. destruct (N.eqb_spec y 45) as [E|E].
  - subst. split; [discriminate|]. right. split; [reflexivity|exact Hin].
  - subst. split; [exact E|]. left. exact Hin.
Qed.

Example package_name_examples :
  package_name None (Some (s2l "AcmeBilling-SDK")) (s2l "t") = s2l "AcmeBilling_SDK" /\
  package_name None (Some (s2l "billingV2-client")) (s2l "t") = s2l "billingV2_client" /\
  package_name None (Some (s2l "a.b c__d-E")) (s2l "t") = s2l "a.b c__d_E" /\
  package_name None None (s2l "My API v2") = s2l "my_api_v_2_client" /\
  project_name (Some []) (s2l "My API") = s2l "my-api-client".
Proof. vm_compute. repeat split; reflexivity. Qed.

(* ------------------------------------------------------------------------------------------------ 1b. writers and docstring literals *)
Theorem all_writers_encoded : writers_ok = true.
Proof. vm_compute. reflexivity. Qed.
Theorem writers_sound : forall f site callee enc, In (f, site, callee, enc) gen_writers -> enc = true.
Proof.
  intros f site callee enc H. pose proof all_writers_encoded as W. unfold writers_ok in W. apply andb_true_iff in W. destruct W as [W _].
  rewrite forallb_forall in W. exact (W _ H).
Qed.
Theorem docstring_literals_documented : docstring_literals_ok = true.
Proof. vm_compute. reflexivity. Qed.
Theorem docstring_literals_sound : forall f e, In (f, e) gen_docstring_literals ->
  (f = s2l "templates/helpers.jinja" /\ e = s2l "content") \/ f = s2l "templates/client.py.jinja".
Proof.
  intros f e H. pose proof docstring_literals_documented as D. unfold docstring_literals_ok in D. rewrite forallb_forall in D.
  specialize (D _ H). unfold docstring_literal_ok, documented_docstring_literals in D. cbn [existsb fst snd] in D.
  rewrite orb_false_r in D. apply orb_true_iff in D. destruct D as [D|D]; apply andb_true_iff in D; destruct D as [D1 D2].
  - left. apply str_eqb_eq in D1. apply pat_match_spec in D2. destruct D2 as [D2|D2].
    + exfalso. vm_compute in D2. discriminate.
    + split; [symmetry; exact D1|symmetry; exact D2].
  - right. apply str_eqb_eq in D1. symmetry. exact D1.
Qed.

(* ------------------------------------------------------------------------------------------------ 1c. metadata templates *)
Theorem metadata_reads_documented : metadata_reads_ok = true.
Proof. vm_compute. reflexivity. Qed.
Theorem metadata_reads_sound : forall f e, In (f, e) gen_metadata_reads -> In e documented_metadata_vars.
Proof.
  intros f e H. pose proof metadata_reads_documented as M. unfold metadata_reads_ok in M. rewrite forallb_forall in M.
  specialize (M _ H). apply mem_str_In. exact M.
Qed.
(* the version reaches a metadata file only through package_version *)
Corollary metadata_version_only_through_package_version : forall f e, In (f, e) gen_metadata_reads ->
  e <> s2l "openapi.version" /\ e <> s2l "openapi" /\ e <> s2l "config.package_version_override" /\ e <> s2l "config".
Proof.
  intros f e H. apply metadata_reads_sound in H. unfold documented_metadata_vars in H. cbn [In] in H.
  repeat split; intros ->; repeat (destruct H as [H|H]; [vm_compute in H; discriminate|]); exact H.
Qed.
Theorem version_declared : version_declared_ok = true.
Proof. vm_compute. reflexivity. Qed.
