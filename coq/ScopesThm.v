(* ScopesThm.v — proofs about Scopes.v (C09, second half: names of one scope never merge silently). *)
From Coq Require Import NArith ZArith PeanoNat List Bool Lia ZifyBool.
Import ListNotations.
Require Import OPC.gen.GenTables OPC.Uni OPC.Names OPC.NamesThm OPC.Values OPC.ValuesThm OPC.Scopes.
Open Scope N_scope.

(* a concrete name that needs no prefix: the result does not depend on the prefix *)
Lemma pi_noprefix (v prefix : str) (sk : bool) :
  negb (is_identifier (fix_reserved (if sk then sanitize v else snake_case (sanitize v)))) || starts_us v = false ->
  python_identifier v prefix sk = fix_reserved (if sk then sanitize v else snake_case (sanitize v)).
Proof.
  intro H. unfold python_identifier.
  destruct sk; cbv zeta; rewrite H; reflexivity.
Qed.

(* never compute the table-driven functions on variables *)
#[local] Opaque python_identifier class_name.

(* ================= generic ================= *)
Lemma str_eqb_refl s : str_eqb s s = true.
Proof. now apply str_eqb_eq. Qed.

Lemma str_eqb_neq a b : str_eqb a b = false <-> a <> b.
Proof.
  split.
  - intros H E. apply str_eqb_eq in E. congruence.
  - intro H. destruct (str_eqb a b) eqn:E; [|reflexivity]. apply str_eqb_eq in E. contradiction.
Qed.

Lemma mem_str_false s l : mem_str s l = false <-> ~ In s l.
Proof.
  split.
  - intros H Hin. apply mem_str_In in Hin. congruence.
  - intro H. destruct (mem_str s l) eqn:E; [|reflexivity]. apply mem_str_In in E. contradiction.
Qed.

Lemma nodupb_NoDup l : nodupb l = true <-> NoDup l.
Proof.
  induction l as [|x l IH]; cbn [nodupb].
  - split; [constructor | reflexivity].
  - rewrite andb_true_iff, negb_true_iff, mem_str_false, IH. split.
    + intros [H1 H2]. now constructor.
    + intro H. inversion H; subst. now split.
Qed.

Lemma NoDup_snoc {A} (l : list A) x : NoDup l -> ~ In x l -> NoDup (l ++ [x]).
Proof.
  induction l as [|y l IH]; intros Hn Hx; cbn [app].
  - constructor; [intros []|constructor].
  - inversion Hn; subst. constructor.
    + intro Hin. apply in_app_or in Hin as [Hin|[<-|[]]]; [contradiction|]. apply Hx. now left.
    + apply IH; [assumption|]. intro Hin. apply Hx. now right.
Qed.

(* ================= (a) model attributes ================= *)
Lemma scan_no_conflict prefix cur : forall others,
  (forall o, In o others -> a_py o <> a_py cur) ->
  scan_conflicts prefix cur others = Ok (cur, others).
Proof.
  induction others as [|o os IH]; intro H; cbn [scan_conflicts]; [reflexivity|].
  assert (Hne: str_eqb (a_py o) (a_py cur) = false) by (apply str_eqb_neq, H; now left).
  rewrite Hne. cbn [negb]. rewrite orb_true_r. rewrite IH; [reflexivity|].
  intros o' Ho'. apply H. now right.
Qed.

Lemma put_attr_fresh c : forall l, (forall o, In o l -> a_name o <> a_name c) -> put_attr c l = l ++ [c].
Proof.
  induction l as [|o l IH]; intro H; cbn [put_attr app]; [reflexivity|].
  assert (Hne: str_eqb (a_name o) (a_name c) = false) by (apply str_eqb_neq, H; now left).
  rewrite Hne, IH; [reflexivity|]. intros o' Ho'. apply H. now right.
Qed.

Lemma py_default_inj_name prefix a b : py_default prefix a <> py_default prefix b -> a <> b.
Proof. intros H E. subst. contradiction. Qed.

Lemma add_attrs_plain prefix : forall rest done,
  NoDup (map (py_default prefix) (done ++ rest)) ->
  add_attrs prefix (map (attr_init prefix) done) rest = Ok (map (attr_init prefix) (done ++ rest)).
Proof.
  induction rest as [|n rest IH]; intros done Hnd; cbn [add_attrs].
  - now rewrite app_nil_r.
  - assert (Hfresh: forall o, In o (map (attr_init prefix) done) -> a_py o <> a_py (attr_init prefix n)).
    { intros o Ho. apply in_map_iff in Ho as [x [<- Hx]]. cbn [attr_init a_py].
      rewrite map_app in Hnd. cbn [map] in Hnd. apply NoDup_remove_2 in Hnd.
      intro E. apply Hnd. apply in_or_app. left. rewrite <- E. now apply in_map. }
    unfold add_attr. rewrite (scan_no_conflict _ _ _ Hfresh).
    rewrite put_attr_fresh.
    + replace (map (attr_init prefix) done ++ [attr_init prefix n]) with (map (attr_init prefix) (done ++ [n]))
        by (now rewrite map_app).
      rewrite IH; [now rewrite <- app_assoc | now rewrite <- app_assoc].
    + intros o Ho E. specialize (Hfresh o Ho).
      apply in_map_iff in Ho as [x [<- Hx]]. cbn [attr_init a_name a_py] in *. subst x. now apply Hfresh.
Qed.

(* Under the guard nothing is renamed: every attribute keeps its default (snake-cased) python name, the fold succeeds,
   and the names are pairwise distinct. *)
Theorem attrs_distinct prefix names :
  g_no_raw_fallback prefix names = true ->
  model_attrs prefix names = Ok (map (attr_init prefix) names) /\
  NoDup (map a_py (map (attr_init prefix) names)) /\
  map a_py (map (attr_init prefix) names) = map (fun n => python_identifier n prefix false) names.
Proof.
  intro G. apply nodupb_NoDup in G. unfold model_attrs.
  assert (E: map a_py (map (attr_init prefix) names) = map (py_default prefix) names).
  { rewrite map_map. apply map_ext. reflexivity. }
  split; [|split].
  - apply (add_attrs_plain prefix names []). exact G.
  - now rewrite E.
  - rewrite E. reflexivity.
Qed.

(* ... and then (for document names without the xid gap) every name is a valid non-keyword identifier *)
Corollary attrs_valid prefix names :
  good_prefix prefix = true -> forallb g_xid names = true -> g_no_raw_fallback prefix names = true ->
  exists props, model_attrs prefix names = Ok props /\ NoDup (map a_py props) /\
    forall p, In p props -> is_identifier (a_py p) = true /\ mem_str (a_py p) keywords = false.
Proof.
  intros Hp Hx G. destruct (attrs_distinct prefix names G) as [H1 [H2 H3]].
  exists (map (attr_init prefix) names). split; [exact H1|]. split; [exact H2|].
  intros p Hin. apply in_map_iff in Hin as [n [<- Hn]]. cbn [attr_init a_py]. unfold py_default.
  apply python_identifier_valid; [exact Hp|]. rewrite forallb_forall in Hx. now apply Hx.
Qed.

(* What one _add_if_no_conflict really guarantees. *)
Lemma scan_spec prefix : forall others cur c others',
  scan_conflicts prefix cur others = Ok (c, others') ->
  a_name c = a_name cur /\
  (a_py c = a_py cur \/ a_py c = py_raw prefix (a_name cur)) /\
  length others' = length others /\
  forall i o o', nth_error others i = Some o -> nth_error others' i = Some o' ->
    (o' = o \/ o' = attr_raw prefix o) /\
    (a_name o <> a_name cur -> a_py o = a_py cur -> a_py o' <> a_py c) /\
    (a_name o <> a_name cur -> a_py c = a_py cur -> a_py o' <> a_py c).
Proof.
  induction others as [|o os IH]; intros cur c others' H; cbn [scan_conflicts] in H.
  - injection H as <- <-. split; [reflexivity|]. split; [now left|]. split; [reflexivity|].
    intros [|i] o o' Ho; discriminate.
  - destruct (str_eqb (a_name o) (a_name cur) || negb (str_eqb (a_py o) (a_py cur))) eqn:Eskip.
    + destruct (scan_conflicts prefix cur os) as [[c1 os1]|] eqn:Es; [|discriminate].
      injection H as <- <-. destruct (IH _ _ _ Es) as [Hn [Hp [Hl Hi]]].
      split; [exact Hn|]. split; [exact Hp|]. split; [cbn [length]; now rewrite Hl|].
      intros [|i] x x' Hx Hx'; cbn [nth_error] in Hx, Hx'.
      * injection Hx as <-. injection Hx' as <-. split; [now left|].
        assert (Hd: a_name o <> a_name cur -> a_py o <> a_py cur).
        { intros Hne. apply orb_true_iff in Eskip as [E|E].
          - apply str_eqb_eq in E. contradiction.
          - apply negb_true_iff, str_eqb_neq in E. exact E. }
        split; intros Hne He; [now apply Hd in Hne|]. rewrite He. now apply Hd.
      * now apply (Hi i).
    + apply orb_false_iff in Eskip as [Ename Epy]. apply negb_false_iff, str_eqb_eq in Epy.
      destruct (str_eqb (a_py (attr_raw prefix cur)) (a_py (attr_raw prefix o))) eqn:Eraw; [discriminate|].
      apply str_eqb_neq in Eraw.
      destruct (scan_conflicts prefix (attr_raw prefix cur) os) as [[c1 os1]|] eqn:Es; [|discriminate].
      injection H as <- <-. destruct (IH _ _ _ Es) as [Hn [Hp [Hl Hi]]].
      cbn [attr_raw a_name a_py] in Hn, Hp, Eraw.
      assert (Hc: a_py c1 = py_raw prefix (a_name cur)) by (destruct Hp as [Hp|Hp]; exact Hp).
      split; [exact Hn|]. split; [now right|]. split; [cbn [length]; now rewrite Hl|].
      intros [|i] x x' Hx Hx'; cbn [nth_error] in Hx, Hx'.
      * injection Hx as <-. injection Hx' as <-. split; [now right|].
        cbn [attr_raw a_py]. rewrite Hc. split; intros _ _ E; apply Eraw; now rewrite E.
      * destruct (Hi i x x' Hx Hx') as [Ha [_ Hb]]. split; [exact Ha|].
        cbn [attr_raw a_name a_py] in Hb.
        split; intros Hne _; apply Hb; auto.
Qed.

(* attrs_last_pair_distinct: when adding `new` to the properties collected so far succeeds,
   - every earlier property whose python name equalled new's default name ends with a name different from new's final name
     (both were renamed to their raw names and compared), and
   - if new keeps its default name it differs from every earlier property;
   nothing is guaranteed about an earlier property whose name equals new's RAW-name fallback (attrs_distinct_refuted). *)
Theorem attrs_last_pair_distinct prefix props new props' :
  (forall o, In o props -> a_name o <> a_name new) ->
  add_attr prefix props new = Ok props' ->
  exists c others', props' = others' ++ [c] /\ a_name c = a_name new /\
    (a_py c = a_py new \/ a_py c = py_raw prefix (a_name new)) /\
    length others' = length props /\
    forall i o o', nth_error props i = Some o -> nth_error others' i = Some o' ->
      (o' = o \/ o' = attr_raw prefix o) /\
      (a_py o = a_py new -> a_py o' <> a_py c) /\
      (a_py c = a_py new -> a_py o' <> a_py c).
Proof.
  intros Hfresh H. unfold add_attr in H.
  destruct (scan_conflicts prefix new props) as [[c others']|] eqn:Es; [|discriminate].
  injection H as <-. destruct (scan_spec _ _ _ _ _ Es) as [Hn [Hp [Hl Hi]]].
  exists c, others'. split.
  - apply put_attr_fresh. intros o Ho. apply In_nth_error in Ho as [i Hi'].
    destruct (nth_error props i) as [o0|] eqn:E0.
    + destruct (Hi i o0 o E0 Hi') as [[->| ->] _]; rewrite Hn; cbn [attr_raw a_name]; apply Hfresh; eapply nth_error_In; exact E0.
    + exfalso. apply nth_error_None in E0. assert (i < length others')%nat by (apply nth_error_Some; congruence). lia.
  - split; [exact Hn|]. split; [exact Hp|]. split; [exact Hl|].
    intros i o o' Ho Ho'. destruct (Hi i o o' Ho Ho') as [Ha [Hb Hc]].
    assert (Hne: a_name o <> a_name new) by (apply Hfresh; eapply nth_error_In; exact Ho).
    split; [exact Ha|]. split; auto.
Qed.

(* the fold reaches its last step through a successful prefix *)
Lemma add_attrs_snoc prefix : forall names props n r,
  add_attrs prefix props (names ++ [n]) = Ok r ->
  exists mid, add_attrs prefix props names = Ok mid /\ add_attr prefix mid (attr_init prefix n) = Ok r.
Proof.
  induction names as [|x names IH]; intros props n r H; cbn [app add_attrs] in *.
  - destruct (add_attr prefix props (attr_init prefix n)) as [p1|] eqn:E; [|discriminate].
    exists props. split; [reflexivity|]. now rewrite E.
  - destruct (add_attr prefix props (attr_init prefix x)) as [p1|] eqn:E; [|discriminate]. now apply IH.
Qed.

Transparent python_identifier.
(* attr_rename_unchecked: Self, self!, $Self — the fold succeeds and two attributes share the python name Self *)
Theorem attrs_distinct_refuted :
  exists names props, NoDup names /\ model_attrs [102;105;101;108;100;95] names = Ok props /\
    g_no_raw_fallback [102;105;101;108;100;95] names = false /\ ~ NoDup (map a_py props).
Proof.
  exists [[83;101;108;102]; [115;101;108;102;33]; [36;83;101;108;102]].
  eexists. split; [|split; [vm_compute; reflexivity | split; [vm_compute; reflexivity|]]].
  - apply nodupb_NoDup. vm_compute. reflexivity.
  - intro H. apply nodupb_NoDup in H. vm_compute in H. discriminate.
Qed.

(* raw_fallback: a-b, a_b — the fold succeeds, names are distinct, but field_a-b is not an identifier *)
Theorem raw_fallback_not_identifier_refuted :
  exists names props, forallb g_xid names = true /\ model_attrs [102;105;101;108;100;95] names = Ok props /\
    g_no_raw_fallback [102;105;101;108;100;95] names = false /\
    exists p, In p props /\ is_identifier (a_py p) = false.
Proof.
  exists [[97;45;98]; [97;95;98]]. eexists.
  split; [vm_compute; reflexivity|]. split; [vm_compute; reflexivity|]. split; [vm_compute; reflexivity|].
  eexists. split; [left; reflexivity|]. vm_compute. reflexivity.
Qed.

Example attrs_distinct_nonvacuous :
  g_no_raw_fallback [102;105;101;108;100;95] [[105;116;101;109;73;100]; [99;108;97;115;115]; [97;45;98]; [95;120]] = true.
Proof. vm_compute. reflexivity. Qed.
Opaque python_identifier.

(* ================= (b) endpoint parameters ================= *)
(* --- termination of the re-run --- *)
Lemma check_fuel_two prefix ps f :
  check_fuel prefix (S (S f)) None ps = Some (check_params_ev prefix ps).
Proof.
  unfold check_params_ev. cbn [check_fuel].
  destruct (pass_loop prefix ps [] [] [] false) as [[[ps1 m1] ev1]|]; [|reflexivity].
  destruct m1 as [|k m1]; cbn [is_nil negb andb]; [reflexivity|].
  destruct (pass_loop prefix ps1 [] [] (k :: m1) false) as [[[ps2 m2] ev2]|]; [|reflexivity].
  now rewrite andb_false_r.
Qed.

(* conflict_check_terminates: the recursion of _check_parameters_for_conflicts needs at most length+1 calls (in fact at most 2:
   the re-run compares the modified set with itself) and computes check_params_ev *)
Theorem conflict_check_terminates prefix ps :
  check_fuel prefix (S (length ps)) None ps = Some (check_params_ev prefix ps) /\
  forall fuel, (2 <= fuel)%nat -> check_fuel prefix fuel None ps = Some (check_params_ev prefix ps).
Proof.
  split.
  - destruct ps as [|p ps]; [reflexivity|]. cbn [length]. apply check_fuel_two.
  - intros [|[|f]] H; try lia. apply check_fuel_two.
Qed.

(* --- dictionary facts --- *)
Lemma dict_pop_None k : forall d r d', dict_pop k d = (r, d') -> (r = None <-> ~ In k (map fst d)).
Proof.
  induction d as [|[k' v] d IH]; intros r d' H; cbn [dict_pop] in H.
  - injection H as <- <-. split; auto.
  - destruct (str_eqb k' k) eqn:E.
    + injection H as <- <-. apply str_eqb_eq in E. subst. split; [discriminate|]. intro Hn. exfalso. apply Hn. now left.
    + destruct (dict_pop k d) as [r1 d1] eqn:E1. injection H as <- <-. apply str_eqb_neq in E.
      rewrite (IH _ _ eq_refl). cbn [map fst In]. tauto.
Qed.

Lemma dict_pop_Some k : forall d j d', dict_pop k d = (Some j, d') -> In (k, j) d.
Proof.
  induction d as [|[k' v] d IH]; intros j d' H; cbn [dict_pop] in H; [discriminate|].
  destruct (str_eqb k' k) eqn:E.
  - injection H as <- <-. apply str_eqb_eq in E. subst. now left.
  - destruct (dict_pop k d) as [r1 d1] eqn:E1. injection H as -> <-. right. now apply (IH _ _ eq_refl).
Qed.

Lemma dict_set_keys k v : forall d x, In x (map fst (dict_set k v d)) <-> x = k \/ In x (map fst d).
Proof.
  induction d as [|[k' v'] d IH]; intro x; cbn [dict_set map fst In].
  - split; [intros [<-|[]]; now left | intros [->|[]]; now left].
  - destruct (str_eqb k' k) eqn:E; cbn [map fst In].
    + apply str_eqb_eq in E. subst. split; [intros [<-|H]; auto | intros [->|[<-|H]]; auto].
    + rewrite IH. tauto.
Qed.

Lemma dict_set_In k v : forall d k1 v1, In (k1, v1) (dict_set k v d) -> (k1 = k /\ v1 = v) \/ In (k1, v1) d.
Proof.
  induction d as [|[k' v'] d IH]; intros k1 v1 H; cbn [dict_set In] in *.
  - destruct H as [[= <- <-]|[]]. now left.
  - destruct (str_eqb k' k); cbn [In] in H.
    + destruct H as [[= <- <-]|H]; [now left | right; now right].
    + destruct H as [H|H]; [right; now left|]. apply IH in H as [H|H]; [now left | right; now right].
Qed.

(* --- the event flag is monotone --- *)
Lemma pass_ev_true prefix : forall todo done used m out m' ev',
  pass_loop prefix todo done used m true = Ok (out, m', ev') -> ev' = true.
Proof.
  induction todo as [|p todo IH]; intros done used m out m' ev' H; cbn [pass_loop] in H.
  - now injection H as _ _ <-.
  - destruct (reserved_param (p_py p)); [now apply IH in H|].
    destruct (dict_pop (p_py p) used) as [[j|] used'].
    + destruct (nth_error done j) as [c|]; [|discriminate].
      destruct (mem_key (p_loc c, p_name c) m || mem_key (p_loc p, p_name p) m); [discriminate|].
      now apply IH in H.
    + now apply IH in H.
Qed.

(* --- a run of the loop that meets no reserved name and no conflict proves distinctness --- *)
Definition quiet_inv (done : list param) (used : list (str * nat)) : Prop :=
  NoDup (map p_py done) /\ (forall p, In p done -> reserved_param (p_py p) = false) /\
  (forall p, In p done -> In (p_py p) (map fst used)).

Lemma pass_quiet prefix : forall todo done used m out m',
  quiet_inv done used ->
  pass_loop prefix todo done used m false = Ok (out, m', false) ->
  out = done ++ todo /\ m' = m /\ NoDup (map p_py out) /\ forall p, In p out -> reserved_param (p_py p) = false.
Proof.
  induction todo as [|p todo IH]; intros done used m out m' [I1 [I2 I3]] H; cbn [pass_loop] in H.
  - injection H as <- <-. rewrite app_nil_r. auto.
  - destruct (reserved_param (p_py p)) eqn:Er; [apply pass_ev_true in H; discriminate|].
    destruct (dict_pop (p_py p) used) as [[j|] used'] eqn:Ep.
    + destruct (nth_error done j) as [c|]; [|discriminate].
      destruct (mem_key (p_loc c, p_name c) m || mem_key (p_loc p, p_name p) m); [discriminate|].
      apply pass_ev_true in H. discriminate.
    + assert (Hk: ~ In (p_py p) (map fst used)) by (now apply (dict_pop_None _ _ _ _ Ep)).
      apply IH in H.
      * rewrite <- app_assoc in H. exact H.
      * split; [|split].
        -- rewrite map_app. cbn [map]. apply NoDup_snoc; [exact I1|].
           intro Hin. apply in_map_iff in Hin as [q [Eq Hq]]. apply Hk. rewrite <- Eq. now apply I3.
        -- intros q Hq. apply in_app_or in Hq as [Hq|[<-|[]]]; auto.
        -- intros q Hq. apply dict_set_keys. apply in_app_or in Hq as [Hq|[<-|[]]]; auto.
Qed.

(* params_distinct_quiet: whenever the check succeeds and its LAST run of the loop met no reserved name and no conflict
   (run-time guard g_last_pass_quiet), all python names are pairwise distinct and none is client / url *)
Theorem params_distinct_quiet prefix ps out :
  check_params prefix ps = Ok out -> g_last_pass_quiet prefix ps = true ->
  NoDup (map p_py out) /\ forall p, In p out -> reserved_param (p_py p) = false.
Proof.
  unfold check_params, g_last_pass_quiet. destruct (check_params_ev prefix ps) as [[r ev]|] eqn:E; [|discriminate].
  intros [= <-] Hq. apply negb_true_iff in Hq. subst ev. unfold check_params_ev in E.
  assert (I0: quiet_inv [] []) by (split; [constructor | split; intros ? []]).
  destruct (pass_loop prefix ps [] [] [] false) as [[[ps1 m1] ev1]|] eqn:E1; [|discriminate].
  destruct (is_nil m1).
  - injection E as <- ->. destruct (pass_quiet _ _ _ _ _ _ _ I0 E1) as [_ [_ H]]. exact H.
  - destruct (pass_loop prefix ps1 [] [] m1 false) as [[[ps2 m2] ev2]|] eqn:E2; [|discriminate].
    injection E as <- ->. destruct (pass_quiet _ _ _ _ _ _ _ I0 E2) as [_ [_ H]]. exact H.
Qed.

(* --- the check never loses, adds or re-keys a parameter --- *)
Lemma update_nth_keys j c c' : forall done, nth_error done j = Some c -> param_key c' = param_key c ->
  map param_key (update_nth j c' done) = map param_key done.
Proof.
  revert j. intros j done. revert j. induction done as [|x done IH]; intros [|j] H Hk; cbn [nth_error update_nth map] in *; try discriminate.
  - injection H as ->. now rewrite Hk.
  - now rewrite IH.
Qed.

Lemma pass_keys prefix : forall todo done used m ev out m' ev',
  pass_loop prefix todo done used m ev = Ok (out, m', ev') -> map param_key out = map param_key (done ++ todo).
Proof.
  induction todo as [|p todo IH]; intros done used m ev out m' ev' H; cbn [pass_loop] in H.
  - injection H as <- _ _. now rewrite app_nil_r.
  - destruct (reserved_param (p_py p)).
    + apply IH in H. rewrite H, <- app_assoc, !map_app. reflexivity.
    + destruct (dict_pop (p_py p) used) as [[j|] used'].
      * destruct (nth_error done j) as [c|] eqn:En; [|discriminate].
        destruct (mem_key (p_loc c, p_name c) m || mem_key (p_loc p, p_name p) m); [discriminate|].
        apply IH in H. rewrite H, <- app_assoc, !map_app. f_equal.
        -- apply (update_nth_keys j c); [exact En|].
           destruct (negb (loc_eqb (p_loc p) (p_loc c))); [reflexivity|].
           destruct (negb (str_eqb (p_name c) (p_name p))); reflexivity.
        -- cbn [map app]. f_equal.
           destruct (negb (loc_eqb (p_loc p) (p_loc c))); [reflexivity|].
           destruct (negb (str_eqb (p_name c) (p_name p))); reflexivity.
      * apply IH in H. rewrite H, <- app_assoc. reflexivity.
Qed.

Theorem check_params_keys prefix ps out :
  check_params prefix ps = Ok out -> map param_key out = map param_key ps.
Proof.
  unfold check_params, check_params_ev.
  destruct (pass_loop prefix ps [] [] [] false) as [[[ps1 m1] ev1]|] eqn:E1; [|discriminate].
  apply pass_keys in E1. cbn [app] in E1. destruct (is_nil m1).
  - intros [= <-]. exact E1.
  - destruct (pass_loop prefix ps1 [] [] m1 false) as [[[ps2 m2] ev2]|] eqn:E2; [|discriminate].
    intros [= <-]. apply pass_keys in E2. cbn [app] in E2. congruence.
Qed.

(* --- the static guard: all python names distinct to begin with; then only reserved names are renamed --- *)
Definition is_res (p : param) : bool := reserved_param (p_py p).

Lemma param_fix_res prefix p : is_res p = true -> param_fix prefix p = param_suffix prefix p.
Proof. unfold is_res, param_fix. now intros ->. Qed.
Lemma param_fix_plain prefix p : is_res p = false -> param_fix prefix p = p.
Proof. unfold is_res, param_fix. now intros ->. Qed.

Lemma pass1_plain prefix : forall todo done0 used m ev,
  NoDup (map p_py (done0 ++ todo)) ->
  (forall k, In k (map fst used) -> In k (map p_py done0)) ->
  exists m' used',
  pass_loop prefix todo (map (param_fix prefix) done0) used m ev =
    Ok (map (param_fix prefix) (done0 ++ todo), m', ev || existsb is_res todo) /\
  (forall k, In k m' <-> In k (map param_key (filter is_res todo)) \/ In k m) /\ used' = used.
Proof.
  induction todo as [|p todo IH]; intros done0 used m ev Hnd Hused; cbn [pass_loop].
  - exists m, used. rewrite app_nil_r. cbn [existsb filter map In]. rewrite orb_false_r. split; [reflexivity|]. split; [tauto|reflexivity].
  - assert (Hnd': NoDup (map p_py ((done0 ++ [p]) ++ todo))) by (now rewrite <- app_assoc).
    cbn [existsb filter]. fold (is_res p). destruct (is_res p) eqn:Er.
    + destruct (IH (done0 ++ [p]) used ((p_loc p, p_name p) :: m) true Hnd') as [m' [u' [H1 [H2 _]]]].
      { intros k Hk. rewrite map_app. apply in_or_app. left. now apply Hused. }
      exists m', used. rewrite map_app in H1. cbn [map] in H1. rewrite (param_fix_res _ _ Er) in H1.
      rewrite <- app_assoc in H1. cbn [app] in H1. rewrite orb_true_r. cbn [orb] in H1. split; [exact H1|]. split; [|reflexivity].
      intro k. rewrite H2. cbn [map In]. unfold param_key at 2. tauto.
    + destruct (dict_pop (p_py p) used) as [r used1] eqn:Ep.
      assert (Hr: r = None).
      { apply (dict_pop_None _ _ _ _ Ep). intro Hin. apply Hused in Hin.
        rewrite map_app in Hnd. cbn [map] in Hnd. apply NoDup_remove_2 in Hnd. apply Hnd. apply in_or_app. now left. }
      subst r.
      destruct (IH (done0 ++ [p]) (dict_set (p_py p) (length (map (param_fix prefix) done0)) used) m ev Hnd') as [m' [u' [H1 [H2 _]]]].
      { intros k Hk. apply dict_set_keys in Hk. rewrite map_app. apply in_or_app. destruct Hk as [->|Hk]; [right; now left | left; now apply Hused]. }
      exists m', used. rewrite map_app in H1. cbn [map] in H1. rewrite (param_fix_plain _ _ Er) in H1.
      rewrite <- app_assoc in H1. cbn [app] in H1. cbn [orb]. split; [exact H1|]. split; [exact H2|reflexivity].
Qed.

Definition marked (m : list pkey) (q : param) : Prop := mem_key (param_key q) m = true.
Definition Rm (m : list pkey) (c p : param) : Prop := p_py c = p_py p -> marked m c \/ marked m p.
Fixpoint pairs_ok (m : list pkey) (l : list param) : Prop :=
  match l with [] => True | x :: r => (forall y, In y r -> Rm m x y) /\ pairs_ok m r end.
Definition used_ok (done : list param) (used : list (str * nat)) : Prop :=
  forall k j, In (k, j) used -> exists c, nth_error done j = Some c /\ p_py c = k.

(* if no name is reserved and every pair of equal names has a member already marked as modified, the run either fails or is quiet *)
Lemma pass_noevent prefix : forall todo done used m out m' ev',
  (forall p, In p todo -> is_res p = false) ->
  (forall c p, In c done -> In p todo -> Rm m c p) -> pairs_ok m todo -> used_ok done used ->
  pass_loop prefix todo done used m false = Ok (out, m', ev') -> ev' = false.
Proof.
  induction todo as [|p todo IH]; intros done used m out m' ev' Hres Hcross Hpairs Hused H; cbn [pass_loop] in H.
  - now injection H as _ _ <-.
  - assert (Er: reserved_param (p_py p) = false) by (apply (Hres p); now left).
    rewrite Er in H. destruct Hpairs as [Hp Hpairs].
    destruct (dict_pop (p_py p) used) as [[j|] used'] eqn:Ep.
    + apply dict_pop_Some in Ep. destruct (Hused _ _ Ep) as [c [Hc Hpy]]. rewrite Hc in H.
      assert (Hm: marked m c \/ marked m p).
      { apply Hcross; [eapply nth_error_In; exact Hc | now left | exact Hpy]. }
      unfold marked, param_key in Hm.
      destruct Hm as [Hm|Hm]; rewrite Hm in H; [discriminate|]. rewrite orb_true_r in H. discriminate.
    + apply IH in H; [exact H| | | exact Hpairs |].
      * intros q Hq. apply Hres. now right.
      * intros c q Hc Hq. apply in_app_or in Hc as [Hc|[<-|[]]].
        -- apply Hcross; [exact Hc | now right].
        -- now apply Hp.
      * intros k j Hin. apply dict_set_In in Hin as [[-> ->]|Hin].
        -- exists p. split; [|reflexivity]. rewrite nth_error_app2 by lia. now rewrite Nat.sub_diag.
        -- destruct (Hused _ _ Hin) as [c [Hc Hpy]]. exists c. split; [|exact Hpy].
           rewrite nth_error_app1; [exact Hc|]. apply nth_error_Some. congruence.
Qed.

Lemma pkey_eqb_eq a b : pkey_eqb a b = true <-> a = b.
Proof.
  destruct a as [la na], b as [lb nb]. unfold pkey_eqb. cbn [fst snd]. rewrite andb_true_iff, str_eqb_eq. split.
  - intros [Hl ->]. destruct la, lb; try discriminate; reflexivity.
  - intros [= -> ->]. split; [destruct lb|]; reflexivity.
Qed.

Lemma mem_key_In k m : mem_key k m = true <-> In k m.
Proof.
  unfold mem_key. rewrite existsb_exists. split.
  - intros [x [Hx He]]. apply pkey_eqb_eq in He. now subst.
  - intro H. exists k. split; [exact H|]. now apply pkey_eqb_eq.
Qed.

Transparent python_identifier.
(* client_<location>, url_<location> come out of PythonIdentifier unchanged, for every prefix, and are not reserved *)
Lemma suffixed_not_reserved prefix s l :
  reserved_param s = true -> reserved_param (python_identifier (s ++ [95] ++ loc_str l) prefix false) = false.
Proof.
  intro H. unfold reserved_param in H. apply orb_true_iff in H as [H|H]; apply str_eqb_eq in H; subst s;
    destruct l; (rewrite pi_noprefix; [vm_compute; reflexivity | vm_compute; reflexivity]).
Qed.
Opaque python_identifier.

Lemma fix_not_reserved prefix p : is_res (param_fix prefix p) = false.
Proof.
  unfold param_fix. destruct (reserved_param (p_py p)) eqn:E; [|exact E].
  unfold is_res, param_suffix, set_py. cbn [p_py]. now apply suffixed_not_reserved.
Qed.

Lemma fix_key prefix p : param_key (param_fix prefix p) = param_key p.
Proof. unfold param_fix. destruct (reserved_param (p_py p)); reflexivity. Qed.

Lemma pairs_ok_fix prefix m : forall l,
  NoDup (map p_py l) -> (forall q, In q l -> is_res q = true -> In (param_key q) m) ->
  pairs_ok m (map (param_fix prefix) l).
Proof.
  induction l as [|x l IH]; intros Hnd Hm; cbn [map pairs_ok]; [exact I|].
  cbn [map] in Hnd. inversion Hnd as [|? ? Hx Hnd']; subst. split.
  - intros y' Hy'. apply in_map_iff in Hy' as [y [<- Hy]]. intro Epy.
    destruct (is_res x) eqn:Ex.
    + left. unfold marked. rewrite fix_key. apply mem_key_In. apply Hm; [now left | exact Ex].
    + destruct (is_res y) eqn:Ey.
      * right. unfold marked. rewrite fix_key. apply mem_key_In. apply Hm; [now right | exact Ey].
      * exfalso. rewrite (param_fix_plain _ _ Ex), (param_fix_plain _ _ Ey) in Epy. apply Hx. rewrite Epy. now apply in_map.
  - apply IH; [exact Hnd'|]. intros q Hq. apply Hm. now right.
Qed.

Lemma filter_nil_existsb {A} (f : A -> bool) : forall l, filter f l = [] -> existsb f l = false.
Proof.
  induction l as [|x l IH]; cbn [filter existsb]; [reflexivity|].
  destruct (f x); [discriminate|]. exact IH.
Qed.

(* params_distinct: if the python names of all parameters are pairwise distinct to begin with (g_params_plain: no raw-name
   fallback and no location twin), then success of the check means: exactly the reserved names client / url were renamed
   (to client_<location> / url_<location>), and the resulting names are pairwise distinct and none is client or url. *)
Theorem params_distinct prefix ps out :
  g_params_plain ps = true -> check_params prefix ps = Ok out ->
  out = map (param_fix prefix) ps /\ NoDup (map p_py out) /\ forall p, In p out -> reserved_param (p_py p) = false.
Proof.
  intros G H. apply nodupb_NoDup in G.
  destruct (pass1_plain prefix ps [] [] [] false) as [m1 [u1 [E1 [Hm1 _]]]]; [exact G | intros k [] |].
  cbn [app map orb] in E1.
  assert (I0: quiet_inv [] []) by (split; [constructor | split; intros ? []]).
  unfold check_params, check_params_ev in H. rewrite E1 in H.
  destruct m1 as [|k0 m1]; cbn [is_nil] in H.
  - injection H as <-.
    assert (Ee: existsb is_res ps = false).
    { apply filter_nil_existsb. destruct (filter is_res ps) as [|q r] eqn:Ef; [reflexivity|].
      exfalso. apply (proj2 (Hm1 (param_key q))). left. now left. }
    rewrite Ee in E1. destruct (pass_quiet _ _ _ _ _ _ _ I0 E1) as [_ [_ Hq]]. split; [reflexivity|exact Hq].
  - destruct (pass_loop prefix (map (param_fix prefix) ps) [] [] (k0 :: m1) false) as [[[ps2 m2] ev2]|] eqn:E2; [|discriminate].
    injection H as <-.
    assert (Hev: ev2 = false).
    { apply (pass_noevent _ _ _ _ _ _ _ _) with (5 := E2).
      - intros p Hp. apply in_map_iff in Hp as [q [<- _]]. apply fix_not_reserved.
      - intros c p [].
      - apply pairs_ok_fix; [exact G|]. intros q Hq Hr. apply Hm1. left. apply in_map. apply filter_In. now split.
      - intros k j []. }
    subst ev2. destruct (pass_quiet _ _ _ _ _ _ _ I0 E2) as [Ho [_ Hq]]. cbn [app] in Ho. split; [exact Ho|exact Hq].
Qed.

(* --- model_params: iteration order path, query, header, cookie is a rearrangement --- *)
Lemma NoDup_map_inj_on {A B} (f : A -> B) : forall l y z, NoDup (map f l) -> In y l -> In z l -> f y = f z -> y = z.
Proof.
  induction l as [|x l IH]; intros y z Hnd Hy Hz E; [destruct Hy|].
  cbn [map] in Hnd. inversion Hnd as [|? ? Hx Hnd']; subst.
  destruct Hy as [<-|Hy], Hz as [<-|Hz]; auto.
  - exfalso. apply Hx. rewrite E. now apply in_map.
  - exfalso. apply Hx. rewrite <- E. now apply in_map.
Qed.

Lemma NoDup_map_filter {A B} (f : A -> B) (P : A -> bool) : forall l, NoDup (map f l) -> NoDup (map f (filter P l)).
Proof.
  induction l as [|x l IH]; intro Hnd; cbn [filter map]; [constructor|].
  cbn [map] in Hnd. inversion Hnd as [|? ? Hx Hnd']; subst.
  destruct (P x); cbn [map]; [|now apply IH]. constructor; [|now apply IH].
  intro Hin. apply Hx. apply in_map_iff in Hin as [y [<- Hy]]. apply in_map. apply filter_In in Hy. tauto.
Qed.

Lemma NoDup_app_intro {A} (a b : list A) : NoDup a -> NoDup b -> (forall x, In x a -> In x b -> False) -> NoDup (a ++ b).
Proof.
  induction a as [|x a IH]; intros Ha Hb Hd; cbn [app]; [exact Hb|].
  inversion Ha; subst. constructor.
  - intro Hin. apply in_app_or in Hin as [Hin|Hin]; [contradiction|]. apply (Hd x); [now left|exact Hin].
  - apply IH; auto. intros y Hy. apply Hd. now right.
Qed.

Lemma order_params_NoDup ps : NoDup (map p_py ps) -> NoDup (map p_py (order_params ps)).
Proof.
  intro Hnd. unfold order_params. rewrite !map_app.
  assert (Hdis: forall l1 l2 x, loc_eqb l1 l2 = false ->
            In x (map p_py (filter (in_loc l1) ps)) -> In x (map p_py (filter (in_loc l2) ps)) -> False).
  { intros l1 l2 x Hl H1 H2. apply in_map_iff in H1 as [y [Ey Hy]]. apply in_map_iff in H2 as [z [Ez Hz]].
    apply filter_In in Hy as [Hy Py]. apply filter_In in Hz as [Hz Pz].
    assert (y = z) by (apply (NoDup_map_inj_on p_py ps); congruence). subst z.
    unfold in_loc in Py, Pz. destruct (p_loc y), l1, l2; discriminate. }
  repeat apply NoDup_app_intro; try (apply NoDup_map_filter; exact Hnd);
    intros x H1 H2; repeat (apply in_app_or in H2 as [H2|H2]); (eapply Hdis; [ | exact H1 | exact H2]; reflexivity).
Qed.

Lemma order_params_In ps p : In p (order_params ps) <-> In p ps.
Proof.
  unfold order_params. rewrite !in_app_iff, !filter_In. unfold in_loc. split; [tauto|].
  intro H. destruct (p_loc p); cbn [loc_eqb]; tauto.
Qed.

(* the statement for an operation's parameter list as written in the document *)
Theorem model_params_distinct prefix raw out :
  g_no_raw_fallback prefix (map snd raw) = true ->
  model_params prefix raw = Ok out ->
  NoDup (map p_py out) /\ (forall p, In p out -> reserved_param (p_py p) = false) /\
  (forall p, In p out -> In (p_loc p, p_name p) raw /\
     p_py p = if reserved_param (py_default prefix (p_name p))
              then python_identifier (py_default prefix (p_name p) ++ [95] ++ loc_str (p_loc p)) prefix false
              else python_identifier (p_name p) prefix false) /\
  length out = length raw.
Proof.
  intros G H. unfold model_params in H. set (ps := map (param_init prefix) raw) in *.
  assert (Gp: g_params_plain (order_params ps) = true).
  { apply nodupb_NoDup. apply order_params_NoDup. apply nodupb_NoDup in G.
    unfold ps. rewrite map_map. rewrite map_map in G. exact G. }
  destruct (params_distinct prefix _ _ Gp H) as [Ho [Hnd Hres]].
  split; [exact Hnd|]. split; [exact Hres|]. split.
  - intros p Hp. rewrite Ho in Hp. apply in_map_iff in Hp as [q [<- Hq]]. apply (proj1 (order_params_In _ _)) in Hq.
    unfold ps in Hq. apply in_map_iff in Hq as [[l n] [<- Hx]]. unfold param_fix, param_init. cbn [fst snd p_py p_loc p_name].
    destruct (reserved_param (py_default prefix n)) eqn:Er; cbn [param_suffix set_py p_loc p_name p_py]; rewrite Er; split; auto.
  - rewrite Ho, map_length. unfold order_params. rewrite !app_length.
    assert (Hlen: forall l : list param, (length (filter (in_loc LPath) l) + (length (filter (in_loc LQuery) l) + (length (filter (in_loc LHeader) l) + length (filter (in_loc LCookie) l))) = length l)%nat).
    { induction l as [|[lx nx px] l IH]; [reflexivity|]. destruct lx; cbn; lia. }
    rewrite Hlen. unfold ps. apply map_length.
Qed.

Transparent python_identifier.
(* param_rename_unchecked: path x_header_path, path x_header, query X, header x.  First run: X/x collide -> x_query, x_header (only the
   pair (header, X) and (query, X) is marked: the header parameter x is NOT).  Second (last) run: x_header now collides with the path
   parameter x_header -> x_header_path / x_header_header, never compared with the first parameter: two parameters are called x_header_path *)
Theorem params_distinct_refuted :
  exists raw out, NoDup raw /\ model_params [102;105;101;108;100;95] raw = Ok out /\
    g_last_pass_quiet [102;105;101;108;100;95] (order_params (map (param_init [102;105;101;108;100;95]) raw)) = false /\
    ~ NoDup (map p_py out).
Proof.
  exists [(LPath, [120;95;104;101;97;100;101;114;95;112;97;116;104]); (LPath, [120;95;104;101;97;100;101;114]); (LQuery, [88]); (LHeader, [120])].
  eexists. split; [|split; [vm_compute; reflexivity | split; [vm_compute; reflexivity|]]].
  - repeat constructor; cbn [In]; intuition discriminate.
  - intro H. apply nodupb_NoDup in H. vm_compute in H. discriminate.
Qed.

(* non-vacuity: the reserved names are renamed, location twins get suffixes, and the guards hold *)
Example params_distinct_nonvacuous :
  param_pys (model_params [102;105;101;108;100;95] [(LQuery, s_client); (LPath, s_url); (LHeader, [105;100])]) =
    Ok [s_url ++ [95;112;97;116;104]; s_client ++ [95;113;117;101;114;121]; [105;100]] /\
  g_no_raw_fallback [102;105;101;108;100;95] [s_client; s_url; [105;100]] = true /\
  param_pys (model_params [102;105;101;108;100;95] [(LQuery, [105;100]); (LPath, [105;100])]) =
    Ok [[105;100;95;112;97;116;104]; [105;100;95;113;117;101;114;121]] /\
  g_last_pass_quiet [102;105;101;108;100;95] (order_params (map (param_init [102;105;101;108;100;95]) [(LQuery, [105;100]); (LPath, [105;100])])) = true.
Proof. vm_compute. repeat split; reflexivity. Qed.
Opaque python_identifier.

(* ================= (d) classes and modules ================= *)
Theorem add_class_fresh prefix cs n cs' :
  add_class prefix cs n = Ok cs' -> ~ In (class_of prefix n) cs /\ cs' = cs ++ [class_of prefix n].
Proof.
  unfold add_class. destruct (mem_str (class_of prefix n) cs) eqn:E; [discriminate|].
  intros [= <-]. split; [now apply mem_str_false|reflexivity].
Qed.

Lemma add_classes_inv prefix : forall names cs errs cs' errs',
  add_classes prefix cs errs names = (cs', errs') ->
  (NoDup cs -> NoDup cs') /\ (forall c, In c cs -> In c cs') /\ (forall n, In n errs -> In n errs') /\
  (forall n, In n names -> In (class_of prefix n) cs') /\
  (forall n, In n errs' -> In n errs \/ In n names) /\
  (forall c, In c cs' -> In c cs \/ exists n, In n names /\ c = class_of prefix n) /\
  (length cs' + length errs' = length cs + length errs + length names)%nat.
Proof.
  induction names as [|n names IH]; intros cs errs cs' errs' H; cbn [add_classes] in H.
  - injection H as <- <-. split; [auto|]. split; [auto|]. split; [auto|]. split; [intros n []|]. split; [auto|]. split; [auto|].
    cbn [length]. lia.
  - unfold add_class in H. destruct (mem_str (class_of prefix n) cs) eqn:E.
    + apply IH in H as [H1 [H2 [H3 [H4 [H5 [H6 H7]]]]]]. apply mem_str_In in E.
      split; [exact H1|]. split; [exact H2|]. split; [intros x Hx; apply H3, in_or_app; now left|].
      split; [intros x [<-|Hx]; auto|].
      split; [intros x Hx; apply H5 in Hx as [Hx|Hx]; [apply in_app_or in Hx as [Hx|[<-|[]]]; [now left | right; now left] | right; now right]|].
      split; [intros c Hc; apply H6 in Hc as [Hc|[x [Hx ->]]]; [now left | right; exists x; split; [now right|reflexivity]]|].
      rewrite app_length in H7. cbn [length] in *. lia.
    + apply IH in H as [H1 [H2 [H3 [H4 [H5 [H6 H7]]]]]]. apply mem_str_false in E.
      split; [intro Hnd; apply H1; now apply NoDup_snoc|].
      split; [intros c Hc; apply H2, in_or_app; now left|]. split; [exact H3|].
      split; [intros x [<-|Hx]; [apply H2, in_or_app; right; now left | now apply H4]|].
      split; [intros x Hx; apply H5 in Hx as [Hx|Hx]; [now left | right; now right]|].
      split; [intros c Hc; apply H6 in Hc as [Hc|[x [Hx ->]]];
              [apply in_app_or in Hc as [Hc|[<-|[]]]; [now left | right; exists n; split; [now left|reflexivity]] | right; exists x; split; [now right|reflexivity]]|].
      rewrite app_length in H7. cbn [length] in *. lia.
Qed.

Lemma add_classes_dup_reported prefix n : forall names cs errs cs' errs',
  In (class_of prefix n) cs -> add_classes prefix cs errs (n :: names) = (cs', errs') -> In n errs'.
Proof.
  intros names cs errs cs' errs' Hin H. cbn [add_classes] in H. unfold add_class in H.
  apply mem_str_In in Hin. rewrite Hin in H. apply add_classes_inv in H as [_ [_ [H3 _]]]. apply H3, in_or_app. right. now left.
Qed.

Lemma add_classes_app prefix : forall a b cs errs,
  add_classes prefix cs errs (a ++ b) = let r := add_classes prefix cs errs a in add_classes prefix (fst r) (snd r) b.
Proof.
  induction a as [|n a IH]; intros b cs errs; cbn [app add_classes]; [reflexivity|].
  destruct (add_class prefix cs n); apply IH.
Qed.

(* classes_distinct_or_error: the generated class names are pairwise distinct; every schema is either generated under its derived
   class name or reported; and of two schemas with the same derived ClassName the later one is always reported *)
Theorem classes_distinct_or_error prefix names cs errs :
  model_classes prefix names = (cs, errs) ->
  NoDup cs /\
  (forall n, In n names -> In (class_of prefix n) cs) /\
  (forall c, In c cs -> exists n, In n names /\ c = class_of prefix n) /\
  (forall n, In n errs -> In n names) /\
  (length cs + length errs = length names)%nat /\
  (forall l1 n1 l2 n2 l3, names = l1 ++ n1 :: l2 ++ n2 :: l3 -> class_of prefix n1 = class_of prefix n2 -> In n2 errs).
Proof.
  unfold model_classes. intro H. pose proof (add_classes_inv _ _ _ _ _ _ H) as [H1 [_ [_ [H4 [H5 [H6 H7]]]]]].
  split; [apply H1; constructor|]. split; [exact H4|].
  split; [intros c Hc; apply H6 in Hc as [[]|Hc]; exact Hc|].
  split; [intros n Hn; apply H5 in Hn as [[]|Hn]; exact Hn|]. split; [cbn [length] in H7; lia|].
  intros l1 n1 l2 n2 l3 -> Ec.
  replace (l1 ++ n1 :: l2 ++ n2 :: l3) with ((l1 ++ n1 :: l2) ++ n2 :: l3) in H by (now rewrite <- app_assoc).
  rewrite add_classes_app in H. cbv zeta in H.
  destruct (add_classes prefix [] [] (l1 ++ n1 :: l2)) as [cs1 e1] eqn:E1. cbn [fst snd] in H.
  apply (add_classes_dup_reported _ _ _ _ _ _ _) with (2 := H).
  apply add_classes_inv in E1 as [_ [_ [_ [G4 _]]]]. rewrite <- Ec. apply G4. apply in_or_app. right. now left.
Qed.

Transparent python_identifier class_name.
(* module names are NOT checked: schemas AB and Ab give the distinct classes AB and Ab, no error, and ONE module file ab.py
   (known finding module_collision_order) *)
Theorem modules_unchecked_refuted :
  exists names cs, model_classes [102;105;101;108;100;95] names = (cs, []) /\ NoDup cs /\ length cs = length names /\
    ~ NoDup (map (module_of [102;105;101;108;100;95]) cs).
Proof.
  exists [[65;66]; [65;98]]. eexists. split; [vm_compute; reflexivity|]. split; [|split; [reflexivity|]].
  - apply nodupb_NoDup. vm_compute. reflexivity.
  - intro H. apply nodupb_NoDup in H. vm_compute in H. discriminate.
Qed.

Example classes_dup_reported_nonvacuous :
  model_classes [102;105;101;108;100;95] [[97;32;98]; [97;95;98]; [99]] = ([[65;66]; [67]], [[97;95;98]]).
Proof. vm_compute. reflexivity. Qed.
Opaque python_identifier class_name.

Print Assumptions attrs_distinct.
Print Assumptions attrs_last_pair_distinct.
Print Assumptions conflict_check_terminates.
Print Assumptions params_distinct_quiet.
Print Assumptions params_distinct.
Print Assumptions model_params_distinct.
Print Assumptions classes_distinct_or_error.

(* ================= (d') the class-name scope with enums ================= *)
Lemma evalue_eqb_eq a b : evalue_eqb a b = true -> a = b.
Proof.
  destruct a, b; cbn [evalue_eqb]; intro H; try discriminate.
  - apply Z.eqb_eq in H. now subst.
  - apply str_eqb_eq in H. now subst.
Qed.

Lemma elookup_Some_In k v : forall m, elookup k m = Some v -> In (k, v) m.
Proof.
  induction m as [|[k' v'] m IH]; cbn [elookup]; [discriminate|].
  destruct (str_eqb k' k) eqn:E; [intros [= <-]; apply str_eqb_eq in E; subst; now left | intro H; right; auto].
Qed.

Lemma elookup_None k : forall m, elookup k m = None <-> ~ In k (map fst m).
Proof.
  induction m as [|[k' v'] m IH]; cbn [elookup map fst In]; [tauto|].
  destruct (str_eqb k' k) eqn:E.
  - apply str_eqb_eq in E. subst. split; [discriminate | intro H; exfalso; apply H; now left].
  - apply str_eqb_neq in E. rewrite IH. tauto.
Qed.

Lemma elookup_In_nodup k v : forall m, NoDup (map fst m) -> In (k, v) m -> elookup k m = Some v.
Proof.
  induction m as [|[k' v'] m IH]; intros Hnd Hin; [destruct Hin|]. cbn [map fst] in Hnd. inversion Hnd as [|? ? Hx Hnd']; subst.
  cbn [elookup]. destruct Hin as [[= -> ->]|Hin].
  - now rewrite str_eqb_refl.
  - destruct (str_eqb k' k) eqn:E; [|now apply IH].
    apply str_eqb_eq in E. subst. exfalso. apply Hx. apply in_map_iff. exists (k, v). split; [reflexivity|exact Hin].
Qed.

Lemma table_eqb_equiv a b : NoDup (map fst a) -> NoDup (map fst b) -> table_eqb a b = true -> tbl_equiv a b.
Proof.
  intros Ha Hb H. unfold table_eqb in H. apply andb_true_iff in H as [Hl Hf]. apply Nat.eqb_eq in Hl.
  rewrite forallb_forall in Hf.
  assert (Hkeys: forall k v, In (k, v) a -> elookup k b = Some v).
  { intros k v Hin. specialize (Hf _ Hin). cbn [fst snd] in Hf. destruct (elookup k b) as [v'|]; [|discriminate].
    apply evalue_eqb_eq in Hf. now subst. }
  assert (Hincl: incl (map fst b) (map fst a)).
  { apply NoDup_length_incl; [exact Ha | rewrite !map_length; lia |].
    intros k Hk. apply in_map_iff in Hk as [[k' v] [<- Hin]]. cbn [fst].
    apply Hkeys in Hin. apply elookup_Some_In in Hin. apply in_map_iff. exists (k', v). now split. }
  intro k. destruct (elookup k a) as [v|] eqn:Ea.
  - apply elookup_Some_In in Ea. symmetry. now apply Hkeys.
  - symmetry. apply elookup_None. intro Hk. apply Hincl in Hk. apply elookup_None in Ea. contradiction.
Qed.

Lemma clookup_None c : forall tab, clookup c tab = None <-> ~ In c (map fst tab).
Proof.
  induction tab as [|[c' e] tab IH]; cbn [clookup map fst In]; [tauto|].
  destruct (str_eqb c' c) eqn:E.
  - apply str_eqb_eq in E. subst. split; [discriminate | intro H; exfalso; apply H; now left].
  - apply str_eqb_neq in E. rewrite IH. tauto.
Qed.

Lemma clookup_In_nodup c e : forall tab, NoDup (map fst tab) -> In (c, e) tab -> clookup c tab = Some e.
Proof.
  induction tab as [|[c' e'] tab IH]; intros Hnd Hin; [destruct Hin|]. cbn [map fst] in Hnd. inversion Hnd as [|? ? Hx Hnd']; subst.
  cbn [clookup]. destruct Hin as [[= -> ->]|Hin].
  - now rewrite str_eqb_refl.
  - destruct (str_eqb c' c) eqn:E; [|now apply IH].
    apply str_eqb_eq in E. subst. exfalso. apply Hx. apply in_map_iff. exists (c, e). split; [reflexivity|exact Hin].
Qed.

Lemma clookup_snoc c c0 e0 : forall tab,
  clookup c (tab ++ [(c0, e0)]) = match clookup c tab with Some x => Some x | None => if str_eqb c0 c then Some e0 else None end.
Proof.
  induction tab as [|[c' e'] tab IH]; cbn [app clookup]; [reflexivity|].
  destruct (str_eqb c' c); [reflexivity|exact IH].
Qed.

Lemma creplace_keys c e : forall tab, map fst (creplace c e tab) = map fst tab.
Proof.
  induction tab as [|[c' e'] tab IH]; cbn [creplace map fst]; [reflexivity|].
  destruct (str_eqb c' c); cbn [map fst]; [reflexivity | now rewrite IH].
Qed.

Lemma clookup_creplace c e c1 : forall tab,
  clookup c1 (creplace c e tab) = match clookup c1 tab with Some x => if str_eqb c c1 then Some e else Some x | None => None end.
Proof.
  induction tab as [|[c' e'] tab IH]; cbn [creplace clookup]; [reflexivity|].
  destruct (str_eqb c' c) eqn:E; cbn [clookup].
  - apply str_eqb_eq in E. subst c'. destruct (str_eqb c c1) eqn:E1; [reflexivity|].
    destruct (clookup c1 tab); reflexivity.
  - destruct (str_eqb c' c1) eqn:E1; [|exact IH].
    destruct (str_eqb c c1) eqn:E2; [|reflexivity].
    apply str_eqb_eq in E1, E2. subst. rewrite str_eqb_refl in E. discriminate.
Qed.

Lemma values_from_list_nodup vs t : values_from_list vs = Some t -> NoDup (map fst t).
Proof. intro H. exact (values_from_list_keys_nodup vs t H). Qed.

(* a surviving declaration is represented by the entry under its class name *)
Definition entry_matches (d : cdecl) (e : option centry) : Prop :=
  match decl_table d with
  | Some t1 => exists t', e = Some (CEnum t') /\ tbl_equiv t1 t'
  | None => e = Some CModel
  end.

Definition decls_inv (prefix : str) (tab : list (str * centry)) (errs seen : list cdecl) : Prop :=
  NoDup (map fst tab) /\
  (forall c t, clookup c tab = Some (CEnum t) -> exists d, In d seen /\ decl_class prefix d = c /\ decl_table d = Some t) /\
  (forall d, In d seen -> ~ In d errs -> entry_matches d (clookup (decl_class prefix d) tab)) /\
  (forall d, In d errs -> In d seen) /\
  (forall p n vs, In (DEnum p n vs) seen -> values_from_list vs <> None).

Lemma tbl_equiv_refl a : tbl_equiv a a.
Proof. intro k. reflexivity. Qed.
Lemma tbl_equiv_trans a b c : tbl_equiv a b -> tbl_equiv b c -> tbl_equiv a c.
Proof. intros H1 H2 k. now rewrite H1. Qed.
Lemma tbl_equiv_sym a b : tbl_equiv a b -> tbl_equiv b a.
Proof. intros H k. now rewrite H. Qed.

Lemma add_decls_inv prefix : forall ds tab errs seen tab' errs',
  decls_inv prefix tab errs seen ->
  add_decls prefix tab errs ds = Some (tab', errs') ->
  decls_inv prefix tab' errs' (seen ++ ds).
Proof.
  induction ds as [|d ds IH]; intros tab errs seen tab' errs' Inv H; cbn [add_decls] in H.
  - injection H as <- <-. now rewrite app_nil_r.
  - destruct (add_decl prefix tab d) as [[tab1|]|] eqn:Ed; [| |discriminate];
      (replace (seen ++ d :: ds) with ((seen ++ [d]) ++ ds) by (now rewrite <- app_assoc));
      apply (IH _ _ _ _ _) with (2 := H); clear IH H;
      destruct Inv as [I1 [I2 [I3 [I4 I5]]]].
    + (* accepted *)
      unfold add_decl in Ed. set (c := decl_class prefix d) in *.
      assert (Hold: forall x, In x seen -> ~ In x errs -> clookup (decl_class prefix x) tab <> None).
      { intros x Hx Hnx Hn. specialize (I3 x Hx Hnx). rewrite Hn in I3. unfold entry_matches in I3.
        destruct (decl_table x) eqn:Et; [destruct I3 as [? [? _]]; discriminate|discriminate]. }
      assert (I5': forall p0 n0 vs0, In (DEnum p0 n0 vs0) (seen ++ [d]) -> values_from_list vs0 <> None).
      { intros p0 n0 vs0 Hin. apply in_app_or in Hin as [Hin|[Hd|[]]]; [now apply (I5 p0 n0)|]. subst d.
        cbn beta iota in Ed. destruct (values_from_list vs0); [discriminate|discriminate]. }
      destruct d as [n|p n vs].
      * (* model *)
        destruct (clookup c tab) eqn:Ec; [discriminate|]. injection Ed as <-.
        split; [|split; [|split; [|split; [|exact I5']]]].
        -- rewrite map_app. cbn [map fst]. apply NoDup_snoc; [exact I1|]. now apply clookup_None.
        -- intros c1 t Hl. rewrite clookup_snoc in Hl. destruct (clookup c1 tab) eqn:E1.
           ++ injection Hl as ->. destruct (I2 _ _ E1) as [x [Hx Hy]]. exists x. split; [apply in_or_app; now left|exact Hy].
           ++ destruct (str_eqb c c1); discriminate.
        -- intros x Hx Hnx. apply in_app_or in Hx as [Hx|[<-|[]]].
           ++ rewrite clookup_snoc. specialize (I3 x Hx Hnx). destruct (clookup (decl_class prefix x) tab) eqn:E1; [exact I3|].
              exfalso. now apply (Hold x Hx Hnx).
           ++ rewrite clookup_snoc. fold c. rewrite Ec, str_eqb_refl. reflexivity.
        -- intros x Hx. apply in_or_app. left. now apply I4.
      * (* enum *)
        destruct (values_from_list vs) as [t|] eqn:Ev; [|discriminate].
        destruct (clookup c tab) as [[|t']|] eqn:Ec.
        -- discriminate.
        -- destruct (table_eqb t t') eqn:Eq; [|discriminate]. injection Ed as <-.
           assert (Heq: tbl_equiv t t').
           { apply table_eqb_equiv; [now apply (values_from_list_nodup vs) | | exact Eq].
             destruct (I2 _ _ Ec) as [x [_ [_ Hx]]]. destruct x; [discriminate|]. cbn [decl_table] in Hx. now apply values_from_list_nodup in Hx. }
           split; [|split; [|split; [|split; [|exact I5']]]].
           ++ now rewrite creplace_keys.
           ++ intros c1 t1 Hl. rewrite clookup_creplace in Hl. destruct (clookup c1 tab) eqn:E1; [|discriminate].
              destruct (str_eqb c c1) eqn:E2.
              ** injection Hl as <-. apply str_eqb_eq in E2. exists (DEnum p n vs). split; [apply in_or_app; right; now left|]. split; [now rewrite <- E2|exact Ev].
              ** injection Hl as ->. destruct (I2 _ _ E1) as [x [Hx Hy]]. exists x. split; [apply in_or_app; now left|exact Hy].
           ++ intros x Hx Hnx. rewrite clookup_creplace. apply in_app_or in Hx as [Hx|[<-|[]]].
              ** specialize (I3 x Hx Hnx). destruct (clookup (decl_class prefix x) tab) eqn:E1; [|exact I3].
                 destruct (str_eqb c (decl_class prefix x)) eqn:E2; [|exact I3].
                 apply str_eqb_eq in E2. rewrite <- E2, Ec in E1. injection E1 as <-.
                 unfold entry_matches in *. destruct (decl_table x) as [t1|].
                 --- destruct I3 as [t2 [[= <-] He]]. exists t. split; [reflexivity|]. eapply tbl_equiv_trans; [exact He|]. now apply tbl_equiv_sym.
                 --- discriminate.
              ** fold c. rewrite Ec, str_eqb_refl. unfold entry_matches. cbn [decl_table]. rewrite Ev. exists t. split; [reflexivity|apply tbl_equiv_refl].
           ++ intros x Hx. apply in_or_app. left. now apply I4.
        -- injection Ed as <-.
           split; [|split; [|split; [|split; [|exact I5']]]].
           ++ rewrite map_app. cbn [map fst]. apply NoDup_snoc; [exact I1|]. now apply clookup_None.
           ++ intros c1 t1 Hl. rewrite clookup_snoc in Hl. destruct (clookup c1 tab) eqn:E1.
              ** injection Hl as ->. destruct (I2 _ _ E1) as [x [Hx Hy]]. exists x. split; [apply in_or_app; now left|exact Hy].
              ** destruct (str_eqb c c1) eqn:E2; [|discriminate]. injection Hl as <-. apply str_eqb_eq in E2.
                 exists (DEnum p n vs). split; [apply in_or_app; right; now left|]. split; [now rewrite <- E2|exact Ev].
           ++ intros x Hx Hnx. apply in_app_or in Hx as [Hx|[<-|[]]].
              ** rewrite clookup_snoc. specialize (I3 x Hx Hnx). destruct (clookup (decl_class prefix x) tab) eqn:E1; [exact I3|].
                 exfalso. now apply (Hold x Hx Hnx).
              ** rewrite clookup_snoc. fold c. rewrite Ec, str_eqb_refl. unfold entry_matches. cbn [decl_table]. rewrite Ev.
                 exists t. split; [reflexivity|apply tbl_equiv_refl].
           ++ intros x Hx. apply in_or_app. left. now apply I4.
    + (* reported *)
      split; [exact I1|]. split; [|split; [|split]].
      * intros c t Hl. destruct (I2 _ _ Hl) as [x [Hx Hy]]. exists x. split; [apply in_or_app; now left|exact Hy].
      * intros x Hx Hnx. apply in_app_or in Hx as [Hx|[<-|[]]].
        -- apply I3; [exact Hx|]. intro Hin. apply Hnx. apply in_or_app. now left.
        -- exfalso. apply Hnx. apply in_or_app. right. now left.
      * intros x Hx. apply in_app_or in Hx as [Hx|[<-|[]]]; apply in_or_app; [left; now apply I4 | right; now left].
      * intros p0 n0 vs0 Hin. apply in_app_or in Hin as [Hin|[Hd|[]]]; [now apply (I5 p0 n0)|]. subst d.
        unfold add_decl in Ed. destruct (values_from_list vs0); [discriminate|discriminate].
Qed.

(* enum_classes_distinct_or_shared: over any list of class-minting declarations (object schemas and enums, in processing order), if the
   generator does not crash: class names are pairwise distinct; the member table of every generated enum class is exactly the table of
   one declared value list of that class name; every declaration is reported or represented; two unreported enums with one class name
   have the same member names with the same values (they share the class); an enum and a model with one class name are never both kept *)
Theorem enum_classes_distinct_or_shared prefix ds tab errs :
  model_decls prefix ds = Some (tab, errs) ->
  NoDup (map fst tab) /\
  (forall c t, In (c, CEnum t) tab ->
     exists p n vs, In (DEnum p n vs) ds /\ decl_class prefix (DEnum p n vs) = c /\ values_from_list vs = Some t) /\
  (forall d, In d ds -> In d errs \/ exists e, clookup (decl_class prefix d) tab = Some e) /\
  (forall d1 d2 t1 t2, In d1 ds -> In d2 ds -> decl_class prefix d1 = decl_class prefix d2 ->
     decl_table d1 = Some t1 -> decl_table d2 = Some t2 -> ~ In d1 errs -> ~ In d2 errs -> tbl_equiv t1 t2) /\
  (forall n d2 t2, In (DModel n) ds -> In d2 ds -> decl_class prefix (DModel n) = decl_class prefix d2 ->
     decl_table d2 = Some t2 -> In (DModel n) errs \/ In d2 errs) /\
  (forall d, In d errs -> In d ds).
Proof.
  unfold model_decls. intro H.
  assert (I0: decls_inv prefix [] [] []).
  { split; [constructor|]. split; [intros c t Hl; discriminate|]. split; [intros d []|]. split; [intros d []|intros ? ? ? []]. }
  pose proof (add_decls_inv _ _ _ _ _ _ _ I0 H) as [I1 [I2 [I3 [I4 I5]]]]. cbn [app] in *.
  assert (Hdec: forall d : cdecl, In d errs \/ ~ In d errs).
  { intro d. destruct (in_dec (fun a b : cdecl => ltac:(decide equality; try apply (list_eq_dec N.eq_dec); try apply (list_eq_dec (list_eq_dec N.eq_dec));
      try (apply list_eq_dec; decide equality; try apply Z.eq_dec; apply (list_eq_dec N.eq_dec)))) d errs); auto. }
  split; [exact I1|]. split; [|split; [|split; [|split]]].
  - intros c t Hin. apply (clookup_In_nodup _ _ _ I1) in Hin. destruct (I2 _ _ Hin) as [d [Hd [Hc Ht]]].
    destruct d as [|p n vs]; [discriminate|]. exists p, n, vs. auto.
  - intros d Hd. destruct (Hdec d) as [He|He]; [now left|right]. specialize (I3 d Hd He). unfold entry_matches in I3.
    destruct (decl_table d) eqn:Et.
    + destruct I3 as [t' [-> _]]. eauto.
    + eauto.
  - intros d1 d2 t1 t2 H1 H2 Ec E1 E2 N1 N2. pose proof (I3 d1 H1 N1) as M1. pose proof (I3 d2 H2 N2) as M2.
    unfold entry_matches in M1, M2. rewrite E1 in M1. rewrite E2 in M2. rewrite Ec in M1.
    destruct M1 as [ta [Ea Ha]], M2 as [tb [Eb Hb]]. rewrite Ea in Eb. injection Eb as <-.
    eapply tbl_equiv_trans; [exact Ha|]. now apply tbl_equiv_sym.
  - intros n d2 t2 H1 H2 Ec E2. destruct (Hdec (DModel n)) as [He|N1]; [now left|]. destruct (Hdec d2) as [He|N2]; [now right|].
    exfalso. pose proof (I3 _ H1 N1) as M1. pose proof (I3 d2 H2 N2) as M2.
    unfold entry_matches in M1, M2. cbn [decl_table] in M1. rewrite E2 in M2. rewrite Ec in M1. destruct M2 as [tb [Eb _]]. congruence.
  - exact I4.
Qed.

Transparent python_identifier class_name.
(* non-vacuity: FooBar = [on, off] then foo_bar = [ON, OFF] (same member names ON / OFF, different values) -> the second is reported;
   an equal twin is shared; a model of the same class name is reported *)
Example enum_classes_nonvacuous :
  let on := [111;110] in let off := [111;102;102] in let ON := [79;78] in let OFF := [79;70;70] in
  let foobar := [70;111;111;66;97;114] in let foo_bar := [102;111;111;95;98;97;114] in
  model_decls [102;105;101;108;100;95] [DEnum [] foobar [EStr on; EStr off]; DEnum [] foo_bar [EStr ON; EStr OFF];
                                       DEnum [70;111;111] [98;97;114] [EStr off; EStr on]; DModel foo_bar] =
    Some ([(foobar, CEnum [([79;70;70], EStr off); ([79;78], EStr on)])],
          [DEnum [] foo_bar [EStr ON; EStr OFF]; DModel foo_bar]).
Proof. vm_compute. reflexivity. Qed.
Opaque python_identifier class_name.

Print Assumptions enum_classes_distinct_or_shared.

(* ================= (b') operation-level + path-item-level parameter lists ================= *)
(* model_params2_distinct_quiet: whichever of the two lists are present, in whatever proportion the parameters are split between them:
   if no error is returned and the last run of the last executed check was quiet, the python names of ALL parameters of the operation
   are pairwise distinct and none is client / url *)
Theorem model_params2_distinct_quiet prefix op item out :
  model_params2 prefix op item = Ok out -> g_params2_quiet prefix op item = true ->
  NoDup (map p_py out) /\ forall p, In p out -> reserved_param (p_py p) = false.
Proof.
  unfold model_params2, g_params2_quiet. destruct (params_phase1 prefix op) as [ps1|] eqn:E1; [|discriminate].
  destruct item as [it|].
  - intros H G. exact (params_distinct_quiet _ _ _ H G).
  - intros [= <-] G. destruct op as [l|]; cbn [params_phase1] in E1.
    + unfold model_params in E1. exact (params_distinct_quiet _ _ _ E1 G).
    + injection E1 as <-. split; [constructor | intros p []].
Qed.

(* static guard: the python names entering the last check (those the first check left on the operation-level parameters, default names
   for the path-item ones) are pairwise distinct: then only client / url are renamed by it and the result is pairwise distinct *)
Theorem model_params2_distinct prefix op it ps1 out :
  params_phase1 prefix op = Ok ps1 -> g_params_plain (phase2_input prefix ps1 it) = true ->
  model_params2 prefix op (Some it) = Ok out ->
  out = map (param_fix prefix) (phase2_input prefix ps1 it) /\ NoDup (map p_py out) /\
  forall p, In p out -> reserved_param (p_py p) = false.
Proof.
  intros E1 G H. unfold model_params2 in H. rewrite E1 in H. exact (params_distinct _ _ _ G H).
Qed.

(* the parameters of the result are exactly the operation-level ones plus the path-item ones not shadowed by them *)
Theorem model_params2_keys prefix op it ps1 out :
  params_phase1 prefix op = Ok ps1 -> model_params2 prefix op (Some it) = Ok out ->
  map param_key out = map param_key (phase2_input prefix ps1 it).
Proof.
  intros E1 H. unfold model_params2 in H. rewrite E1 in H. exact (check_params_keys _ _ _ H).
Qed.

Transparent python_identifier.
(* non-vacuity: path item [header user_id] + operation [query userId, query limit]: the lone path-item parameter IS compared with the
   operation-level ones (user_id_query, limit, user_id_header); a lone path-item parameter client / url is renamed *)
Example model_params2_nonvacuous :
  let uid := [117;115;101;114;95;105;100] in
  param_pys (model_params2 [102;105;101;108;100;95] (Some [(LQuery, [117;115;101;114;73;100]); (LQuery, [108;105;109;105;116])]) (Some [(LHeader, uid)])) =
    Ok [uid ++ [95;113;117;101;114;121]; [108;105;109;105;116]; uid ++ [95;104;101;97;100;101;114]] /\
  g_params2_quiet [102;105;101;108;100;95] (Some [(LQuery, [117;115;101;114;73;100]); (LQuery, [108;105;109;105;116])]) (Some [(LHeader, uid)]) = true /\
  param_pys (model_params2 [102;105;101;108;100;95] None (Some [(LQuery, s_client)])) = Ok [s_client ++ [95;113;117;101;114;121]] /\
  param_pys (model_params2 [102;105;101;108;100;95] (Some [(LQuery, s_url)]) None) = Ok [s_url ++ [95;113;117;101;114;121]].
Proof. vm_compute. repeat split; reflexivity. Qed.
Opaque python_identifier.

Print Assumptions model_params2_distinct_quiet.
Print Assumptions model_params2_distinct.

(* ================= (d'') the class-name scope for any table builder; the Literal style ================= *)
Section DeclsGeneric.
Variable tbl : list evalue -> option (list (str * evalue)).
Hypothesis tbl_nodup : forall vs t, tbl vs = Some t -> NoDup (map fst t).

(* a surviving declaration is represented by the entry under its class name *)
Definition entry_matches_g (d : cdecl) (e : option centry) : Prop :=
  match decl_table_g tbl d with
  | Some t1 => exists t', e = Some (CEnum t') /\ tbl_equiv t1 t'
  | None => e = Some CModel
  end.

Definition decls_inv_g (prefix : str) (tab : list (str * centry)) (errs seen : list cdecl) : Prop :=
  NoDup (map fst tab) /\
  (forall c t, clookup c tab = Some (CEnum t) -> exists d, In d seen /\ decl_class prefix d = c /\ decl_table_g tbl d = Some t) /\
  (forall d, In d seen -> ~ In d errs -> entry_matches_g d (clookup (decl_class prefix d) tab)) /\
  (forall d, In d errs -> In d seen) /\
  (forall p n vs, In (DEnum p n vs) seen -> tbl vs <> None).

Lemma add_decls_inv_g prefix : forall ds tab errs seen tab' errs',
  decls_inv_g prefix tab errs seen ->
  add_decls_g tbl prefix tab errs ds = Some (tab', errs') ->
  decls_inv_g prefix tab' errs' (seen ++ ds).
Proof.
  induction ds as [|d ds IH]; intros tab errs seen tab' errs' Inv H; cbn [add_decls_g] in H.
  - injection H as <- <-. now rewrite app_nil_r.
  - destruct (add_decl_g tbl prefix tab d) as [[tab1|]|] eqn:Ed; [| |discriminate];
      (replace (seen ++ d :: ds) with ((seen ++ [d]) ++ ds) by (now rewrite <- app_assoc));
      apply (IH _ _ _ _ _) with (2 := H); clear IH H;
      destruct Inv as [I1 [I2 [I3 [I4 I5]]]].
    + (* accepted *)
      unfold add_decl_g in Ed. set (c := decl_class prefix d) in *.
      assert (Hold: forall x, In x seen -> ~ In x errs -> clookup (decl_class prefix x) tab <> None).
      { intros x Hx Hnx Hn. specialize (I3 x Hx Hnx). rewrite Hn in I3. unfold entry_matches_g in I3.
        destruct (decl_table_g tbl x) eqn:Et; [destruct I3 as [? [? _]]; discriminate|discriminate]. }
      assert (I5': forall p0 n0 vs0, In (DEnum p0 n0 vs0) (seen ++ [d]) -> tbl vs0 <> None).
      { intros p0 n0 vs0 Hin. apply in_app_or in Hin as [Hin|[Hd|[]]]; [now apply (I5 p0 n0)|]. subst d.
        cbn beta iota in Ed. destruct (tbl vs0); [discriminate|discriminate]. }
      destruct d as [n|p n vs].
      * (* model *)
        destruct (clookup c tab) eqn:Ec; [discriminate|]. injection Ed as <-.
        split; [|split; [|split; [|split; [|exact I5']]]].
        -- rewrite map_app. cbn [map fst]. apply NoDup_snoc; [exact I1|]. now apply clookup_None.
        -- intros c1 t Hl. rewrite clookup_snoc in Hl. destruct (clookup c1 tab) eqn:E1.
           ++ injection Hl as ->. destruct (I2 _ _ E1) as [x [Hx Hy]]. exists x. split; [apply in_or_app; now left|exact Hy].
           ++ destruct (str_eqb c c1); discriminate.
        -- intros x Hx Hnx. apply in_app_or in Hx as [Hx|[<-|[]]].
           ++ rewrite clookup_snoc. specialize (I3 x Hx Hnx). destruct (clookup (decl_class prefix x) tab) eqn:E1; [exact I3|].
              exfalso. now apply (Hold x Hx Hnx).
           ++ rewrite clookup_snoc. fold c. rewrite Ec, str_eqb_refl. reflexivity.
        -- intros x Hx. apply in_or_app. left. now apply I4.
      * (* enum *)
        destruct (tbl vs) as [t|] eqn:Ev; [|discriminate].
        destruct (clookup c tab) as [[|t']|] eqn:Ec.
        -- discriminate.
        -- destruct (table_eqb t t') eqn:Eq; [|discriminate]. injection Ed as <-.
           assert (Heq: tbl_equiv t t').
           { apply table_eqb_equiv; [now apply (tbl_nodup vs) | | exact Eq].
             destruct (I2 _ _ Ec) as [x [_ [_ Hx]]]. destruct x; [discriminate|]. cbn [decl_table_g] in Hx. now apply tbl_nodup in Hx. }
           split; [|split; [|split; [|split; [|exact I5']]]].
           ++ now rewrite creplace_keys.
           ++ intros c1 t1 Hl. rewrite clookup_creplace in Hl. destruct (clookup c1 tab) eqn:E1; [|discriminate].
              destruct (str_eqb c c1) eqn:E2.
              ** injection Hl as <-. apply str_eqb_eq in E2. exists (DEnum p n vs). split; [apply in_or_app; right; now left|]. split; [now rewrite <- E2|exact Ev].
              ** injection Hl as ->. destruct (I2 _ _ E1) as [x [Hx Hy]]. exists x. split; [apply in_or_app; now left|exact Hy].
           ++ intros x Hx Hnx. rewrite clookup_creplace. apply in_app_or in Hx as [Hx|[<-|[]]].
              ** specialize (I3 x Hx Hnx). destruct (clookup (decl_class prefix x) tab) eqn:E1; [|exact I3].
                 destruct (str_eqb c (decl_class prefix x)) eqn:E2; [|exact I3].
                 apply str_eqb_eq in E2. rewrite <- E2, Ec in E1. injection E1 as <-.
                 unfold entry_matches_g in *. destruct (decl_table_g tbl x) as [t1|].
                 --- destruct I3 as [t2 [[= <-] He]]. exists t. split; [reflexivity|]. eapply tbl_equiv_trans; [exact He|]. now apply tbl_equiv_sym.
                 --- discriminate.
              ** fold c. rewrite Ec, str_eqb_refl. unfold entry_matches_g. cbn [decl_table_g]. rewrite Ev. exists t. split; [reflexivity|apply tbl_equiv_refl].
           ++ intros x Hx. apply in_or_app. left. now apply I4.
        -- injection Ed as <-.
           split; [|split; [|split; [|split; [|exact I5']]]].
           ++ rewrite map_app. cbn [map fst]. apply NoDup_snoc; [exact I1|]. now apply clookup_None.
           ++ intros c1 t1 Hl. rewrite clookup_snoc in Hl. destruct (clookup c1 tab) eqn:E1.
              ** injection Hl as ->. destruct (I2 _ _ E1) as [x [Hx Hy]]. exists x. split; [apply in_or_app; now left|exact Hy].
              ** destruct (str_eqb c c1) eqn:E2; [|discriminate]. injection Hl as <-. apply str_eqb_eq in E2.
                 exists (DEnum p n vs). split; [apply in_or_app; right; now left|]. split; [now rewrite <- E2|exact Ev].
           ++ intros x Hx Hnx. apply in_app_or in Hx as [Hx|[<-|[]]].
              ** rewrite clookup_snoc. specialize (I3 x Hx Hnx). destruct (clookup (decl_class prefix x) tab) eqn:E1; [exact I3|].
                 exfalso. now apply (Hold x Hx Hnx).
              ** rewrite clookup_snoc. fold c. rewrite Ec, str_eqb_refl. unfold entry_matches_g. cbn [decl_table_g]. rewrite Ev.
                 exists t. split; [reflexivity|apply tbl_equiv_refl].
           ++ intros x Hx. apply in_or_app. left. now apply I4.
    + (* reported *)
      split; [exact I1|]. split; [|split; [|split]].
      * intros c t Hl. destruct (I2 _ _ Hl) as [x [Hx Hy]]. exists x. split; [apply in_or_app; now left|exact Hy].
      * intros x Hx Hnx. apply in_app_or in Hx as [Hx|[<-|[]]].
        -- apply I3; [exact Hx|]. intro Hin. apply Hnx. apply in_or_app. now left.
        -- exfalso. apply Hnx. apply in_or_app. right. now left.
      * intros x Hx. apply in_app_or in Hx as [Hx|[<-|[]]]; apply in_or_app; [left; now apply I4 | right; now left].
      * intros p0 n0 vs0 Hin. apply in_app_or in Hin as [Hin|[Hd|[]]]; [now apply (I5 p0 n0)|]. subst d.
        unfold add_decl_g in Ed. destruct (tbl vs0); [discriminate|discriminate].
Qed.

(* enum_classes_distinct_or_shared: over any list of class-minting declarations (object schemas and enums, in processing order), if the
   generator does not crash: class names are pairwise distinct; the member table of every generated enum class is exactly the table of
   one declared value list of that class name; every declaration is reported or represented; two unreported enums with one class name
   have the same member names with the same values (they share the class); an enum and a model with one class name are never both kept *)
Theorem decls_distinct_or_shared_g prefix ds tab errs :
  model_decls_g tbl prefix ds = Some (tab, errs) ->
  NoDup (map fst tab) /\
  (forall c t, In (c, CEnum t) tab ->
     exists p n vs, In (DEnum p n vs) ds /\ decl_class prefix (DEnum p n vs) = c /\ tbl vs = Some t) /\
  (forall d, In d ds -> In d errs \/ exists e, clookup (decl_class prefix d) tab = Some e) /\
  (forall d1 d2 t1 t2, In d1 ds -> In d2 ds -> decl_class prefix d1 = decl_class prefix d2 ->
     decl_table_g tbl d1 = Some t1 -> decl_table_g tbl d2 = Some t2 -> ~ In d1 errs -> ~ In d2 errs -> tbl_equiv t1 t2) /\
  (forall n d2 t2, In (DModel n) ds -> In d2 ds -> decl_class prefix (DModel n) = decl_class prefix d2 ->
     decl_table_g tbl d2 = Some t2 -> In (DModel n) errs \/ In d2 errs) /\
  (forall d, In d errs -> In d ds).
Proof.
  unfold model_decls_g. intro H.
  assert (I0: decls_inv_g prefix [] [] []).
  { split; [constructor|]. split; [intros c t Hl; discriminate|]. split; [intros d []|]. split; [intros d []|intros ? ? ? []]. }
  pose proof (add_decls_inv_g _ _ _ _ _ _ _ I0 H) as [I1 [I2 [I3 [I4 I5]]]]. cbn [app] in *.
  assert (Hdec: forall d : cdecl, In d errs \/ ~ In d errs).
  { intro d. destruct (in_dec (fun a b : cdecl => ltac:(decide equality; try apply (list_eq_dec N.eq_dec); try apply (list_eq_dec (list_eq_dec N.eq_dec));
      try (apply list_eq_dec; decide equality; try apply Z.eq_dec; apply (list_eq_dec N.eq_dec)))) d errs); auto. }
  split; [exact I1|]. split; [|split; [|split; [|split]]].
  - intros c t Hin. apply (clookup_In_nodup _ _ _ I1) in Hin. destruct (I2 _ _ Hin) as [d [Hd [Hc Ht]]].
    destruct d as [|p n vs]; [discriminate|]. exists p, n, vs. auto.
  - intros d Hd. destruct (Hdec d) as [He|He]; [now left|right]. specialize (I3 d Hd He). unfold entry_matches_g in I3.
    destruct (decl_table_g tbl d) eqn:Et.
    + destruct I3 as [t' [-> _]]. eauto.
    + eauto.
  - intros d1 d2 t1 t2 H1 H2 Ec E1 E2 N1 N2. pose proof (I3 d1 H1 N1) as M1. pose proof (I3 d2 H2 N2) as M2.
    unfold entry_matches_g in M1, M2. rewrite E1 in M1. rewrite E2 in M2. rewrite Ec in M1.
    destruct M1 as [ta [Ea Ha]], M2 as [tb [Eb Hb]]. rewrite Ea in Eb. injection Eb as <-.
    eapply tbl_equiv_trans; [exact Ha|]. now apply tbl_equiv_sym.
  - intros n d2 t2 H1 H2 Ec E2. destruct (Hdec (DModel n)) as [He|N1]; [now left|]. destruct (Hdec d2) as [He|N2]; [now right|].
    exfalso. pose proof (I3 _ H1 N1) as M1. pose proof (I3 d2 H2 N2) as M2.
    unfold entry_matches_g in M1, M2. cbn [decl_table_g] in M1. rewrite E2 in M2. rewrite Ec in M1. destruct M2 as [tb [Eb _]]. congruence.
  - exact I4.
Qed.

End DeclsGeneric.

(* the Literal style (literal_enums: true) *)
Lemma lit_go_nodup : forall vs out, NoDup (keys out) -> NoDup (keys (lit_go vs out)).
Proof. induction vs as [|v vs IH]; intros out H; cbn [lit_go]; [exact H|]. apply IH. now apply assoc_set_nodup. Qed.

Lemma lit_table_nodup vs t : lit_table vs = Some t -> NoDup (map fst t).
Proof. intros [= <-]. apply (lit_go_nodup vs []). constructor. Qed.

(* literal_classes_distinct_or_shared: the same statement for LiteralEnumProperty.build; tables are keyed by the value itself, so tbl_equiv of two
   literal tables says that the two declared value lists are equal as sets *)
Theorem literal_classes_distinct_or_shared prefix ds tab errs :
  model_decls_lit prefix ds = Some (tab, errs) ->
  NoDup (map fst tab) /\
  (forall c t, In (c, CEnum t) tab ->
     exists p n vs, In (DEnum p n vs) ds /\ decl_class prefix (DEnum p n vs) = c /\ lit_table vs = Some t) /\
  (forall d, In d ds -> In d errs \/ exists e, clookup (decl_class prefix d) tab = Some e) /\
  (forall d1 d2 t1 t2, In d1 ds -> In d2 ds -> decl_class prefix d1 = decl_class prefix d2 ->
     decl_table_g lit_table d1 = Some t1 -> decl_table_g lit_table d2 = Some t2 -> ~ In d1 errs -> ~ In d2 errs -> tbl_equiv t1 t2) /\
  (forall n d2 t2, In (DModel n) ds -> In d2 ds -> decl_class prefix (DModel n) = decl_class prefix d2 ->
     decl_table_g lit_table d2 = Some t2 -> In (DModel n) errs \/ In d2 errs) /\
  (forall d, In d errs -> In d ds).
Proof. exact (decls_distinct_or_shared_g lit_table lit_table_nodup prefix ds tab errs). Qed.



Print Assumptions literal_classes_distinct_or_shared.
