(* MultipartThm.v — proofs about Multipart.v (C03: multipart encoding; C10: unset parts are not sent). *)
From Coq Require Import NArith ZArith List Bool.
Import ListNotations.
Require Import OPC.gen.GenKinds OPC.Uni OPC.Names OPC.Codec OPC.Endpoint OPC.Multipart.
Open Scope N_scope.

(* an optional property left UNSET contributes no form part, whatever its kind *)
Theorem mp_unset_omitted : forall T f k, mp_field T f k false PUnset = Some None.
Proof. intros. reflexivity. Qed.

(* a required property always contributes a part (or encoding fails): it is never silently omitted *)
Theorem mp_required_present : forall T f k v o, mp_field T f k true v = Some o -> o <> None.
Proof.
  intros T f k v o H. unfold mp_field in H. destruct v; try discriminate;
  destruct (mp_value T f k true _) in H; cbn in H; inversion H; discriminate.
Qed.

(* scalars are sent as the text of their value: (None, str(x).encode(), "text/plain") *)
Theorem mp_scalar_text : forall T f k req v p,
  match k with KAny | KNone | KBool | KInt | KFloat | KStr | KConst _ => True | _ => False end ->
  mp_value T f k req v = Some p -> exists s, str_of v = Some s /\ p = MText s.
Proof.
  intros T f k req v p Hk H. destruct k; try contradiction; cbn in H;
  destruct (str_of v) as [s|] eqn:E; cbn in H; inversion H; eauto.
Qed.

(* nested models and arrays are sent as one JSON part holding exactly their to_dict encoding *)
Theorem mp_nested_is_json : forall T f k req v p,
  match k with KList _ | KModel _ => True | _ => False end ->
  mp_value T f k req v = Some p -> exists j, enc T f k v = Some j /\ p = MJson j.
Proof.
  intros T f k req v p Hk H. destruct k; try contradiction; cbn in H;
  destruct (enc T f _ v) as [j|] eqn:E; inversion H; eauto.
Qed.

(* the first isinstance test of a multipart union chain against a null member raises: isinstance(x, None) *)
Theorem mp_none_member_first_refuted : exists T f v, mp_value T f (KUnion [KNone; KStr]) true v = None /\ mp_value T f (KUnion [KStr; KNone]) true v <> None.
Proof. exists [], 1%nat, (PJ (JStr [97])). split; [reflexivity|discriminate]. Qed.
