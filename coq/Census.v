(* Census.v -- what becomes of every operation, response status and request media type, and of the file names of the
   generated modules (parser/openapi.py:40-110 EndpointCollection.from_data, :150-200 Endpoint._add_responses, :470-500 the body
   part of Endpoint.from_data, parser/bodies.py:44-128 body_from_data; openapi_python_client/__init__.py:223-290 _build_models /
   _build_api: one file per module name, later writes replace earlier ones).  Model file: definitions only.
   The parsing of one operation / response / media type is abstract (an outcome); the model is the control flow that decides
   where each outcome ends up: nothing may be lost by a `continue` or an early return. *)
From Coq Require Import NArith List Bool.
Import ListNotations.
Require Import OPC.Uni OPC.Names.
Open Scope N_scope.

(* ---------------------------------------------------------------- responses of one operation: _add_responses *)
Inductive resp_outcome := RBadCode | RFail | ROk (status : N).       (* int(code)/HTTPStatus failed; response_from_data failed; ok *)
Record warning := mkW { w_what : N; w_key : str }.   (* w_what: 1 endpoint not generated, 2 invalid status code, 3 response omitted, 4 body omitted *)
Fixpoint add_responses (rs : list (str * resp_outcome)) : list (str * N) * list warning :=
  match rs with
  | [] => ([], [])
  | (code, o) :: rest =>
      let r := add_responses rest in
      match o with
      | RBadCode => (fst r, mkW 2 code :: snd r)
      | RFail => (fst r, mkW 3 code :: snd r)
      | ROk st => ((code, st) :: fst r, snd r)
      end
  end.

(* ---------------------------------------------------------------- request bodies of one operation: body_from_data + Endpoint.from_data *)
Inductive body_outcome := BInvalid | BMissingSchema | BUnsupported | BPropFail | BOk.
Fixpoint bodies_of (bs : list (str * body_outcome)) : list str * list warning :=
  match bs with
  | [] => ([], [])
  | (ct, o) :: rest =>
      let r := bodies_of rest in
      match o with BOk => (ct :: fst r, snd r) | _ => (fst r, mkW 4 ct :: snd r) end
  end.

(* ---------------------------------------------------------------- one operation *)
Record operation := mkOp {
  o_key : str;                                   (* "METHOD path" *)
  o_name : str;                                  (* operationId or generated id *)
  o_tags : list str;                             (* the tags the endpoint is filed under (after tags[:1] / generate_all_tags) *)
  o_params_ok : bool;                            (* add_parameters (operation + path item) and sort_parameters succeeded *)
  o_responses : list (str * resp_outcome);
  o_bodies : list (str * body_outcome) }.
Record endpoint := mkEp { ep_key : str; ep_name : str; ep_responses : list (str * N); ep_bodies : list str; ep_warnings : list warning }.

(* tags = [PythonIdentifier(tag) for tag in operation.tags or ["default"]]; if not config.generate_all_tags: tags = tags[:1].
   `raw`: the sanitised tags the operation declares (possibly none: a missing key and an empty list are the same to `or`) *)
Definition s_default : str := [100;101;102;97;117;108;116].
Definition sel_tags (all_tags : bool) (raw : list str) : list str :=
  let ts := match raw with [] => [s_default] | _ => raw end in
  if all_tags then ts else firstn 1 ts.

(* Endpoint.from_data + add_parameters + sort_parameters: Some endpoint (with its own warnings) or None (one warning) *)
Definition parse_operation (o : operation) : option endpoint :=
  if negb (o_params_ok o) then None
  else
    let r := add_responses (o_responses o) in
    let b := bodies_of (o_bodies o) in
    match fst b, snd b with
    | [], _ :: _ => None                          (* Endpoint requires a body, but none were parseable *)
    | _, _ => Some (mkEp (o_key o) (o_name o) (fst r) (fst b) (snd r ++ snd b))
    end.

(* ---------------------------------------------------------------- EndpointCollection.from_data *)
Record collection := mkCol { c_tag : str; c_endpoints : list endpoint; c_errors : list (str * warning) }.  (* errors keyed by METHOD path *)
Fixpoint upd (cs : list collection) (tag : str) (f : collection -> collection) : list collection :=
  match cs with
  | [] => [f (mkCol tag [] [])]                  (* endpoints_by_tag.setdefault(tag, EndpointCollection(tag=tag)) *)
  | c :: cs' => if str_eqb (c_tag c) tag then f c :: cs' else c :: upd cs' tag f
  end.
Definition file_op (cs : list collection) (o : operation) : list collection :=
  match parse_operation o with
  | None => fold_left (fun cs t => upd cs t (fun c => mkCol (c_tag c) (c_endpoints c) (c_errors c ++ [(o_key o, mkW 1 (o_key o))]))) (o_tags o) cs
  | Some ep =>
      fold_left (fun cs t => upd cs t (fun c => mkCol (c_tag c) (c_endpoints c ++ [ep])
                                                      (c_errors c ++ map (fun w => (o_key o, w)) (ep_warnings ep)))) (o_tags o) cs
  end.
Definition collections (ops : list operation) : list collection := fold_left file_op ops [].
Fixpoint find_col (cs : list collection) (tag : str) : option collection :=
  match cs with [] => None | c :: cs' => if str_eqb (c_tag c) tag then Some c else find_col cs' tag end.

(* ---------------------------------------------------------------- files: tag_dir / f"{PythonIdentifier(endpoint.name)}.py".write_text *)
Definition module_name (prefix name : str) : str := python_identifier name prefix false.
Fixpoint write_all (files : list (str * str)) (ws : list (str * str)) : list (str * str) :=   (* (file name, content key) *)
  match ws with
  | [] => files
  | (f, k) :: ws' => write_all ((f, k) :: filter (fun x => negb (str_eqb (fst x) f)) files) ws'
  end.
Definition api_files (prefix : str) (c : collection) : list (str * str) :=
  write_all [] (map (fun ep => (module_name prefix (ep_name ep), ep_key ep)) (c_endpoints c)).
Fixpoint str_mem (s : str) (l : list str) : bool := match l with [] => false | x :: t => str_eqb s x || str_mem s t end.
Fixpoint str_nodup (l : list str) : bool := match l with [] => true | x :: t => negb (str_mem x t) && str_nodup t end.
(* g_module_names_distinct: within a tag, the module names derived from the operation names are pairwise distinct *)
Definition g_module_names_distinct (prefix : str) (c : collection) : bool :=
  str_nodup (map (fun ep => module_name prefix (ep_name ep)) (c_endpoints c)).
(* g_status_distinct: the status codes the documented keys parse to are pairwise distinct *)
Fixpoint n_nodup (l : list N) : bool := match l with [] => true | x :: t => negb (existsb (N.eqb x) t) && n_nodup t end.
Definition g_status_distinct (ep : endpoint) : bool := n_nodup (map snd (ep_responses ep)).

(* int(code) for plain decimal text (leading zeros are accepted by int()) *)
Fixpoint parse_dec_acc (s : str) (acc : N) : option N :=
  match s with
  | [] => Some acc
  | c :: r => if (48 <=? c) && (c <=? 57) then parse_dec_acc r (acc * 10 + (c - 48)) else None
  end.
Definition parse_status (code : str) : resp_outcome :=
  match code with
  | [] => RBadCode
  | _ => match parse_dec_acc code 0 with Some n => if (100 <=? n) && (n <=? 599) then ROk n else RBadCode | None => RBadCode end
  end.

(* census predicate evaluated by the harness (stage B of C07): does the accounting hold on these collections *)
Definition op_accounted (cs : list collection) (o : operation) : bool :=
  forallb (fun t => match find_col cs t with
                    | None => false
                    | Some c => existsb (fun ep => str_eqb (ep_key ep) (o_key o)) (c_endpoints c)
                                || existsb (fun kw => str_eqb (fst kw) (o_key o) && (w_what (snd kw) =? 1)) (c_errors c)
                    end) (o_tags o).
